#!/bin/bash
# usage: run.sh <Cxx|all> <quick|thorough>     or   run.sh explain <replay.json>   or   run.sh build
set -u
cd "$(dirname "$0")"
export GOFLAGS=-mod=mod GOPROXY=off GOSUMDB=off GOTOOLCHAIN=local CGO_ENABLED=0
unset GOWORK
build() {
  ( cd checker && go build -o ../bin/mbcheck . ) || { echo "mbcheck: build failed" >&2; exit 2; }
}
case "${1:-}" in
  build) build; exit 0 ;;
  explain) cat "$2"; echo; exit 0 ;;
esac
[ -x bin/mbcheck ] && [ -z "$(find checker -name '*.go' -newer bin/mbcheck 2>/dev/null | head -1)" ] || build
prop="$1"; tier="${2:-quick}"
./bin/mbcheck -repo /repo -verif /verif -p "$prop" -tier "$tier"
rc=$?
if [ "$tier" = thorough ] && [ $rc -eq 0 -o $rc -eq 1 ]; then
  [ -x tools/thorough.sh ] && ./tools/thorough.sh "$prop"
fi
exit $rc
