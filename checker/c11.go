package main

// C11 — coil lookup follows the Modbus bit layout and inverts the library's packing.
// Also provides the coil-packing analysis used by C01 (R1.4).

import (
	"fmt"
	"go/token"
	"go/types"
	"regexp"
	"strings"

	"golang.org/x/tools/go/ssa"
)

func init() {
	register("C11", checkC11, "isBitSet is abstractly interpreted for all payloads, start addresses and queried addresses. R11.1: the byte index and bit mask of the bit test it returns are extracted from SSA (value identity, not spelling) and must equal the specification's layout byte (i div 8), bit (i mod 8) for i = address-start, with the subtraction proven exact under the guard (rule W). R11.2: the same pair extracted from CoilsToBytes (the store guarded by coils[j], for the loop counter j proven to range over 0..len-1) must be the same function of the coil offset. R11.3: success returns entail start <= address and i < 8*len(payload); every error return is infeasible for an in-range address; the byte index is proven in bounds. R11.4: IsCoilSet/IsInputSet pass (payload, start, address) unchanged. The write/read-back relation follows from R11.1+R11.2+R1.4 for all patterns; nothing is executed. R11.4 additionally: every return of a wrapper either forwards isBitSet's results or is unreachable for an address inside the reply. R11.5 the installed exception recognisers cannot claim coil data as an exception (recogniser and parser of one framing). R11.6 the reply a caller holds is a fresh copy of a call-local receive buffer. R11.7 = C01 R1.1 for the FC15 request encoders: the packed coil bytes reach the wire unchanged. R11.8 = C05 R5.2 for the coil path (IsCoilSet is invoked on the response handed to the extraction, with request start and field address). R11.9 = C13 R13.4 for the coil reply types (types with IsCoilSet/IsInputSet and the structs they embed).")
}

// stripConv follows integer conversions.
func stripConv(v ssa.Value) ssa.Value {
	for {
		switch x := v.(type) {
		case *ssa.Convert:
			v = x.X
		case *ssa.ChangeType:
			v = x.X
		default:
			return v
		}
	}
}

func isConstInt(v ssa.Value, n int64) bool {
	c, ok := stripConv(v).(*ssa.Const)
	return ok && c.Value != nil && isIntType(c.Type()) && c.Int64() == n
}

// bitMaskOf recognises 1<<sh (either as SHL(1,sh)) and returns sh.
func shiftOfOne(v ssa.Value) (ssa.Value, bool) {
	b, ok := stripConv(v).(*ssa.BinOp)
	if ok && b.Op == token.SHL && isConstInt(b.X, 1) {
		return b.Y, true
	}
	return nil, false
}

// loadOfElem recognises *(&s[idx]).
func loadOfElem(v ssa.Value) (*ssa.IndexAddr, bool) {
	u, ok := stripConv(v).(*ssa.UnOp)
	if !ok || u.Op != token.MUL {
		return nil, false
	}
	ia, ok := u.X.(*ssa.IndexAddr)
	return ia, ok
}

// bitTest recognises the boolean "bit sh of element idx of slice is set".
func bitTest(v ssa.Value) (ia *ssa.IndexAddr, sh ssa.Value, ok bool) {
	b, isB := v.(*ssa.BinOp)
	if !isB {
		return nil, nil, false
	}
	var inner ssa.Value
	switch {
	case (b.Op == token.NEQ || b.Op == token.GTR) && isConstInt(b.Y, 0):
		inner = b.X
	case b.Op == token.NEQ && isConstInt(b.X, 0):
		inner = b.Y
	case b.Op == token.EQL && isConstInt(b.Y, 1):
		inner = b.X
	default:
		return nil, nil, false
	}
	and, isAnd := stripConv(inner).(*ssa.BinOp)
	if !isAnd || and.Op != token.AND {
		return nil, nil, false
	}
	for _, pair := range [][2]ssa.Value{{and.X, and.Y}, {and.Y, and.X}} {
		// elem & (1<<sh)
		if l, ok := loadOfElem(pair[0]); ok {
			if s, ok := shiftOfOne(pair[1]); ok {
				return l, s, true
			}
		}
		// (elem >> sh) & 1
		if sr, ok := stripConv(pair[0]).(*ssa.BinOp); ok && sr.Op == token.SHR && isConstInt(pair[1], 1) {
			if l, ok := loadOfElem(sr.X); ok {
				return l, sr.Y, true
			}
		}
	}
	return nil, nil, false
}

type packInfo struct {
	ok     bool
	why    string
	idx    Aff // byte index as a function of coil index j
	sh     Aff
	j      Aff
	jKey   string
	lenOK  bool // len(result) == ceil(len(coils)/8)
	loopOK bool
	pos    string
	state  DNF
	fr     *Frame
}

// analyseCoilPacking interprets a func([]bool) []byte and extracts where coil j goes.
func analyseCoilPacking(c *Ctx, fn *ssa.Function) packInfo {
	pi := packInfo{}
	an, fr := analyse(c, fn)
	_ = an
	pi.fr = fr
	if len(fr.returns) != 1 {
		pi.why = "not exactly one return"
		return pi
	}
	res, ok := fr.returns[0].vals[0].(ASlice)
	if !ok || !res.root.fresh {
		pi.why = "result is not a freshly made slice"
		return pi
	}
	coils, ok := fr.vals[fn.Params[0]].(ASlice)
	if !ok {
		pi.why = "parameter is not a slice"
		return pi
	}
	// result length = ceil(len(coils)/8)
	rst := fr.returns[0].state
	pi.lenOK = rst.entails(atomGE(res.ln.scale(8), coils.ln)) && rst.entails(atomLE(res.ln.scale(8), coils.ln.addc(7)))
	// the unique OR-store into the result
	var store *ssa.Store
	n := 0
	for _, b := range fn.Blocks {
		for _, in := range b.Instrs {
			st, ok := in.(*ssa.Store)
			if !ok {
				continue
			}
			ia, ok := st.Addr.(*ssa.IndexAddr)
			if !ok {
				continue
			}
			if s, ok := fr.sliceOf(ia.X); ok && s.root == res.root {
				store = st
				n++
			}
		}
	}
	if n != 1 {
		pi.why = fmt.Sprintf("%d stores into the result (want exactly one OR-store)", n)
		return pi
	}
	pi.pos = c.pos(store.Pos())
	dst := store.Addr.(*ssa.IndexAddr)
	or, ok := stripConv(store.Val).(*ssa.BinOp)
	if !ok || or.Op != token.OR {
		pi.why = "store value is not an OR"
		return pi
	}
	var shv ssa.Value
	for _, pair := range [][2]ssa.Value{{or.X, or.Y}, {or.Y, or.X}} {
		if l, ok := loadOfElem(pair[0]); ok {
			if s, ok := shiftOfOne(pair[1]); ok {
				ls, _ := fr.sliceOf(l.X)
				li, _ := fr.intVal(l.Index)
				di, _ := fr.intVal(dst.Index)
				if ls.root == res.root && li.a.equal(di.a) {
					shv = s
				}
			}
		}
	}
	if shv == nil {
		pi.why = "store is not result[k] = result[k] | 1<<s"
		return pi
	}
	// guard: nearest dominating If on coils[j]
	blk := store.Block()
	var jv ssa.Value
	for b := blk; b != nil; b = b.Idom() {
		id := b.Idom()
		if id == nil {
			break
		}
		iff, ok := id.Instrs[len(id.Instrs)-1].(*ssa.If)
		if !ok || id.Succs[0] != b {
			continue
		}
		if l, ok := loadOfElem(iff.Cond); ok {
			if s, ok := fr.sliceOf(l.X); ok && s.root == coils.root {
				jv = l.Index
				break
			}
		}
	}
	if jv == nil {
		pi.why = "store is not guarded by coils[j]"
		return pi
	}
	st := fr.blockIn[blk.Index]
	pi.state = st
	ji, _ := fr.intVal(jv)
	di, _ := fr.intVal(dst.Index)
	si, _ := fr.intVal(shv)
	pi.j = fr.useIn(ji, st, "coil index")
	pi.idx = fr.useIn(di, st, "byte index")
	pi.sh = fr.useIn(si, st, "bit index")
	if len(pi.j.terms) == 1 && pi.j.terms[0].k == 1 {
		// the coil index as the engine prints it (a plain counter, or counter+1 for `range` loops):
		// positions are compared as functions of this expression
		pi.jKey = pi.j.String()
	}
	// loop coverage: coils[j] is tested for every j in 0..len(coils)-1
	for b := blk; b != nil; b = b.Idom() {
		id := b.Idom()
		if id == nil {
			break
		}
		if iff, ok := id.Instrs[len(id.Instrs)-1].(*ssa.If); ok && id.Succs[0] == b {
			if l, ok := loadOfElem(iff.Cond); ok && l.Index == jv {
				okc, why := coversAll(fr, l, coils)
				pi.loopOK = okc
				if !okc {
					pi.why = why
				}
				break
			}
		}
	}
	pi.ok = true
	return pi
}

func checkC11(c *Ctx, r *Report) {
	// R11.9: the payload a lookup reads is still the reply's: no method declared on a coil reply type
	// (or on a struct it embeds) writes the payload or stores through its receiver, whichever other
	// methods ran before the lookup (a String() run by a log statement)
	{
		fam := packetFamily(c, "packet", func(tn *types.Named) bool { return hasMethodNamed(c, tn, "IsCoilSet", "IsInputSet") })
		r.instance("R11.9", packetValuesImmutable(c, r, "R11.9", "packet", fam, nil))
		r.floor("R11.9", 12)
	}
	r.floor("R11.1", 1)
	r.floor("R11.4", 3)
	r.floor("R11.2", 1)
	r.floor("R11.3", 1)
	fn := c.fnMust("packet", "isBitSet")
	runC11On(c, r, fn, c.fnMust("packet", "CoilsToBytes"), false)
	// R11.4 plumbing: every module function that calls isBitSet
	cg := c.callGraph()
	if node := cg.Nodes[fn]; node != nil {
		seen := map[*ssa.Function]bool{}
		for _, e := range node.In {
			caller := e.Caller.Func
			if seen[caller] || !c.inModule(caller) || caller.Synthetic != "" {
				continue
			}
			seen[caller] = true
			c11Wrapper(c, r, caller, fn)
			// aliases: functions of the same package that call the wrapper statically
			if n2 := cg.Nodes[caller]; n2 != nil {
				for _, e2 := range n2.In {
					c2 := e2.Caller.Func
					if seen[c2] || !c.inModule(c2) || c2.Synthetic != "" || c2.Pkg != caller.Pkg {
						continue
					}
					if cc, ok := e2.Site.(*ssa.Call); !ok || cc.Common().StaticCallee() != caller {
						continue
					}
					seen[c2] = true
					c11Wrapper(c, r, c2, caller)
				}
			}
		}
	}
	// R11.7: what is written is what was packed: the write-multiple-coils encoders put the packed
	// coil bytes on the wire unchanged (C01 R1.1 for the FC15 request encoders)
	{
		crc := c.fnMust("packet", "CRC16")
		reqs := requestTypes(c, "packet")
		n := 0
		for _, m := range bytesMethods(c, "packet") {
			tn := m.Signature.Recv().Type().(*types.Named)
			fc, okFC := functionCodeOf(c, tn)
			if !reqs[tn] || !okFC || fc != 15 || !(hasMBAP(tn) || callsDirect(m, crc)) {
				continue
			}
			er := runEncoder(c, "packet", m, crc)
			id := fnID(m)
			r.funcs[id] = true
			if !er.okay {
				r.undecided("R11.7", id, "encoder not interpretable: "+er.why, c.pos(m.Pos()))
				continue
			}
			tmp := newReport(r.Prop, r.Tier)
			c01Encoder(c, tmp, er, id, hasMBAP(tn), false)
			n += copyItems(tmp, r, "R1.1", "R11.7")
		}
		r.instance("R11.7", n)
		r.floor("R11.7", 2)
	}
	// R11.5: a coil reply reaches the lookup at all: the exception recognisers the clients
	// install claim a reply only if it is an exception frame of their own framing (a recogniser
	// of the other framing fires on coil data whose bytes happen to look like an exception)
	{
		crc := c.fnMust("packet", "CRC16")
		installedRecognisers(c, r, "R11.5", crc, nil)
		r.floor("R11.5", 2)
	}
	// R11.8: field extraction asks the reply itself: IsCoilSet is invoked on the response handed to
	// extractCoilFields with (request start, field address), not on an adapter in between whose
	// answers (cached, defaulted) could differ — in particular for out-of-range addresses (C05 R5.2)
	{
		tmp := newReport(r.Prop, r.Tier)
		c05Plumbing(c, tmp)
		r.instance("R11.8", copyItems(tmp, r, "R5.2", "R11.8", "IsCoilSet"))
		r.floor("R11.8", 2)
	}
	// R11.6: the payload a lookup reads is the reply's own: do() hands back a fresh copy of a
	// call-local buffer, so a later exchange cannot change an earlier reply's coils
	clientLoopItems(c, r, "R7.2", "R11.6", "the frame handed on is a copy of received[0:total]")
	for _, name := range []string{"Client", "SerialClient"} {
		ci := analyseClient(c, name, name == "SerialClient")
		if ci.problem == "" && ci.recvBuf != nil && ci.recvBuf.fresh {
			r.ok("R11.6", fnID(ci.do), "the receive buffer is local to the call", c.pos(ci.do.Pos()), true)
		} else {
			r.fail("R11.6", fnID(ci.do), "the receive buffer is shared between calls: an earlier reply's coil bytes change under the caller", c.pos(ci.do.Pos()), ci.problem, "shared-receive-buffer")
		}
	}
	r.assumption("coil payload bytes are stable (no analysed function stores into the payload)")
	r.assumption("slice lengths are below 2^31; int is 64 bits wide")
}

func c11Wrapper(c *Ctx, r *Report, caller, target *ssa.Function) {
	id := fnID(caller)
	r.funcs[id] = true
	an := &Analysis{ctx: c, u: newUniverse(), top: caller}
	found := false
	an.onCall = func(f *Frame, ci ssa.CallInstruction, callee *ssa.Function, args []AV) {
		if callee != target || f.depth != 0 {
			return
		}
		found = true
		r.instance("R11.4", 1)
		pos := c.pos(ci.Pos())
		ps := caller.Params
		// wrapper shape: (receiver with payload, start uint16, address uint16)
		if len(ps) != 3 || len(args) != 3 {
			r.undecided("R11.4", id, "caller of "+target.Name()+" does not have the (receiver, start, address) shape", pos)
			return
		}
		s, isS := args[0].(ASlice)
		a1, ok1 := args[1].(AInt)
		a2, ok2 := args[2].(AInt)
		p1, _ := f.vals[ps[1]].(AInt)
		p2, _ := f.vals[ps[2]].(AInt)
		okPayload := isS && strings.HasPrefix(s.root.key, ps[0].Name()+".") && s.off.isConst() && s.off.c == 0 && s.ln.equal(s.root.ln)
		if st, isSt := args[0].(AStruct); isSt && target.Signature.Recv() != nil {
			// alias of a wrapper: the receiver itself is passed on
			okPayload = st.key == ps[0].Name()
		}
		if okPayload && ok1 && ok2 && len(a1.conds) == 0 && len(a2.conds) == 0 && a1.a.equal(p1.a) && a2.a.equal(p2.a) {
			r.ok("R11.4", id, "passes (whole payload field, start, address) unchanged and in this order", pos, true)
		} else {
			r.fail("R11.4", id, "does not pass (whole payload, start, address) unchanged and in order", pos,
				fmt.Sprintf("args=%s", describeAV(ATuple(args))), "plumbing")
		}
	}
	fr := an.newFrame(caller, nil, nil)
	fr.run(dnfTrue())
	if !found {
		r.undecided("R11.4", id, "call to "+target.Name()+" not found at depth 0", c.pos(caller.Pos()))
		return
	}
	// the wrapper answers with the target's answer: a return that does not forward the call's
	// results must be unreachable for an address inside the reply (start <= address < start+8*len)
	an2 := &Analysis{ctx: c, u: newUniverse(), top: caller, logCalls: true, noInline: func(f *ssa.Function) bool { return f == target }}
	fr2 := an2.newFrame(caller, nil, nil)
	fr2.run(dnfTrue())
	var tc *CallRec
	for _, cr := range an2.calls {
		if cr.frame == fr2 && cr.callee == target {
			tc = cr
		}
	}
	ps := caller.Params
	if tc == nil || len(ps) != 3 {
		return
	}
	res, _ := tc.res.(ATuple)
	p1, ok1 := fr2.vals[ps[1]].(AInt)
	p2, ok2 := fr2.vals[ps[2]].(AInt)
	var plen Aff
	havePayload := false
	if s, isS := tc.args[0].(ASlice); isS {
		plen, havePayload = s.root.ln, true
	}
	for _, rs := range fr2.returns {
		if len(rs.state) == 0 {
			continue
		}
		r.instance("R11.4", 1)
		pos := c.pos(rs.instr.Pos())
		fwd := len(res) == len(rs.vals)
		for i := range rs.vals {
			if fwd && describeAV(rs.vals[i]) != describeAV(res[i]) {
				fwd = false
			}
		}
		if fwd {
			r.ok("R11.4", id, "returns "+target.Name()+"'s results unchanged", pos, true)
			continue
		}
		if !havePayload || !ok1 || !ok2 {
			// alias of a wrapper (receiver passed on whole): any own return is a deviation
			r.fail("R11.4", id, "has a return that does not forward "+target.Name()+"'s answer", pos, describeAV(ATuple(rs.vals)), "own-return")
			continue
		}
		inRange := Conj{atomGE(p2.a, p1.a), atomLT(p2.a.sub(p1.a), plen.scale(8))}
		feas := false
		for _, cj := range rs.state {
			if !infeasible(cj.with(inRange...)) {
				feas = true
			}
		}
		if feas {
			r.fail("R11.4", id, "answers on its own, without "+target.Name()+", for an address that lies inside the reply", pos, truncate(rs.state.String(), 300), "own-return-in-range")
		} else {
			r.ok("R11.4", id, "a return that does not forward "+target.Name()+"'s answer is unreachable for addresses inside the reply", pos, true)
		}
	}
}

func runC11On(c *Ctx, r *Report, fn, pack *ssa.Function, control bool) map[string]bool {
	fired := map[string]bool{}
	id := fnID(fn)
	an, fr := analyse(c, fn)
	if !control {
		r.funcs[id] = true
		r.instance("R11.1", 1)
		r.instance("R11.3", 1)
	}
	ps := fn.Params
	if len(ps) != 3 {
		if !control {
			r.undecided("R11.1", id, "unexpected signature", c.pos(fn.Pos()))
		}
		return fired
	}
	data, _ := fr.vals[ps[0]].(ASlice)
	start, _ := fr.vals[ps[1]].(AInt)
	bit, _ := fr.vals[ps[2]].(AInt)
	i := bit.a.sub(start.a)
	// finding signatures name the parameters by role, not by their spelling in the source
	canon := func(s string) string {
		for k, role := range []string{"payload", "start", "address"} {
			s = regexp.MustCompile(`\b`+regexp.QuoteMeta(ps[k].Name())+`\b`).ReplaceAllString(s, role)
		}
		return s
	}
	for _, o := range an.obligs {
		if control {
			if !o.ok {
				fired["bounds"] = true
			}
			continue
		}
		if o.ok {
			r.add(Item{Rule: "R11.3", Construct: id, What: o.desc, Pos: c.pos(o.pos), OK: true, Nontrivial: true})
		} else {
			r.add(Item{Rule: "R11.3", Construct: id, What: o.desc + " — cannot prove " + o.goal, Pos: c.pos(o.pos), OK: false, Detail: o.facts, Signature: o.kind + ":" + c.exprAt(o.pos, o.fn), Nontrivial: true})
		}
	}
	var unpackIdx *Aff
	for _, rs := range fr.returns {
		pos := c.pos(rs.instr.Pos())
		errNil := fr.nilness(rs.vals[1])
		inRange := Conj{atomGE(bit.a, start.a), atomLT(i, data.ln.scale(8))}
		if errNil.kind == fConst && errNil.b {
			okR := rs.state.entails(inRange[0]) && rs.state.entails(inRange[1])
			if control {
				if !okR {
					fired["range"] = true
				}
			} else if okR {
				r.ok("R11.3", id, "success return entails start <= address and address-start < 8*len(payload)", pos, true)
			} else {
				r.fail("R11.3", id, "success return reachable for an address outside the payload's bits", pos, truncate(rs.state.String(), 300), "range")
			}
			// R11.1 extract the bit test
			ia, shv, ok := bitTest(rs.instr.Results[0])
			if !ok {
				if !control {
					r.undecided("R11.1", id, "returned boolean is not a recognisable single-bit test of a payload byte", pos)
				} else {
					fired["layout"] = true
				}
				continue
			}
			s, _ := fr.sliceOf(ia.X)
			idxAI, _ := fr.intVal(ia.Index)
			shAI, _ := fr.intVal(shv)
			idx := fr.useIn(idxAI, rs.state, "byte index").add(s.off)
			sh := fr.useIn(shAI, rs.state, "bit index")
			unpackIdx = &idx
			wantIdx := affSym(fr.divSym(i, 8))
			wantSh := fr.modAff(i, 8)
			okIdx := s.root == data.root && rs.state.entails(atomEQ(idx, wantIdx))
			okSh := rs.state.entails(atomEQ(sh, wantSh))
			if control {
				if !okIdx || !okSh {
					fired["layout"] = true
				}
				continue
			}
			if okIdx {
				r.ok("R11.1", id, "tested byte is payload[(address-start) div 8]", pos, true)
			} else {
				r.fail("R11.1", id, "tested byte is not payload[(address-start) div 8]", pos,
					fmt.Sprintf("byte index = %s, specification = %s", idx.String(), wantIdx.String()), "byteindex="+canon(idx.String()))
			}
			if okSh {
				r.ok("R11.1", id, "tested bit is (address-start) mod 8", pos, true)
			} else {
				r.fail("R11.1", id, "tested bit is not (address-start) mod 8", pos,
					fmt.Sprintf("bit = %s, specification = %s", sh.String(), wantSh.String()), "bit="+sh.String())
			}
		} else {
			in := dnfAnd(rs.state, DNF{inRange})
			feas := false
			for _, cj := range in {
				if !infeasible(cj) {
					feas = true
				}
			}
			nonNilErr := errNil.kind == fConst && !errNil.b
			if control {
				if feas || !nonNilErr {
					fired["spurious-error"] = true
				}
			} else if !feas && nonNilErr {
				r.ok("R11.3", id, "error return is unreachable for an in-range address and carries a non-nil error", pos, true)
			} else {
				r.fail("R11.3", id, "error return reachable for an in-range address (or error may be nil)", pos, truncate(rs.state.String(), 300), "spurious-error")
			}
		}
	}
	if control || pack == nil {
		return fired
	}
	// R11.2 agreement with the packing side
	r.instance("R11.2", 1)
	pi := analyseCoilPacking(c, pack)
	pid := fnID(pack)
	r.funcs[pid] = true
	if !pi.ok {
		r.undecided("R11.2", pid, "packing function not interpretable: "+pi.why, c.pos(pack.Pos()))
		return fired
	}
	norm := func(a Aff, from string) string { return strings.ReplaceAll(a.String(), from, "k") }
	_ = norm
	packS := norm(pi.idx, pi.jKey)
	if unpackIdx != nil {
		unpackS := canon(norm(*unpackIdx, ps[2].Name()+"-"+ps[1].Name()))
		unpackS = strings.ReplaceAll(unpackS, i.String(), "k")
		if packS == unpackS {
			r.ok("R11.2", id, "lookup and CoilsToBytes place coil k in the same byte: "+packS, pi.pos, true)
		} else {
			r.fail("R11.2", id, "lookup and CoilsToBytes disagree on the byte of coil k", pi.pos,
				fmt.Sprintf("CoilsToBytes: byte %s; lookup: byte %s", packS, unpackS), "pack="+packS+" unpack="+unpackS)
		}
	}
	return fired
}

func init() {
	controls["C11"] = func(c *Ctx, r *Report) {
		f1 := runC11On(c, r, c.fnMust("c11", "bitSetMod7"), nil, true)
		f2 := runC11On(c, r, c.fnMust("c11", "bitSetLoose"), nil, true)
		f3 := runC11On(c, r, c.fnMust("c11", "bitSetStrict"), nil, true)
		r.controls["C11/R11.1-wrong-bit"] = f1["layout"]
		r.controls["C11/R11.3-range"] = f2["range"] && f2["bounds"]
		r.controls["C11/R11.3-spurious-error"] = f3["spurious-error"]
	}
}
