package main

import (
	"fmt"
	"testing"
)

func TestDbgFC6(t *testing.T) {
	repoRootForRel = "/repo"
	c := load("/repo", modPath, 4)
	fn := c.fnMust("packet", "ParseWriteSingleRegisterResponseRTU")
	an := &Analysis{ctx: c, u: newUniverse(), top: fn}
	pf := an.newFrame(fn, nil, nil)
	pf.run(dnfTrue())
	for _, rs := range pf.returns {
		if p, ok := rs.vals[0].(APtr); ok && p.obj != nil {
			fmt.Println("stores:")
			for k, v := range p.obj.stores {
				fmt.Printf("  %q -> %s\n", k, describeAV(v[0].val))
			}
			fmt.Println("storeN:", pf.storeN[p.obj.alloc])
			recv := pf.loadPath(p.obj, "", p.obj.typ, rs.instr)
			fmt.Println("recv:", describeAV(recv))
		}
	}
}
