package main

// C17 — server lifecycle: safe with any callbacks, accounting, graceful shutdown
// (structural clauses; DESIGN §3 C17).

import (
	"fmt"
	"go/token"
	"go/types"
	"os"
	"strings"

	"golang.org/x/tools/go/ssa"
)

func init() {
	register("C17", checkC17, "Exact accounting under all interleavings, the in-flight guarantee of Shutdown as a whole and bounded time are NOT decided (schedule exploration). Decided: R17.1 every call through a func-typed field of Server, and through every func-typed field of the package's other structs, is reached only when that very field was tested non-nil on the path or a non-nil value was stored to it (abstract interpretation with path facts; the copied error callback is covered by value flow and by a field invariant: all stores to connection.onErrorFunc store a proven non-nil value and every allocation of connection sets it). R17.2 the unexported shared fields of Server (listener, activeConnections) are only read holding Server.mu and only written holding it exclusively (lock-set analysis). R17.3 each registration of an accepted connection in the server's connection set (recognised by its effect: an insertion into the map-typed field of Server, directly or through helpers, under the constant flags passed) is followed on every path by the go statement whose first deferred function removes it again exactly once on every path and evaluates the close-callback guard exactly once on every path; the rejected-connection path closes the connection before continuing. R17.4 a function registered with context.AfterFunc (or started with go) in serve closes the listener, so cancellation can interrupt a blocked Accept; the resulting accept error is mapped to ErrServerClosed. R17.5 Shutdown sets the shutdown flag before closing the listener. R17.6 in the connection loop the in-flight flag is set before the assembler runs and cleared only after the reply write. R17.7 no method call on the listener field while it can be nil. R17.8 Shutdown's scan: on every back edge of the scan loop new-flag => old-flag and new-flag => not in-flight (edge states of the abstract interpretation), and a connection is closed only where its in-flight flag was read false. R17.9 no return leaves Server.mu held. R17.10 the assembler hands back all replies produced for a read and the connection loop writes them before reading again (C15 R15.3/R15.4). R17.11 = C16 R16.6: nothing on the per-connection path writes package-level state (a data race between connections). R17.12 the write deadline set before writing a reply is computed from time.Now() read after the assembler returned. R17.13 every exported method of Server from which Accept is reached has stored the very listener accepted on into the Server's listener field (the one Shutdown closes) before Accept (store record value = Accept's receiver, structural executed-before). R17.6 also: every path from raising the in-flight flag back to the next Read passes the clearing store. R17.12 also: a write deadline armed before the assembler ran must be re-armed after it returned before the reply is written.")
}

func checkC17(c *Ctx, r *Report) {
	r.floor("R17.1", 4)
	r.floor("R17.2", 2)
	r.floor("R17.3", 3)
	r.floor("R17.8", 1)
	c17ListenerRegistered(c, r)
	r.floor("R17.13", 2)
	// R17.12: the reply of a request whose handler ran is not cut off by a stale deadline: where the
	// connection loop sets a write deadline before writing the reply, the deadline is computed
	// from a clock reading (time.Now) taken after the assembler (and with it the handler) returned
	{
		h := c.fnMust("server", "*connection.handle")
		var recvBlk *ssa.BasicBlock
		var recvInstr ssa.Instruction
		for _, b := range h.Blocks {
			for _, in := range b.Instrs {
				if call, ok := in.(*ssa.Call); ok && call.Common().IsInvoke() && call.Common().Method.Name() == "ReceiveRead" {
					recvBlk, recvInstr = b, in
				}
			}
		}
		n := 0
		var early, after []*ssa.Call
		for _, b := range h.Blocks {
			for _, in := range b.Instrs {
				call, ok := in.(*ssa.Call)
				if !ok || !call.Common().IsInvoke() || call.Common().Method.Name() != "SetWriteDeadline" {
					continue
				}
				n++
				r.instance("R17.12", 1)
				// clock readings in the backward slice of the argument
				fresh, stale := 0, 0
				seen := map[ssa.Value]bool{}
				var walk func(v ssa.Value, depth int)
				walk = func(v ssa.Value, depth int) {
					if v == nil || seen[v] || depth > 10 {
						return
					}
					seen[v] = true
					if cl, ok := v.(*ssa.Call); ok {
						if sc := cl.Common().StaticCallee(); sc != nil && sc.String() == "time.Now" {
							if recvBlk != nil && (recvBlk.Dominates(cl.Block()) && (recvBlk != cl.Block() || before(recvInstr, cl))) {
								fresh++
							} else {
								stale++
							}
							return
						}
					}
					if ph, ok := v.(*ssa.Phi); ok {
						for _, e := range ph.Edges {
							walk(e, depth+1)
						}
						return
					}
					if in, ok := v.(ssa.Instruction); ok {
						for _, op := range in.Operands(nil) {
							if op != nil && *op != nil {
								walk(*op, depth+1)
							}
						}
					}
				}
				for _, a := range call.Common().Args {
					walk(a, 0)
				}
				if recvBlk == nil || !recvBlk.Dominates(b) || (recvBlk == b && !before(recvInstr, call)) {
					early = append(early, call) // set before the assembler ran: judged at the reply write below
					continue
				}
				after = append(after, call)
				if fresh >= 1 && stale == 0 {
					r.ok("R17.12", fnID(h), "the write deadline of a reply is computed from time.Now() read after the assembler returned", c.pos(call.Pos()), true)
				} else {
					r.fail("R17.12", fnID(h), "the write deadline of a reply is computed from a time taken before the handler ran (a slow handler's reply then fails with an expired deadline)", c.pos(call.Pos()), fmt.Sprintf("clock readings after the assembler call: %d, before: %d", fresh, stale), "stale-write-deadline")
				}
			}
		}
		// a deadline armed before the assembler ran must have been re-armed before the reply is written
		if len(early) > 0 && recvBlk != nil {
			for _, b := range h.Blocks {
				for _, in := range b.Instrs {
					w, ok := in.(*ssa.Call)
					if !ok || !w.Common().IsInvoke() || w.Common().Method.Name() != "Write" || !recvBlk.Dominates(b) || (recvBlk == b && !before(recvInstr, w)) {
						continue
					}
					rearmed := false
					for _, d := range after {
						if d.Block().Dominates(b) && (d.Block() != b || before(d, w)) {
							rearmed = true
						}
					}
					r.instance("R17.12", 1)
					if rearmed {
						r.ok("R17.12", fnID(h), "the write deadline armed before the assembler ran is re-armed before the reply is written", c.pos(w.Pos()), true)
					} else {
						r.fail("R17.12", fnID(h), "the reply is written under a write deadline armed before the handler ran (a slow handler's reply then fails with an expired deadline)", c.pos(w.Pos()), fmt.Sprintf("deadline set at %s", c.pos(early[0].Pos())), "stale-write-deadline")
					}
				}
			}
		}
		if n == 0 {
			r.instance("R17.12", 1)
			r.ok("R17.12", fnID(h), "the connection loop sets no write deadline", c.pos(h.Pos()), false)
		}
		r.floor("R17.12", 1)
	}
	// R17.11: connections are served concurrently: nothing on the per-connection path writes
	// package-level state (C16 R16.6), which would be a data race between two clients
	{
		tmp := newReport(r.Prop, r.Tier)
		c16SharedState(c, tmp)
		r.instance("R17.11", copyItems(tmp, r, "R16.6", "R17.11"))
		r.floor("R17.11", 1)
	}
	// R17.10: a request whose handler ran gets its complete reply before the connection is let
	// go: the assembler hands back all replies it produced for a read (C15 R15.3) and the
	// connection loop writes them before it reads again or returns (C15 R15.4)
	{
		tmp := newReport(r.Prop, r.Tier)
		cls := c.fnMust("packet", "LooksLikeModbusTCP")
		var step *ssa.Function
		if node := c.callGraph().Nodes[cls]; node != nil {
			for _, e := range node.In {
				if e.Caller.Func.Pkg == c.pkg("server") {
					step = e.Caller.Func
				}
			}
		}
		if step != nil {
			c15Loop(c, tmp, assemblerReceiveRead(c), step)
			c15Conn(c, tmp, c.fnMust("server", "*connection.handle"))
		}
		r.instance("R17.10", copyItems(tmp, r, "R15.3", "R17.10")+copyItems(tmp, r, "R15.4", "R17.10"))
		r.floor("R17.10", 4)
	}
	c17Callbacks(c, r, "server")
	c17Locks(c, r)
	c17Structure(c, r)
	r.assumption("user callbacks do not mutate the Server's configuration fields while it serves (documented on the type)")
	r.assumption("sync.RWMutex and sync/atomic semantics")
}

// nonNilAt: under every disjunct, v is known non-nil (tested, or a non-nil value was stored to its field on the path).
func nonNilAt(f *Frame, st DNF, v AV, invariantFields map[string]bool) bool {
	if len(st) == 0 {
		return true
	}
	nf := f.nilness(v)
	if nf.kind == fConst {
		return !nf.b
	}
	key := ""
	switch x := v.(type) {
	case AOpaque:
		key = x.key
	case ARef:
		key = x.key
	}
	for fld := range invariantFields {
		if strings.HasSuffix(key, "."+fld) {
			return true
		}
	}
	g := f.an.u.boolSym("stored(" + key + ")")
	for _, cj := range st {
		if DNF.entailsForm(DNF{cj}, formNot(nf)) {
			continue
		}
		if cj.entails(atomEQ(affSym(g), affConst(1))) {
			continue
		}
		return false
	}
	return true
}

// c17Callbacks: R17.1 over every function of the package.
func c17Callbacks(c *Ctx, r *Report, pkgRel string) map[string]bool {
	fired := map[string]bool{}
	sp := c.pkg(pkgRel)
	// field invariants for func-typed fields of structs other than the configuration struct:
	// all stores store a proven non-nil value, and every allocation of the struct stores the field
	invariant := map[string]bool{}
	type pending struct {
		tn    *types.Named
		field int
	}
	var cands []pending
	for _, m := range sp.Members {
		t, ok := m.(*ssa.Type)
		if !ok {
			continue
		}
		tn, ok := t.Type().(*types.Named)
		if !ok || tn.Obj().Exported() {
			continue
		}
		st, ok := tn.Underlying().(*types.Struct)
		if !ok {
			continue
		}
		for i := 0; i < st.NumFields(); i++ {
			if _, isF := st.Field(i).Type().Underlying().(*types.Signature); isF {
				cands = append(cands, pending{tn, i})
			}
		}
	}
	analyses := map[*ssa.Function]*Analysis{}
	frames := map[*ssa.Function]*Frame{}
	get := func(fn *ssa.Function) (*Analysis, *Frame) {
		if a, ok := analyses[fn]; ok {
			return a, frames[fn]
		}
		an := &Analysis{ctx: c, u: newUniverse(), top: fn, logCalls: true}
		fr := an.newFrame(fn, nil, nil)
		fr.run(dnfTrue())
		analyses[fn], frames[fn] = an, fr
		return an, fr
	}
	for _, cd := range cands {
		st := cd.tn.Underlying().(*types.Struct)
		fname := st.Field(cd.field).Name()
		stores := storesToFields(c, pkgRel, cd.tn, map[int]bool{cd.field: true})
		ok := len(stores) > 0
		for _, s := range stores {
			_, fr := get(s.fn)
			// the state on entry to the store's block (the guards that dominate it) must prove the
			// stored value non-nil
			state := fr.blockIn[s.instr.Block().Index]
			if at, ok := fr.stateAt[s.instr]; ok {
				state = at // includes what loads earlier in the block established
			}
			if len(state) > 0 && !nonNilAt(fr, state, fr.val(s.val), nil) {
				ok = false
			}
		}
		// every allocation of the struct is in a function that stores the field
		for _, fn := range c.allFuncs(pkgRel) {
			for _, b := range fn.Blocks {
				for _, in := range b.Instrs {
					if al, isA := in.(*ssa.Alloc); isA && types.Identical(deref(al.Type()), cd.tn) {
						has := false
						for _, s := range stores {
							if s.fn == fn {
								has = true
							}
						}
						if !has {
							ok = false
						}
					}
				}
			}
		}
		id := pkgRel + "." + cd.tn.Obj().Name() + "." + fname
		if r != nil {
			r.instance("R17.1", 1)
			if ok {
				invariant[fname] = true
				r.ok("R17.1", id, fmt.Sprintf("field invariant: all %d stores put a proven non-nil function into the field and every allocation sets it", len(stores)), "-", true)
			} else {
				// no invariant: every call through this field must then be guarded on its own path
				// (decided per call site below); an optional, nil-by-default hook is legitimate
				r.info("R17.1", id, "no non-nil invariant for this func-typed field (some store is not proven non-nil or an allocation leaves it unset): calls through it must test it", "-")
			}
		} else if ok {
			invariant[fname] = true
		}
	}
	// R17.7: interface-typed unexported fields of the configuration struct (the listener) are
	// nil until serving starts: every method call on them needs the same guard
	for _, fn := range c.allFuncs(pkgRel) {
		uses := false
		for _, b := range fn.Blocks {
			for _, in := range b.Instrs {
				if ci, ok := in.(*ssa.Call); ok && ci.Common().IsInvoke() {
					if ld, ok := ci.Common().Value.(*ssa.UnOp); ok {
						if fa, ok := ld.X.(*ssa.FieldAddr); ok && fieldVarOf(fa) != nil && !fieldVarOf(fa).Exported() {
							if n, ok := deref(fa.X.Type()).(*types.Named); ok && n.Obj().Exported() {
								uses = true
							}
						}
					}
				}
			}
		}
		if !uses {
			continue
		}
		an, fr := get(fn)
		for _, cr := range an.calls {
			if cr.frame != fr || cr.method == "" {
				continue
			}
			ld, ok := cr.instr.Common().Value.(*ssa.UnOp)
			if !ok {
				continue
			}
			fa, ok := ld.X.(*ssa.FieldAddr)
			if !ok || fieldVarOf(fa) == nil || fieldVarOf(fa).Exported() {
				continue
			}
			if n, ok := deref(fa.X.Type()).(*types.Named); !ok || !n.Obj().Exported() {
				continue
			}
			okc := nonNilAt(fr, cr.state, cr.recv, nil)
			if !okc {
				fired[fn.Name()+":iface"] = true
			}
			if r == nil {
				continue
			}
			r.instance("R17.7", 1)
			r.funcs[fnID(fn)] = true
			what := fieldVarOf(fa).Name() + "." + cr.method + "()"
			if okc {
				r.ok("R17.7", fnID(fn), what+" is called only where the field was tested non-nil on the path", posOfCall(c, cr), true)
			} else {
				r.fail("R17.7", fnID(fn), what+" can be called while the field is still nil (server not started)", posOfCall(c, cr), truncate(cr.state.String(), 200), "nil-iface:"+what)
			}
		}
	}
	// every dynamic call in the package. An unexported helper that is only ever called
	// statically from inside the package is examined in its callers' frames (with the arguments
	// they pass), not stand-alone with arbitrary parameters.
	ownDyn := func(fn *ssa.Function) bool {
		for _, b := range fn.Blocks {
			for _, in := range b.Instrs {
				if ci, ok := in.(ssa.CallInstruction); ok {
					cm := ci.Common()
					if !cm.IsInvoke() && cm.StaticCallee() == nil {
						if _, isB := cm.Value.(*ssa.Builtin); !isB {
							return true
						}
					}
				}
			}
		}
		return false
	}
	helperOnly := map[*ssa.Function]bool{}
	for _, fn := range c.allFuncs(pkgRel) {
		if fn.Parent() != nil || fn.Object() == nil || fn.Object().Exported() {
			continue
		}
		node := c.callGraph().Nodes[fn]
		if node == nil || len(node.In) == 0 {
			continue
		}
		all := true
		for _, e := range node.In {
			call, ok := e.Site.(*ssa.Call)
			if !ok || call.Common().StaticCallee() != fn || e.Caller.Func.Pkg != fn.Pkg {
				all = false
			}
		}
		// only helpers that take a function value as a parameter need their callers' context
		takesFunc := false
		for _, p := range fn.Params {
			if _, ok := p.Type().Underlying().(*types.Signature); ok {
				takesFunc = true
			}
		}
		helperOnly[fn] = all && takesFunc
	}
	for _, fn := range c.allFuncs(pkgRel) {
		if helperOnly[fn] {
			continue
		}
		hasDyn := ownDyn(fn)
		for _, b := range fn.Blocks {
			for _, in := range b.Instrs {
				if call, ok := in.(*ssa.Call); ok {
					if sc := call.Common().StaticCallee(); sc != nil && helperOnly[sc] && ownDyn(sc) {
						hasDyn = true
					}
				}
			}
		}
		if !hasDyn {
			continue
		}
		an, fr := get(fn)
		for _, cr := range an.calls {
			inHelper := cr.frame != fr && cr.frame.within(fr) && helperOnly[cr.frame.fn]
			if (cr.frame != fr && !inHelper) || cr.callee != nil || cr.method != "" || cr.dyn == nil {
				continue
			}
			if _, isF := cr.dyn.(AFunc); isF {
				continue
			}
			id := fnID(fn)
			desc := describeAV(cr.dyn)
			ok := nonNilAt(fr, cr.state, cr.dyn, invariant)
			if !ok {
				// a callback copied into a local variable that this closure captures: the variable
				// holds a proven non-nil value when the closure is created and is not assigned again
				if ld, isLd := cr.instr.Common().Value.(*ssa.UnOp); isLd {
					if fv, isFV := ld.X.(*ssa.FreeVar); isFV && capturedNonNil(fv, get) {
						ok = true
					}
				}
			}
			if !ok {
				fired[fn.Name()] = true
			}
			if r == nil {
				continue
			}
			r.instance("R17.1", 1)
			r.funcs[id] = true
			if ok {
				r.ok("R17.1", id, "call through "+shortKey(desc)+" is reached only with that value proven non-nil", posOfCall(c, cr), true)
			} else {
				r.fail("R17.1", id, "call through "+shortKey(desc)+" can be reached while it is nil (its own field was not tested on this path)", posOfCall(c, cr),
					"state: "+truncate(cr.state.String(), 300), "nil-call:"+shortKey(desc))
			}
		}
	}
	return fired
}

func shortKey(s string) string {
	if i := strings.LastIndex(s, "."); i >= 0 {
		return strings.TrimRight(s[i+1:], ")")
	}
	return s
}

// c17Locks: R17.2.
func c17Locks(c *Ctx, r *Report) {
	li := analyseLocks(c, "server", "Server")
	lockLeakRule(c, r, li, "R17.9", "Server")
	r.floor("R17.9", 3)
	r.instance("R17.2", 1)
	shared := map[int]bool{}
	for i := 0; i < li.st.NumFields(); i++ {
		f := li.st.Field(i)
		if f.Exported() || i == li.mutex {
			continue
		}
		if n, ok := f.Type().(*types.Named); ok && n.Obj().Pkg() != nil && n.Obj().Pkg().Path() == "sync/atomic" {
			continue
		}
		shared[i] = true
	}
	n := 0
	for _, a := range li.accesses {
		if !shared[a.field] || a.fresh {
			continue
		}
		n++
		fname := li.st.Field(a.field).Name()
		r.funcs[fnID(a.fn)] = true
		if a.write {
			if a.lock == lkExcl {
				r.ok("R17.2", fnID(a.fn), "write of shared field "+fname+" holds Server.mu exclusively", a.pos, true)
			} else {
				r.fail("R17.2", fnID(a.fn), "write of shared field "+fname+" without holding Server.mu exclusively", a.pos, "lock state: "+a.lock.String(), "write-unlocked:"+fname)
			}
		} else {
			if a.lock >= lkShared {
				r.ok("R17.2", fnID(a.fn), "read of shared field "+fname+" holds Server.mu", a.pos, true)
			} else {
				r.fail("R17.2", fnID(a.fn), "read of shared field "+fname+" without holding Server.mu", a.pos, "lock state: "+a.lock.String(), "read-unlocked:"+fname)
			}
		}
	}
	r.instance("R17.2", n)
}

func isCallTo(in ssa.Instruction, name string) (*ssa.CallCommon, bool) {
	ci, ok := in.(ssa.CallInstruction)
	if !ok {
		return nil, false
	}
	callee := ci.Common().StaticCallee()
	if callee == nil || callee.Name() != name {
		return nil, false
	}
	return ci.Common(), true
}

func constBool(v ssa.Value) (bool, bool) {
	k, ok := v.(*ssa.Const)
	if !ok || k.Value == nil {
		return false, false
	}
	return k.Value.String() == "true", true
}

// c17Structure: R17.3–R17.6 on serve, its closures, Shutdown and handle.
func c17Structure(c *Ctx, r *Report) {
	serve := c.fnMust("server", "*Server.serve")
	id := fnID(serve)
	r.funcs[id] = true
	rep := func(rule string, ok bool, construct, what, detail, sig, pos string) {
		if ok {
			r.ok(rule, construct, what, pos, true)
		} else {
			r.fail(rule, construct, what, pos, detail, sig)
		}
	}
	// ---- R17.3 ----
	// the tracking call is recognised by its effect (it inserts into a map-typed field of Server,
	// itself or through in-package helpers, given the constant flags it is called with), not by name
	srvT := deref(serve.Signature.Recv().Type())
	var track ssa.Instruction
	var goI *ssa.Go
	for _, b := range serve.Blocks {
		for _, in := range b.Instrs {
			if add, rem := connSetEffect(in, srvT, 2); add && !rem {
				track = in
			}
			if g, ok := in.(*ssa.Go); ok {
				goI = g
			}
		}
	}
	r.instance("R17.3", 1)
	if track == nil || goI == nil {
		rep("R17.3", false, id, "serve does not register the accepted connection in the server's connection set before a go statement", "", "no-track-go", c.pos(serve.Pos()))
	} else {
		okPair := track.Block().Dominates(goI.Block()) && allPathsPass(track.Block(), goI.Block(), nil) || track.Block() == goI.Block()
		rep("R17.3", okPair, id, "every path from the registration of the connection reaches the go statement that owns the connection", "", "track-without-go", c.pos(track.Pos()))
		var gofn *ssa.Function
		if mc, ok := goI.Common().Value.(*ssa.MakeClosure); ok {
			gofn = mc.Fn.(*ssa.Function)
		} else if sc := goI.Common().StaticCallee(); sc != nil && sc.Blocks != nil {
			gofn = sc // `go s.serveConn(ctx, c)`: the goroutine body is a method
		}
		var dfn *ssa.Function
		if gofn != nil {
			for _, in := range gofn.Blocks[0].Instrs {
				if d, ok := in.(*ssa.Defer); ok && dfn == nil {
					if mc, ok := d.Common().Value.(*ssa.MakeClosure); ok {
						dfn = mc.Fn.(*ssa.Function)
					}
				}
			}
		}
		if dfn == nil {
			rep("R17.3", false, id, "the connection goroutine does not start by deferring a cleanup closure", "", "no-deferred-cleanup", c.pos(goI.Pos()))
		} else {
			did := fnID(dfn)
			r.funcs[did] = true
			r.instance("R17.3", 1)
			// recover first
			recFirst := false
			for _, in := range dfn.Blocks[0].Instrs {
				if call, ok := in.(*ssa.Call); ok {
					if b, ok := call.Common().Value.(*ssa.Builtin); ok && b.Name() == "recover" {
						recFirst = true
					}
					break
				}
			}
			rep("R17.3", recFirst, did, "the cleanup starts by recovering a panic of the handler", "", "no-recover", c.pos(dfn.Pos()))
			var untrack []ssa.Instruction
			var closeGuards []*ssa.BasicBlock
			var closeCalls int
			for _, b := range dfn.Blocks {
				for _, in := range b.Instrs {
					if add, rem := connSetEffect(in, srvT, 2); rem && !add {
						untrack = append(untrack, in)
					}
					if call, ok := in.(*ssa.Call); ok && call.Common().StaticCallee() == nil && !call.Common().IsInvoke() {
						if ld, ok := call.Common().Value.(*ssa.UnOp); ok {
							// the close callback: the func-typed field of Server called from the cleanup
							if fa, ok := ld.X.(*ssa.FieldAddr); ok && funcFieldOf(fa, srvT) != nil {
								closeCalls++
								if len(b.Preds) == 1 {
									closeGuards = append(closeGuards, b.Preds[0])
								}
							}
						}
					}
				}
			}
			entry := dfn.Blocks[0]
			okUn := len(untrack) == 1 && allPathsPass(entry, untrack[0].Block(), nil)
			rep("R17.3", okUn, did, "the connection is removed from the connection set exactly once on every path through the cleanup", fmt.Sprintf("%d call sites", len(untrack)), "untrack-not-unconditional", c.pos(dfn.Pos()))
			okClose := closeCalls == 1 && len(closeGuards) == 1 && allPathsPass(entry, closeGuards[0], nil)
			rep("R17.3", okClose, did, "the close callback's guard is evaluated exactly once on every path through the cleanup", fmt.Sprintf("%d call sites", closeCalls), "close-callback-not-unconditional", c.pos(dfn.Pos()))
		}
	}
	// rejected connection is closed before the loop continues
	r.instance("R17.3", 1)
	rejOK := false
	// the accept callback is consulted in serve itself or in a helper of the package it calls
	var rejFns []*ssa.Function
	rejFns = append(rejFns, serve)
	for _, b := range serve.Blocks {
		for _, in := range b.Instrs {
			if call, ok := in.(*ssa.Call); ok {
				if sc := call.Common().StaticCallee(); sc != nil && sc.Pkg == serve.Pkg && sc.Blocks != nil {
					rejFns = append(rejFns, sc)
				}
			}
		}
	}
	var rejBlocks []*ssa.BasicBlock
	for _, f := range rejFns {
		rejBlocks = append(rejBlocks, f.Blocks...)
	}
	for _, b := range rejBlocks {
		iff, ok := b.Instrs[len(b.Instrs)-1].(*ssa.If)
		if !ok {
			continue
		}
		cmp, ok := iff.Cond.(*ssa.BinOp)
		if !ok {
			continue
		}
		call, ok := cmp.X.(*ssa.Call)
		if !ok || call.Common().StaticCallee() != nil || call.Common().IsInvoke() {
			continue
		}
		ld, ok := call.Common().Value.(*ssa.UnOp)
		if !ok {
			continue
		}
		fa, ok := ld.X.(*ssa.FieldAddr)
		// the accept callback: the func-typed field of Server whose result is an error
		if !ok {
			continue
		}
		fv := funcFieldOf(fa, srvT)
		if fv == nil {
			continue
		}
		if res := fv.Type().Underlying().(*types.Signature).Results(); res.Len() != 1 || !isErrorType(res.At(0).Type()) {
			continue
		}
		// true successor must invoke Close on the accepted connection
		for _, in := range b.Succs[0].Instrs {
			if c2, ok := in.(*ssa.Call); ok && c2.Common().IsInvoke() && c2.Common().Method.Name() == "Close" {
				rejOK = true
			}
		}
	}
	rep("R17.3", rejOK, id, "a connection rejected by the accept callback is closed before the accept loop continues", "", "rejected-not-closed", c.pos(serve.Pos()))
	// ---- R17.4 ----
	r.instance("R17.4", 1)
	closer := false
	for _, b := range serve.Blocks {
		for _, in := range b.Instrs {
			var fnv ssa.Value
			if cm, ok := isCallTo(in, "AfterFunc"); ok && len(cm.Args) == 2 {
				fnv = cm.Args[1]
			}
			if g, ok := in.(*ssa.Go); ok {
				fnv = g.Common().Value
			}
			mc, ok := fnv.(*ssa.MakeClosure)
			if !ok {
				continue
			}
			cf := mc.Fn.(*ssa.Function)
			for _, cb := range cf.Blocks {
				for _, ci := range cb.Instrs {
					if call, ok := ci.(ssa.CallInstruction); ok {
						cm := call.Common()
						name := ""
						if cm.IsInvoke() {
							name = cm.Method.Name()
						} else if sc := cm.StaticCallee(); sc != nil {
							name = sc.Name()
						}
						if name == "Close" {
							// receiver must be (a wrapper of) the listener: a free variable of the closure
							for _, a := range append([]ssa.Value{cm.Value}, cm.Args...) {
								if fv, ok := a.(*ssa.FreeVar); ok && strings.Contains(fv.Type().String(), "istener") {
									closer = true
								}
								if u, ok := a.(*ssa.UnOp); ok {
									if fv, ok := u.X.(*ssa.FreeVar); ok && strings.Contains(fv.Type().String(), "istener") {
										closer = true
									}
								}
							}
						}
					}
				}
			}
		}
	}
	rep("R17.4", closer, id, "a function registered with context.AfterFunc (or started with go) closes the listener, so cancelling the context interrupts a blocked Accept", "", "no-listener-closer", c.pos(serve.Pos()))
	// accept error is mapped to ErrServerClosed under shutdown flag or cancelled context
	mapped := false
	for _, b := range serve.Blocks {
		for _, in := range b.Instrs {
			if u, ok := in.(*ssa.UnOp); ok {
				if g, ok := u.X.(*ssa.Global); ok && g.Name() == "ErrServerClosed" {
					// block reached from a test of isShutdown.Load()
					for _, p := range b.Preds {
						if iff, ok := p.Instrs[len(p.Instrs)-1].(*ssa.If); ok {
							if call, ok := iff.Cond.(*ssa.Call); ok && call.Common().StaticCallee() != nil && call.Common().StaticCallee().Name() == "Load" {
								mapped = true
							}
						}
					}
				}
			}
		}
	}
	r.instance("R17.5", 1)
	rep("R17.5", mapped, id, "an accept error is reported as ErrServerClosed when the shutdown flag is set", "", "accept-error-mapping", c.pos(serve.Pos()))
	// ---- R17.5 Shutdown ----
	sh := c.fnMust("server", "*Server.Shutdown")
	r.funcs[fnID(sh)] = true
	var storeTrue, closeL ssa.Instruction
	for _, b := range sh.Blocks {
		for _, in := range b.Instrs {
			if cm, ok := isCallTo(in, "Store"); ok && len(cm.Args) == 2 {
				if fa, ok := cm.Args[0].(*ssa.FieldAddr); ok && fieldVarOf(fa) != nil && isAtomicBool(fieldVarOf(fa).Type()) && fa.X == sh.Params[0] {
					if v, isC := constBool(cm.Args[1]); isC && v {
						storeTrue = in
					}
				}
			}
			if call, ok := in.(*ssa.Call); ok && call.Common().IsInvoke() && call.Common().Method.Name() == "Close" {
				if ld, ok := call.Common().Value.(*ssa.UnOp); ok {
					if fa, ok := ld.X.(*ssa.FieldAddr); ok && fieldVarOf(fa) != nil && hasMethods(fieldVarOf(fa).Type(), "Accept", "Close") {
						closeL = in
					}
				}
			}
		}
	}
	okOrder := storeTrue != nil && closeL != nil && (storeTrue.Block().Dominates(closeL.Block()) && storeTrue.Block() != closeL.Block() || before(storeTrue, closeL))
	rep("R17.5", okOrder, fnID(sh), "Shutdown sets the shutdown flag before it closes the listener", "", "flag-after-close", c.pos(sh.Pos()))
	r.instance("R17.8", 1)
	c17ShutdownScan(c, r, sh, false)
	// ---- R17.6 handle ----
	h := c.fnMust("server", "*connection.handle")
	r.funcs[fnID(h)] = true
	r.instance("R17.6", 1)
	var setT, setF, recvCall, writeCall ssa.Instruction
	for _, b := range h.Blocks {
		for _, in := range b.Instrs {
			if v, ok := flagStore(in, h.Params[0], 1); ok {
				if v {
					setT = in
				} else {
					setF = in
				}
			}
			if call, ok := in.(*ssa.Call); ok && call.Common().IsInvoke() {
				switch call.Common().Method.Name() {
				case "ReceiveRead":
					recvCall = in
				case "Write":
					writeCall = in
				}
			}
		}
	}
	if setT == nil || setF == nil || recvCall == nil || writeCall == nil {
		rep("R17.6", false, fnID(h), "connection loop lacks the in-flight flag / ReceiveRead / Write structure", "", "handle-shape", c.pos(h.Pos()))
	} else {
		okBefore := before(setT, recvCall) || (setT.Block().Dominates(recvCall.Block()) && setT.Block() != recvCall.Block())
		rep("R17.6", okBefore, fnID(h), "the in-flight flag is set before the assembler (and through it the handler) runs", "", "flag-set-late", c.pos(setT.Pos()))
		// the If deciding whether to write (toSend != nil) must strictly dominate the clearing store
		wb := writeCall.Block()
		var guard *ssa.BasicBlock
		if len(wb.Preds) == 1 {
			guard = wb.Preds[0]
		}
		okAfter := guard != nil && guard.Dominates(setF.Block()) && guard != setF.Block() && !wb.Dominates(setF.Block()) == true || (guard != nil && guard.Dominates(setF.Block()) && guard != setF.Block())
		// and clearing must not be reachable from ReceiveRead without passing the guard block's end
		if recvCall.Block() == setF.Block() {
			okAfter = false
		}
		rep("R17.6", okAfter, fnID(h), "the in-flight flag is cleared only after the reply (if any) has been written", "", "flag-cleared-before-write", c.pos(setF.Pos()))
		// the flag does not stay raised while the connection waits for more bytes: every path from
		// the raising store back to the transport Read passes the clearing store (a connection
		// that looks busy forever blocks Shutdown)
		var readCall ssa.Instruction
		for _, b := range h.Blocks {
			for _, in := range b.Instrs {
				if call, ok := in.(*ssa.Call); ok && call.Common().IsInvoke() && call.Common().Method.Name() == "Read" && len(call.Common().Args) == 1 {
					readCall = in
				}
			}
		}
		if readCall != nil {
			// search from the raising store's block without entering the clearing store's block
			leak := false
			if setT.Block() != setF.Block() {
				seen := map[*ssa.BasicBlock]bool{setT.Block(): true}
				work := []*ssa.BasicBlock{setT.Block()}
				for len(work) > 0 {
					b := work[len(work)-1]
					work = work[:len(work)-1]
					for _, sc := range b.Succs {
						if sc == setF.Block() || seen[sc] {
							continue
						}
						if sc == readCall.Block() {
							leak = true
						}
						seen[sc] = true
						work = append(work, sc)
					}
				}
			} else if !before(setT, setF) {
				leak = true
			}
			rep("R17.6", !leak, fnID(h), "every path from raising the in-flight flag back to the next Read clears it again (a connection waiting for more bytes does not look busy to Shutdown)", "", "flag-left-raised", c.pos(setT.Pos()))
		}
	}
}

// before: a and b are in the same block and a comes first.
func before(a, b ssa.Instruction) bool {
	if a.Block() != b.Block() {
		return false
	}
	for _, in := range a.Block().Instrs {
		if in == a {
			return true
		}
		if in == b {
			return false
		}
	}
	return false
}

// c17ShutdownScan: R17.8 — Shutdown reports "all idle" only if no connection of the scan was in
// flight, and never closes a connection it saw in flight: with B = the in-flight flag read for
// the connection of this iteration and P = the all-idle flag, on every back edge of the scan
// loop the new flag value N satisfies N => P (the flag is only lowered inside a scan) and
// N => !B; every Close of a connection inside the loop is reached only under !B.
func c17ShutdownScan(c *Ctx, r *Report, sh *ssa.Function, control bool) map[string]bool {
	fired := map[string]bool{}
	id := fnID(sh)
	rep := func(ok bool, what, detail, sig, pos string) {
		if !ok {
			fired[sig] = true
		}
		if control {
			return
		}
		if ok {
			r.ok("R17.8", id, what, pos, true)
		} else {
			r.fail("R17.8", id, what, pos, detail, sig)
		}
	}
	an := &Analysis{ctx: c, u: newUniverse(), top: sh, logCalls: true}
	fr := an.newFrame(sh, nil, nil)
	fr.run(dnfTrue())
	// B: result of the atomic load of a bool field of the ranged-over connection
	var busy *CallRec
	var busyAt ssa.Instruction
	for _, cr := range an.calls {
		if cr.callee == nil || cr.callee.Name() != "Load" || cr.callee.Signature.Recv() == nil || !isAtomicBool(deref(cr.callee.Signature.Recv().Type())) {
			continue
		}
		// the read itself, or the call of a small method of the package that performs it
		var at ssa.Instruction = cr.instr
		for fx := cr.frame; fx != fr && fx != nil; fx = fx.parent {
			ci := fx.callOf()
			if ci == nil || fx.depth > 2 {
				at = nil
				break
			}
			at = ci
		}
		if at == nil || at.Parent() != sh {
			continue
		}
		if b, ok := cr.callee.Signature.Results().At(0).Type().Underlying().(*types.Basic); ok && b.Kind() == types.Bool && inLoop(at.Block()) {
			busy, busyAt = cr, at
		}
	}
	if busy == nil {
		rep(false, "Shutdown does not read a per-connection in-flight flag inside a loop", "", "no-inflight-read", c.pos(sh.Pos()))
		return fired
	}
	bv, ok := busy.res.(ABool)
	if !ok {
		rep(false, "the in-flight flag read is not a boolean value", describeAV(busy.res), "inflight-not-bool", posOfCall(c, busy))
		return fired
	}
	B := bv.f
	// header phis of bool type in loops containing the read
	nphi := 0
	for _, b := range sh.Blocks {
		for _, in := range b.Instrs {
			ph, ok := in.(*ssa.Phi)
			if !ok {
				break
			}
			bt, isB := ph.Type().Underlying().(*types.Basic)
			if !isB || bt.Kind() != types.Bool {
				continue
			}
			pv, ok := fr.vals[ph].(ABool)
			if !ok {
				continue
			}
			hasBack := false
			for i, p := range b.Preds {
				if !isBackEdge(p, b) || !blockReaches(b, busyAt.Block()) {
					continue
				}
				// only edges of the loop that contains the read
				if !(b.Dominates(busyAt.Block())) {
					continue
				}
				hasBack = true
				var N *Form
				switch ev := fr.val(ph.Edges[i]).(type) {
				case ABool:
					N = ev.f
				}
				st := fr.edge[[2]int{p.Index, b.Index}]
				pos := c.pos(p.Instrs[len(p.Instrs)-1].Pos())
				if pos == "-" || pos == "" {
					pos = c.pos(ph.Pos())
				}
				if N == nil {
					rep(false, "all-idle flag: back-edge value is not a tracked boolean", "", "flag-untracked", pos)
					continue
				}
				if len(st) == 0 {
					continue
				}
				if os.Getenv("MBDBG") != "" {
					fmt.Fprintf(os.Stderr, "R17.8 edge %d->%d P=%s N=%s B=%s st=%s\n", p.Index, b.Index, pv.f.String(), N.String(), B.String(), st.String())
				}
				mono := true
				for _, cj := range dnfAnd(dnfAnd(st, N.dnf(false)), pv.f.dnf(true)) {
					if !infeasible(cj) {
						mono = false
					}
				}
				notBusy := true
				for _, cj := range dnfAnd(dnfAnd(st, N.dnf(false)), B.dnf(false)) {
					if !infeasible(cj) {
						notBusy = false
					}
				}
				rep(mono, "inside a scan the all-idle flag is only ever lowered (new => old on this back edge)", truncate(st.String(), 200), "flag-raised-in-scan", pos)
				rep(notBusy, "the all-idle flag stays up only if this iteration's connection was not in flight (new => !inflight)", truncate(st.String(), 200), "flag-up-while-busy", pos)
			}
			if hasBack {
				nphi++
			}
		}
	}
	if nphi == 0 {
		rep(false, "no boolean loop-carried flag summarises the scan of the connections", "", "no-idle-flag", c.pos(sh.Pos()))
	}
	// in-flight connections are not closed
	ncl := 0
	for _, cr := range an.calls {
		if cr.frame != fr || cr.method != "Close" || !inLoop(cr.instr.Block()) || !busyAt.Block().Dominates(cr.instr.Block()) {
			continue
		}
		ncl++
		rep(cr.state.entailsForm(formNot(B)), "a connection is closed by Shutdown only when its in-flight flag was read as false", truncate(cr.state.String(), 200), "closes-inflight", posOfCall(c, cr))
	}
	if ncl == 0 {
		rep(false, "Shutdown closes no idle connection", "", "no-idle-close", c.pos(sh.Pos()))
	}
	return fired
}

func inLoop(b *ssa.BasicBlock) bool { return blockReaches(b, b) }

func isAtomicBool(t types.Type) bool {
	n, ok := t.(*types.Named)
	return ok && n.Obj().Pkg() != nil && n.Obj().Pkg().Path() == "sync/atomic" && n.Obj().Name() == "Bool"
}

func init() {
	lockCtl := func(c *Ctx, r *Report, prop string) {
		li := analyseLocks(c, "cserver", "Srv")
		tmp := newReport(prop, "quick")
		lockLeakRule(c, tmp, li, "ctl", "Srv")
		leaky, tidyBad := false, false
		for _, it := range tmp.items {
			if !it.OK && strings.Contains(it.Construct, "LeakyClose") {
				leaky = true
			}
			if !it.OK && !strings.Contains(it.Construct, "LeakyClose") {
				tidyBad = true
			}
		}
		r.controls[prop+"/lock-leak-fires"] = leaky
		r.controls[prop+"/lock-leak-negative-control-silent"] = !tidyBad
	}
	for _, p := range []string{"C08", "C14", "C17"} {
		prop := p
		prev := controls[prop]
		controls[prop] = func(c *Ctx, r *Report) {
			if prev != nil {
				prev(c, r)
			}
			lockCtl(c, r, prop)
			if prop == "C17" {
				good := c17ShutdownScan(c, nil, c.fnMust("cserver", "*Srv.GoodShutdown"), true)
				r.controls["C17/R17.8-negative-control-silent"] = len(good) == 0
				r.controls["C17/R17.8-flag-raised-in-scan"] = c17ShutdownScan(c, nil, c.fnMust("cserver", "*Srv.BadShutdownFlag"), true)["flag-raised-in-scan"]
				r.controls["C17/R17.8-closes-inflight"] = c17ShutdownScan(c, nil, c.fnMust("cserver", "*Srv.BadShutdownCloses"), true)["closes-inflight"]
			}
		}
	}
}

// funcFieldOf returns the field selected by fa when it is a func-typed field of struct type t.
func funcFieldOf(fa *ssa.FieldAddr, t types.Type) *types.Var {
	if !types.Identical(deref(fa.X.Type()), t) {
		return nil
	}
	fv := fieldVarOf(fa)
	if fv == nil {
		return nil
	}
	if _, ok := fv.Type().Underlying().(*types.Signature); !ok {
		return nil
	}
	return fv
}

// mapFieldOf: v is a load of a map-typed field of struct type t.
func mapFieldOf(v ssa.Value, t types.Type) bool {
	ld, ok := v.(*ssa.UnOp)
	if !ok {
		return false
	}
	fa, ok := ld.X.(*ssa.FieldAddr)
	if !ok || !types.Identical(deref(fa.X.Type()), t) {
		return false
	}
	_, isMap := ld.Type().Underlying().(*types.Map)
	return isMap
}

// connSetEffect reports whether executing instruction `in` can insert into (add) or delete from
// (rem) a map-typed field of struct type t: directly, or through a static call of a function of
// the same package (to the given depth), where code the callee runs only for the other value of a
// boolean parameter that the call passes as a constant is left out.
func connSetEffect(in ssa.Instruction, t types.Type, depth int) (add, rem bool) {
	switch x := in.(type) {
	case *ssa.MapUpdate:
		if mapFieldOf(x.Map, t) {
			return true, false
		}
	case ssa.CallInstruction:
		cm := x.Common()
		if b, ok := cm.Value.(*ssa.Builtin); ok && b.Name() == "delete" && len(cm.Args) == 2 && mapFieldOf(cm.Args[0], t) {
			return false, true
		}
		if _, isGo := in.(*ssa.Go); isGo {
			return false, false
		}
		callee := cm.StaticCallee()
		if callee == nil || callee.Blocks == nil || depth == 0 || in.Parent() == nil || callee.Pkg != in.Parent().Pkg && (in.Parent().Parent() == nil || callee.Pkg != in.Parent().Parent().Pkg) {
			return false, false
		}
		// blocks the constant flags rule out
		dead := map[*ssa.BasicBlock]bool{}
		for i, p := range callee.Params {
			if i >= len(cm.Args) {
				break
			}
			v, isC := constBool(cm.Args[i])
			if !isC || !types.Identical(p.Type().Underlying(), types.Typ[types.Bool]) {
				continue
			}
			for _, b := range callee.Blocks {
				iff, ok := b.Instrs[len(b.Instrs)-1].(*ssa.If)
				if !ok {
					continue
				}
				// the condition is the parameter itself, its negation, or a comparison of it with a constant
				pol, isP := paramPolarity(iff.Cond, p)
				if !isP {
					continue
				}
				taken := v == pol // does the true successor run for the value passed?
				skip := b.Succs[0]
				if taken {
					skip = b.Succs[1]
				}
				if len(skip.Preds) != 1 {
					continue
				}
				for _, d := range callee.Blocks {
					if d == skip || skip.Dominates(d) {
						dead[d] = true
					}
				}
			}
		}
		for _, b := range callee.Blocks {
			if dead[b] {
				continue
			}
			for _, in2 := range b.Instrs {
				if _, isDefer := in2.(*ssa.Defer); isDefer {
					continue
				}
				a2, r2 := connSetEffect(in2, t, depth-1)
				add, rem = add || a2, rem || r2
			}
		}
	}
	return add, rem
}

// c17ListenerRegistered: R17.13 — Shutdown can only stop the accept loop by closing the listener
// recorded in the Server; so on every way into the accept loop (every exported method of Server
// from which an Accept is reached) the very listener that is accepted on has been stored into the
// Server's listener field before the first Accept. Decided on the abstract interpretation of each
// such method: the store record's value is the receiver of the Accept call, and the store is
// executed before it (structural executed-before relation through the inlined frames).
func c17ListenerRegistered(c *Ctx, r *Report) {
	sp := c.pkg("server")
	tn := sp.Type("Server").Type().(*types.Named)
	st := tn.Underlying().(*types.Struct)
	lfield := -1
	for i := 0; i < st.NumFields(); i++ {
		if it, ok := st.Field(i).Type().Underlying().(*types.Interface); ok {
			hasAccept, hasClose := false, false
			for j := 0; j < it.NumMethods(); j++ {
				switch it.Method(j).Name() {
				case "Accept":
					hasAccept = true
				case "Close":
					hasClose = true
				}
			}
			if hasAccept && hasClose {
				lfield = i
			}
		}
	}
	if lfield < 0 {
		r.undecided("R17.13", "server.Server", "Server has no field holding a listener (an interface with Accept and Close)", "-")
		return
	}
	for _, m := range methodsOf(c, "server", "Server") {
		if m.Object() == nil || !m.Object().Exported() {
			continue
		}
		if _, isPtr := m.Signature.Recv().Type().(*types.Pointer); !isPtr {
			continue
		}
		an := &Analysis{ctx: c, u: newUniverse(), top: m, logCalls: true}
		fr := an.newFrame(m, nil, nil)
		fr.run(dnfTrue())
		sv, ok := fr.vals[m.Params[0]].(APtr)
		if !ok || sv.obj == nil {
			continue
		}
		path := pathStr(sv.path, lfield)
		for _, cr := range an.calls {
			if cr.method != "Accept" || cr.recv == nil || cr.instr == nil {
				continue
			}
			id := fnID(m)
			r.funcs[id] = true
			r.instance("R17.13", 1)
			want := describeAV(cr.recv)
			okReg := false
			for _, rc := range sv.obj.stores[path] {
				if describeAV(rc.val) == want && cr.frame.executedBefore(sv.obj, rc, cr.instr) {
					okReg = true
				}
			}
			if okReg {
				r.ok("R17.13", id, "the listener accepted on has been stored in Server."+st.Field(lfield).Name()+" (the one Shutdown closes) before Accept is called", posOfCall(c, cr), true)
			} else {
				r.fail("R17.13", id, "Accept is reached through this method without the accepted-on listener having been stored in Server."+st.Field(lfield).Name()+": Shutdown cannot close it, serve never returns and the port keeps accepting", posOfCall(c, cr),
					fmt.Sprintf("%d store(s) to the field on this path; accepted on %s", len(sv.obj.stores[path]), want), "listener-not-registered")
			}
		}
	}
}

// paramPolarity: cond is true exactly when boolean parameter p equals the returned polarity
// (p, !p, p == true, p != false, p == false, p != true).
func paramPolarity(cond ssa.Value, p *ssa.Parameter) (bool, bool) {
	if cond == ssa.Value(p) {
		return true, true
	}
	switch x := cond.(type) {
	case *ssa.UnOp:
		if x.Op == token.NOT {
			if pol, ok := paramPolarity(x.X, p); ok {
				return !pol, true
			}
		}
	case *ssa.BinOp:
		if x.Op != token.EQL && x.Op != token.NEQ {
			return false, false
		}
		for _, pair := range [][2]ssa.Value{{x.X, x.Y}, {x.Y, x.X}} {
			if k, isC := constBool(pair[1]); isC {
				if pol, ok := paramPolarity(pair[0], p); ok {
					if (x.Op == token.EQL) == k {
						return pol, true
					}
					return !pol, true
				}
			}
		}
	}
	return false, false
}

// capturedNonNil: free variable fv of a closure is bound, at the single place the closure is
// created, to a local cell of the enclosing function whose value there is proven non-nil (abstract
// interpretation of the enclosing function), that no closure capturing the cell ever stores to,
// and that the enclosing function does not assign again once the closure exists.
func capturedNonNil(fv *ssa.FreeVar, get func(*ssa.Function) (*Analysis, *Frame)) bool {
	cl := fv.Parent()
	parent := cl.Parent()
	if parent == nil {
		return false
	}
	idx := -1
	for i, v := range cl.FreeVars {
		if v == fv {
			idx = i
		}
	}
	var mk *ssa.MakeClosure
	n := 0
	for _, b := range parent.Blocks {
		for _, in := range b.Instrs {
			if m, ok := in.(*ssa.MakeClosure); ok && m.Fn == ssa.Value(cl) {
				mk = m
				n++
			}
		}
	}
	if idx < 0 || n != 1 || idx >= len(mk.Bindings) {
		return false
	}
	if outer, isFV := mk.Bindings[idx].(*ssa.FreeVar); isFV {
		// captured through an enclosing closure that itself only reads it
		return freeVarReadOnly(outer, 0) && capturedNonNil(outer, get)
	}
	cell, ok := mk.Bindings[idx].(*ssa.Alloc)
	if !ok || cell.Referrers() == nil {
		return false
	}
	var readOnly func(v ssa.Value, depth int) bool
	readOnly = func(v ssa.Value, depth int) bool {
		refs := v.Referrers()
		if refs == nil {
			return true
		}
		if depth > 4 {
			return false
		}
		for _, r := range *refs {
			switch x := r.(type) {
			case *ssa.UnOp, *ssa.DebugRef:
			case *ssa.MakeClosure:
				f2, ok := x.Fn.(*ssa.Function)
				if !ok {
					return false
				}
				for i, bv := range x.Bindings {
					if bv == v && (i >= len(f2.FreeVars) || !readOnly(f2.FreeVars[i], depth+1)) {
						return false
					}
				}
			default:
				return false
			}
		}
		return true
	}
	for _, r := range *cell.Referrers() {
		switch x := r.(type) {
		case *ssa.Store:
			if x.Addr != ssa.Value(cell) {
				return false
			}
			// no assignment once the closure exists
			if x.Block() == mk.Block() && instrBefore(mk, x) || x.Block() != mk.Block() && blockReaches(mk.Block(), x.Block()) {
				return false
			}
		case *ssa.UnOp, *ssa.DebugRef:
		case *ssa.MakeClosure:
			f2, ok := x.Fn.(*ssa.Function)
			if !ok {
				return false
			}
			for i, bv := range x.Bindings {
				if bv == ssa.Value(cell) && (i >= len(f2.FreeVars) || !readOnly(f2.FreeVars[i], 0)) {
					return false
				}
			}
		default:
			return false
		}
	}
	_, pfr := get(parent)
	st := pfr.stateAt[mk]
	p, ok := pfr.vals[cell].(APtr)
	if !ok || p.obj == nil {
		return false
	}
	if st == nil {
		st = pfr.blockIn[mk.Block().Index]
	}
	return pfr.forEachPathValue(p.obj, "", mk, st, func(cj Conj, v AV) bool {
		return nonNilAt(pfr, DNF{cj}, v, nil)
	})
}

// flagStore: instruction `in` stores the constant v into an atomic.Bool field of *recv: the atomic
// Store itself, or a call of a method of recv's type whose only atomic store is such a one.
func flagStore(in ssa.Instruction, recv ssa.Value, depth int) (bool, bool) {
	ci, ok := in.(ssa.CallInstruction)
	if !ok {
		return false, false
	}
	cm := ci.Common()
	// the Store bound as a method value of the flag (set := c.flag.Store; set(true))
	if mc, ok := cm.Value.(*ssa.MakeClosure); ok && len(mc.Bindings) == 1 && len(cm.Args) == 1 {
		if wf, ok := mc.Fn.(*ssa.Function); ok && strings.HasPrefix(wf.Synthetic, "bound method wrapper") {
			if inner := soleCall(wf); inner != nil && inner.Common().StaticCallee() != nil && inner.Common().StaticCallee().Name() == "Store" {
				if fa, ok := mc.Bindings[0].(*ssa.FieldAddr); ok && fieldVarOf(fa) != nil && isAtomicBool(fieldVarOf(fa).Type()) && fa.X == recv {
					return constBool(cm.Args[0])
				}
			}
		}
	}
	sc := cm.StaticCallee()
	if sc == nil || len(cm.Args) == 0 {
		return false, false
	}
	if sc.Name() == "Store" && len(cm.Args) == 2 {
		if fa, ok := cm.Args[0].(*ssa.FieldAddr); ok && fieldVarOf(fa) != nil && isAtomicBool(fieldVarOf(fa).Type()) && fa.X == recv {
			return constBool(cm.Args[1])
		}
		return false, false
	}
	if depth == 0 || cm.Args[0] != recv || sc.Blocks == nil || sc.Signature.Recv() == nil || len(sc.Params) == 0 {
		return false, false
	}
	n, val := 0, false
	for _, b := range sc.Blocks {
		for _, in2 := range b.Instrs {
			if v, ok := flagStore(in2, sc.Params[0], depth-1); ok {
				n++
				val = v
			}
		}
	}
	return val, n == 1
}
