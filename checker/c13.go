package main

// C13 — reading values out of a response never changes it (DESIGN §3 C13).

import (
	"fmt"
	"go/token"
	"go/types"
	"sort"
	"strings"

	"golang.org/x/tools/go/ssa"
)

func init() {
	register("C13", checkC13, "Write-effect freedom by a derived-pointer (taint) analysis over SSA. Sources: every load of a []byte / [N]byte field of a response struct or of Registers (the payload). Roots: all value-receiver methods of Registers, Field.ExtractFrom, BuilderRequest.ExtractFields/AsRegisters/extract*Fields, the responses' AsRegisters/IsCoilSet/IsInputSet and isBitSet. In every module function reachable from a root (VTA call graph), with taint propagated through slicing, phis, conversions, struct/tuple flow and module-local calls (parameters and results): R13.1 no store through a payload-derived pointer, no copy/append with a payload-derived destination, no hand-over of a payload-derived slice to code outside a frozen read-only allow-list; R13.2 no store to a package-level variable and no store through a pointer parameter or receiver (no hidden decoder state). Together every accessor is a pure function of (payload bytes, configuration), which gives repeatability and order independence for all call sequences. R13.2 additionally runs the shared-state scan over the same roots: any use of a package-level variable that is not constant after initialisation (a shared decode buffer, a pool whose objects leave the call, a cache). R13.3 = C05 R5.4: every reported FieldValue is built afresh from (this field, the value and error just obtained). R13.4 every method declared on a reply type or on Registers (not only the named accessors) is free of payload writes and receiver stores. R13.5 nothing reachable from the extraction methods of BuilderRequest writes memory of the request's own field list. The analysis follows slice-to-array-pointer conversions.")
}

type taintCtx struct {
	c        *Ctx
	sources  map[*types.Var]bool
	seen     map[string]bool
	findings []taintFinding
	funcs    map[*ssa.Function]bool
	work     []taintJob
	// retTaint: function returns a payload-derived slice (for some tainted-parameter set)
	retTaint map[string]bool
	allow    map[string]bool
	nsites   int
	// seq: which types count as the tracked memory (default: byte sequences, the payload)
	seq func(types.Type) bool
	// what: how the tracked memory is called in reports
	what string
}

func (t *taintCtx) isSeq(ty types.Type) bool {
	if t.seq != nil {
		return t.seq(ty)
	}
	return isByteSeq(ty)
}

func (t *taintCtx) name() string {
	if t.what != "" {
		return t.what
	}
	return "the response payload"
}

func (t *taintCtx) structWithSeq(ty types.Type) bool {
	if t.seq == nil {
		return isStructWithBytes(ty)
	}
	st, ok := ty.Underlying().(*types.Struct)
	if !ok {
		return false
	}
	for i := 0; i < st.NumFields(); i++ {
		if t.seq(st.Field(i).Type()) {
			return true
		}
	}
	return false
}

type taintJob struct {
	fn     *ssa.Function
	params string // bitmask of tainted params as string
}

type taintFinding struct {
	rule, what, sig string
	pos             token.Pos
	fn              *ssa.Function
}

func posOfFinding(f taintFinding) token.Pos { return f.pos }

func isByteSeq(t types.Type) bool {
	switch u := t.Underlying().(type) {
	case *types.Slice:
		b, ok := u.Elem().Underlying().(*types.Basic)
		return ok && b.Kind() == types.Uint8
	case *types.Array:
		b, ok := u.Elem().Underlying().(*types.Basic)
		return ok && b.Kind() == types.Uint8
	}
	return false
}

// payloadFields: byte-sequence fields of Registers and of the response struct types.
func payloadFields(c *Ctx, pkgRel string) map[*types.Var]bool {
	out := map[*types.Var]bool{}
	reqs := requestTypes(c, pkgRel)
	sp := c.pkg(pkgRel)
	for _, m := range sp.Members {
		t, ok := m.(*ssa.Type)
		if !ok {
			continue
		}
		tn, ok := t.Type().(*types.Named)
		if !ok || reqs[tn] {
			continue
		}
		st, ok := tn.Underlying().(*types.Struct)
		if !ok {
			continue
		}
		name := tn.Obj().Name()
		if !(strings.HasSuffix(name, "Response") || name == "Registers") {
			continue
		}
		for i := 0; i < st.NumFields(); i++ {
			if isByteSeq(st.Field(i).Type()) {
				out[st.Field(i)] = true
			}
		}
	}
	return out
}

var readOnlyCallees = map[string]bool{
	"(encoding/binary.bigEndian).Uint16": true, "(encoding/binary.bigEndian).Uint32": true, "(encoding/binary.bigEndian).Uint64": true,
	"(encoding/binary.littleEndian).Uint16": true, "(encoding/binary.littleEndian).Uint32": true, "(encoding/binary.littleEndian).Uint64": true,
	"bytes.Equal": true, "bytes.IndexByte": true, "string": true,
}

func fieldVarOf(fa *ssa.FieldAddr) *types.Var {
	st, ok := deref(fa.X.Type()).Underlying().(*types.Struct)
	if !ok {
		return nil
	}
	return st.Field(fa.Field)
}

// analyse one function with the given tainted parameters; returns whether it returns a tainted value.
func (t *taintCtx) run(fn *ssa.Function, tparams map[int]bool) bool {
	key := fn.String() + "|" + maskString(tparams)
	if t.seen[key] {
		return t.retTaint[key]
	}
	t.seen[key] = true
	t.funcs[fn] = true
	if fn.Blocks == nil {
		return false
	}
	tainted := map[ssa.Value]bool{}
	for i, p := range fn.Params {
		if tparams[i] {
			tainted[p] = true
		}
	}
	isT := func(v ssa.Value) bool { return tainted[v] }
	ret := false
	for changed, iter := true, 0; changed && iter < 10; iter++ {
		changed = false
		mark := func(v ssa.Value) {
			if !tainted[v] {
				tainted[v] = true
				changed = true
			}
		}
		for _, b := range fn.Blocks {
			for _, in := range b.Instrs {
				switch x := in.(type) {
				case *ssa.UnOp:
					// load of a payload field
					if fa, ok := x.X.(*ssa.FieldAddr); ok {
						if fv := fieldVarOf(fa); fv != nil && t.sources[fv] {
							mark(x)
						}
					}
					if isT(x.X) && (t.isSeq(x.Type()) || t.structWithSeq(x.Type())) {
						mark(x)
					}
				case *ssa.Field:
					if st, ok := x.X.Type().Underlying().(*types.Struct); ok && t.sources[st.Field(x.Field)] {
						mark(x)
					}
					if isT(x.X) && t.isSeq(x.Type()) {
						mark(x)
					}
				case *ssa.FieldAddr:
					if fv := fieldVarOf(x); fv != nil && t.sources[fv] {
						if _, isArr := fv.Type().Underlying().(*types.Array); isArr {
							mark(x) // address of an array payload: derived pointer
						}
					}
				case *ssa.Slice:
					if isT(x.X) {
						mark(x)
					}
				case *ssa.IndexAddr:
					if isT(x.X) {
						mark(x)
					}
				case *ssa.Phi:
					for _, e := range x.Edges {
						if isT(e) {
							mark(x)
						}
					}
				case *ssa.ChangeType:
					if isT(x.X) {
						mark(x)
					}
				case *ssa.SliceToArrayPointer:
					// (*[N]byte)(s) points into the slice's own memory
					if isT(x.X) {
						mark(x)
					}
				case *ssa.Convert:
					if isT(x.X) && t.isSeq(x.Type()) {
						mark(x)
					}
				case *ssa.MakeInterface:
					if isT(x.X) {
						mark(x)
					}
				case *ssa.Extract:
					if isT(x.Tuple) && t.isSeq(x.Type()) {
						mark(x)
					}
				case *ssa.Call:
					if t.callTaint(fn, x, isT) {
						mark(x)
					}
				}
			}
		}
	}
	// sinks
	for _, b := range fn.Blocks {
		for _, in := range b.Instrs {
			switch x := in.(type) {
			case *ssa.Store:
				t.nsites++
				if isT(x.Addr) {
					t.add(fn, "R13.1", "store through a pointer derived from "+t.name(), x.Pos(), "store-through-payload")
				}
				t.checkHiddenState(fn, x)
			case *ssa.Call:
				t.sinkCall(fn, x, isT)
			case *ssa.Return:
				for _, r := range x.Results {
					if isT(r) {
						ret = true
					}
				}
			case *ssa.MapUpdate:
				t.nsites++
			}
		}
	}
	t.retTaint[key] = ret
	return ret
}

func isStructWithBytes(t types.Type) bool {
	st, ok := t.Underlying().(*types.Struct)
	if !ok {
		return false
	}
	for i := 0; i < st.NumFields(); i++ {
		if isByteSeq(st.Field(i).Type()) {
			return true
		}
	}
	return false
}

func maskString(m map[int]bool) string {
	var ks []int
	for k := range m {
		ks = append(ks, k)
	}
	sort.Ints(ks)
	return fmt.Sprint(ks)
}

// callTaint: does the call's result carry payload-derived memory?
func (t *taintCtx) callTaint(fn *ssa.Function, x *ssa.Call, isT func(ssa.Value) bool) bool {
	cm := x.Common()
	if b, ok := cm.Value.(*ssa.Builtin); ok {
		if b.Name() == "append" && len(cm.Args) > 0 && isT(cm.Args[0]) {
			return true
		}
		return false
	}
	callees := t.callees(fn, x)
	res := false
	for _, callee := range callees {
		if !t.c.inModule(callee) || callee.Blocks == nil {
			continue
		}
		tp := map[int]bool{}
		for i, a := range cm.Args {
			idx := i
			if cm.IsInvoke() {
				idx = i + 1 // receiver is params[0] of the concrete method
			}
			if isT(a) {
				tp[idx] = true
			}
		}
		if cm.IsInvoke() && isT(cm.Value) {
			tp[0] = true
		}
		if t.run(callee, tp) {
			res = true
		}
	}
	return res
}

func (t *taintCtx) callees(fn *ssa.Function, x ssa.CallInstruction) []*ssa.Function {
	if c := x.Common().StaticCallee(); c != nil {
		return []*ssa.Function{c}
	}
	var out []*ssa.Function
	if node := t.c.callGraph().Nodes[fn]; node != nil {
		for _, e := range node.Out {
			if e.Site == x {
				out = append(out, e.Callee.Func)
			}
		}
	}
	return out
}

func (t *taintCtx) sinkCall(fn *ssa.Function, x *ssa.Call, isT func(ssa.Value) bool) {
	cm := x.Common()
	t.nsites++
	if b, ok := cm.Value.(*ssa.Builtin); ok {
		switch b.Name() {
		case "copy":
			if isT(cm.Args[0]) {
				t.add(fn, "R13.1", "copy into a slice derived from "+t.name(), x.Pos(), "copy-into-payload")
			}
		case "append":
			if isT(cm.Args[0]) {
				t.add(fn, "R13.1", "append to a slice derived from "+t.name()+" (may write into its spare capacity)", x.Pos(), "append-to-payload")
			}
		case "clear":
			if isT(cm.Args[0]) {
				t.add(fn, "R13.1", "clear of a slice derived from "+t.name(), x.Pos(), "clear-payload")
			}
		}
		return
	}
	anyT := false
	for _, a := range cm.Args {
		if isT(a) && (t.isSeq(a.Type()) || isPtrToByte(a.Type())) {
			anyT = true
		}
	}
	if !anyT {
		return
	}
	for _, callee := range t.callees(fn, x) {
		if t.c.inModule(callee) && callee.Blocks != nil {
			continue // analysed with tainted parameters
		}
		// a method value (x.M) calls M through a synthetic bound wrapper
		if !readOnlyCallees[strings.TrimSuffix(callee.String(), "$bound")] {
			t.add(fn, "R13.1", "payload-derived slice handed to "+callee.String()+", which is not on the read-only allow-list", x.Pos(), "escape:"+callee.String())
		}
	}
	if len(t.callees(fn, x)) == 0 {
		t.add(fn, "R13.1", "payload-derived slice handed to an unresolved callee", x.Pos(), "escape:unresolved")
	}
}

func isPtrToByte(t types.Type) bool {
	p, ok := t.Underlying().(*types.Pointer)
	if !ok {
		return false
	}
	b, ok := p.Elem().Underlying().(*types.Basic)
	return ok && b.Kind() == types.Uint8
}

// checkHiddenState: R13.2 — stores to globals or through pointer parameters/receivers.
func (t *taintCtx) checkHiddenState(fn *ssa.Function, st *ssa.Store) {
	root := st.Addr
	for {
		switch x := root.(type) {
		case *ssa.FieldAddr:
			root = x.X
			continue
		case *ssa.IndexAddr:
			root = x.X
			continue
		}
		break
	}
	switch x := root.(type) {
	case *ssa.Global:
		t.add(fn, "R13.2", "store to package-level variable "+x.Name(), st.Pos(), "global-store:"+x.Name())
	case *ssa.Parameter:
		if _, isPtr := x.Type().Underlying().(*types.Pointer); isPtr {
			t.add(fn, "R13.2", "store through pointer parameter/receiver "+x.Name()+" (hidden decoder state)", st.Pos(), "param-store:"+fn.Name()+"."+x.Name())
		}
	case *ssa.FreeVar:
		// a closure assigning a local variable of the function that created it keeps no state
		// beyond that function's activation
		if par := fn.Parent(); par != nil {
			local := false
			for _, b := range par.Blocks {
				for _, in := range b.Instrs {
					mc, ok := in.(*ssa.MakeClosure)
					if !ok || mc.Fn != ssa.Value(fn) {
						continue
					}
					for i, fv := range fn.FreeVars {
						if fv == x && i < len(mc.Bindings) {
							if _, isAlloc := mc.Bindings[i].(*ssa.Alloc); isAlloc {
								// ... provided the closure itself does not outlive it: it is only called
								// or handed to a call
								local = true
								if refs := mc.Referrers(); refs != nil {
									for _, r := range *refs {
										switch r.(type) {
										case *ssa.Call, *ssa.DebugRef:
										default:
											local = false
										}
									}
								}
							}
						}
					}
				}
			}
			if local {
				return
			}
		}
		t.add(fn, "R13.2", "store through captured variable "+x.Name(), st.Pos(), "freevar-store")
	}
}

func (t *taintCtx) add(fn *ssa.Function, rule, what string, pos token.Pos, sig string) {
	t.findings = append(t.findings, taintFinding{rule: rule, what: what, pos: pos, sig: sig, fn: fn})
}

func c13Roots(c *Ctx) []*ssa.Function {
	var roots []*ssa.Function
	for _, m := range methodsOf(c, "packet", "Registers") {
		if _, isPtr := m.Signature.Recv().Type().Underlying().(*types.Pointer); isPtr && storesThroughParam(m, 0) {
			continue // the declared configuration setters
		}
		roots = append(roots, m)
	}
	roots = append(roots, c.fnMust("", "*Field.ExtractFrom"))
	for _, n := range []string{"ExtractFields", "AsRegisters", "extractRegisterFields", "extractCoilFields"} {
		roots = append(roots, c.fnMust("", "BuilderRequest."+n))
	}
	for _, fn := range c.allFuncs("packet") {
		switch fn.Name() {
		case "AsRegisters", "IsCoilSet", "IsInputSet", "isBitSet":
			if fn.Synthetic == "" {
				roots = append(roots, fn)
			}
		}
	}
	return roots
}

func runC13(c *Ctx, roots []*ssa.Function, sources map[*types.Var]bool) *taintCtx {
	return runTaint(c, roots, sources, nil, "")
}

// runTaint: the derived-pointer analysis for another kind of tracked memory (seq decides which
// types carry it; what names it in reports).
func runTaint(c *Ctx, roots []*ssa.Function, sources map[*types.Var]bool, seq func(types.Type) bool, what string) *taintCtx {
	t := &taintCtx{c: c, sources: sources, seen: map[string]bool{}, funcs: map[*ssa.Function]bool{}, retTaint: map[string]bool{}, seq: seq, what: what}
	for _, root := range roots {
		t.run(root, map[int]bool{})
		// all module functions reachable from the root are also analysed without tainted params
		// (their own loads of payload fields are sources)
		seen := map[*ssa.Function]bool{}
		var walk func(fn *ssa.Function)
		walk = func(fn *ssa.Function) {
			if seen[fn] || fn == nil || !c.inModule(fn) || fn.Blocks == nil {
				return
			}
			seen[fn] = true
			t.run(fn, map[int]bool{})
			if node := c.callGraph().Nodes[fn]; node != nil {
				for _, e := range node.Out {
					walk(e.Callee.Func)
				}
			}
		}
		walk(root)
	}
	// package-level state reached in any other way (copy/append into a package-level buffer, a
	// package-level sync.Pool or cache handed to library code, memory reached through a slice
	// of a package-level array): the shared-state scan of shared.go over the same roots
	_, n, fs := sharedStateScan(c, roots)
	t.nsites += n
	for _, f := range fs {
		dup := false
		for _, old := range t.findings {
			if old.fn == f.fn && old.pos == f.pos {
				dup = true
			}
		}
		if !dup {
			t.add(f.fn, "R13.2", f.what+" (state shared between decodes)", f.pos, f.sig)
			t.funcs[f.fn] = true
		}
	}
	return t
}

func checkC13(c *Ctx, r *Report) {
	r.floor("R13.1", 35)
	sources := payloadFields(c, "packet")
	roots := c13Roots(c)
	r.instance("R13.1", len(roots))
	r.instance("R13.2", len(roots))
	t := runC13(c, roots, sources)
	for fn := range t.funcs {
		r.funcs[fnID(fn)] = true
	}
	seen := map[string]bool{}
	bad := map[string]int{}
	for _, f := range t.findings {
		k := f.rule + f.sig + fnID(f.fn)
		if seen[k] {
			continue
		}
		seen[k] = true
		bad[f.rule]++
		r.fail(f.rule, fnID(f.fn), f.what, c.pos(posOfFinding(f)), "", f.sig)
	}
	var names []string
	for fn := range t.funcs {
		names = append(names, fnID(fn))
	}
	sort.Strings(names)
	for _, rule := range []string{"R13.1", "R13.2"} {
		for _, n := range names {
			flagged := false
			for _, f := range t.findings {
				if f.rule == rule && fnID(f.fn) == n {
					flagged = true
				}
			}
			if !flagged {
				what := "no store/copy/append through payload-derived memory and no hand-over outside the read-only allow-list"
				if rule == "R13.2" {
					what = "no store to a package-level variable or through a pointer parameter/receiver"
				}
				r.ok(rule, n, what, "-", true)
			}
		}
	}
	// R13.4: not only the accessors: no method declared on a reply type or on Registers (a String()
	// that fmt runs, a new helper) writes the payload or stores through its receiver
	r.instance("R13.4", packetValuesImmutable(c, r, "R13.4", "packet", responseFamily(c, "packet"), nil))
	r.floor("R13.4", 60)
	// R13.5: extraction does not change the request it is called on either: nothing reachable from
	// the extraction methods of BuilderRequest writes memory of the request's field list (an
	// in-place filter on the receiver's copy of the slice header rewrites the caller's list, and
	// the second extraction then reports different fields)
	{
		var xroots []*ssa.Function
		var brT *types.Named
		for _, fn := range roots {
			if recv := fn.Signature.Recv(); recv != nil {
				if tn, ok := deref(recv.Type()).(*types.Named); ok && tn.Obj().Name() == "BuilderRequest" {
					xroots = append(xroots, fn)
					brT = tn
				}
			}
		}
		if brT != nil {
			srcs := map[*types.Var]bool{}
			var listT types.Type
			bst := brT.Underlying().(*types.Struct)
			for i := 0; i < bst.NumFields(); i++ {
				if sl, ok := bst.Field(i).Type().Underlying().(*types.Slice); ok {
					if _, isStruct := sl.Elem().Underlying().(*types.Struct); isStruct {
						srcs[bst.Field(i)] = true
						listT = bst.Field(i).Type()
					}
				}
			}
			seq := func(t types.Type) bool {
				_, isSlice := t.Underlying().(*types.Slice)
				return isSlice && listT != nil && types.Identical(t.Underlying(), listT.Underlying())
			}
			tt := runTaintOnly(c, xroots, srcs, seq, "the request's field list")
			r.instance("R13.5", len(xroots))
			seenF := map[string]bool{}
			for _, f := range tt.findings {
				if f.rule != "R13.1" || seenF[f.sig+fnID(f.fn)] {
					continue
				}
				seenF[f.sig+fnID(f.fn)] = true
				r.fail("R13.5", fnID(f.fn), "extraction writes the field list of the request it is called on: "+f.what, c.pos(f.pos), "", f.sig)
			}
			if len(seenF) == 0 {
				r.ok("R13.5", fnID(xroots[0]), fmt.Sprintf("nothing reachable from the %d extraction methods writes memory of the request's field list", len(xroots)), c.pos(xroots[0].Pos()), true)
			}
		}
		r.floor("R13.5", 3)
	}
	// R13.3: the result reported for a field does not depend on which fields were extracted before
	// it: each FieldValue is built afresh from (this field, the value and error just obtained for it)
	// in both extraction loops (C05 R5.4)
	{
		tmp := newReport(r.Prop, r.Tier)
		c05Loops(c, tmp)
		r.instance("R13.3", copyItems(tmp, r, "R5.4", "R13.3"))
		r.floor("R13.3", 4)
	}
	r.extra["payload_fields"] = len(sources)
	r.extra["store_and_call_sites_examined"] = t.nsites
	r.assumption("aliasing is tracked by derived-pointer propagation only; a payload slice that escapes to code outside the allow-list is reported, not followed")
	r.assumption("Registers.WithByteOrder is the declared configuration setter and is not an accessor; calling it from an accessor path is reported (R13.2)")
}

func init() {
	controls["C13"] = func(c *Ctx, r *Report) {
		sources := payloadFields(c, "c13")
		has := func(fnName, sig string) bool {
			var root *ssa.Function
			if fnName == "Decode" {
				root = c.fnMust("c13", "Decode")
			} else {
				root = c.fnMust("c13", "Registers."+fnName)
			}
			t := runC13(c, []*ssa.Function{root}, sources)
			for _, f := range t.findings {
				if strings.HasPrefix(f.sig, sig) {
					return true
				}
			}
			return sig == "" && len(t.findings) == 0
		}
		r.controls["C13/R13.1-in-place-swap"] = has("SwapInPlace", "store-through-payload")
		r.controls["C13/R13.1-append-alias"] = has("AppendAlias", "append-to-payload")
		r.controls["C13/R13.2-global-state"] = has("Remember", "global-store")
		r.controls["C13/R13.2-receiver-state"] = has("Decode", "param-store")
		if !has("Clean", "") {
			r.controls["C13/negative-control-silent"] = false
		}
	}
}
