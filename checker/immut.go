package main

// Packet values are not changed by their own methods: a request or response that has been
// built or parsed stays what it is whichever of its methods are called on it, including the
// ones fmt invokes implicitly (String, Error, Format). Decided by the derived-pointer analysis
// of C13 rooted at every method declared on the selected struct types of package packet.

import (
	"strings"
	"go/types"
	"sort"

	"golang.org/x/tools/go/ssa"
)

// packetFamily: the named struct types of pkgRel selected by want, plus the struct types of the
// same package they embed.
func packetFamily(c *Ctx, pkgRel string, want func(tn *types.Named) bool) map[*types.Named]bool {
	out := map[*types.Named]bool{}
	sp := c.pkg(pkgRel)
	var add func(tn *types.Named)
	add = func(tn *types.Named) {
		if out[tn] {
			return
		}
		st, ok := tn.Underlying().(*types.Struct)
		if !ok {
			return
		}
		out[tn] = true
		for i := 0; i < st.NumFields(); i++ {
			f := st.Field(i)
			if !f.Embedded() {
				continue
			}
			if en, ok := f.Type().(*types.Named); ok && en.Obj().Pkg() == sp.Pkg {
				add(en)
			}
		}
	}
	for _, m := range sp.Members {
		t, ok := m.(*ssa.Type)
		if !ok {
			continue
		}
		if tn, ok := t.Type().(*types.Named); ok && want(tn) {
			add(tn)
		}
	}
	return out
}

func hasMethodNamed(c *Ctx, tn *types.Named, names ...string) bool {
	for _, t := range []types.Type{tn, types.NewPointer(tn)} {
		ms := c.prog.MethodSets.MethodSet(t)
		for i := 0; i < ms.Len(); i++ {
			for _, n := range names {
				if ms.At(i).Obj().Name() == n {
					return true
				}
			}
		}
	}
	return false
}

// packetValuesImmutable reports, for every method declared on a type of the family, whether it
// (or anything it reaches) writes memory derived from the value's own byte-sequence fields or
// stores through its pointer receiver. extraRoots are analysed with the same sources.
func packetValuesImmutable(c *Ctx, r *Report, rule, pkgRel string, fam map[*types.Named]bool, extraRoots []*ssa.Function) int {
	sources := map[*types.Var]bool{}
	for tn := range fam {
		st := tn.Underlying().(*types.Struct)
		for i := 0; i < st.NumFields(); i++ {
			if isByteSeq(st.Field(i).Type()) {
				sources[st.Field(i)] = true
			}
		}
	}
	setters := map[*types.Named]bool{}
	if m := c.pkg(pkgRel).Type("Registers"); m != nil {
		if tn, ok := m.Type().(*types.Named); ok {
			setters[tn] = true
		}
	}
	var roots []*ssa.Function
	for _, fn := range c.allFuncs(pkgRel) {
		recv := fn.Signature.Recv()
		if recv == nil || fn.Parent() != nil {
			continue
		}
		if tn, ok := deref(recv.Type()).(*types.Named); ok && fam[tn] {
			if _, isPtr := recv.Type().Underlying().(*types.Pointer); isPtr && setters[tn] && storesThroughParam(fn, 0) {
				continue // the declared configuration setters of Registers (C13)
			}
			roots = append(roots, fn)
		}
	}
	sort.Slice(roots, func(i, j int) bool { return roots[i].String() < roots[j].String() })
	isRoot := map[*ssa.Function]bool{}
	for _, fn := range roots {
		isRoot[fn] = true
	}
	all := append(append([]*ssa.Function(nil), roots...), extraRoots...)
	t := runTaintOnly(c, all, sources, nil, "the packet's own bytes")
	flagged := map[*ssa.Function]bool{}
	seen := map[string]bool{}
	for _, f := range t.findings {
		k := f.sig + fnID(f.fn)
		if seen[k] {
			continue
		}
		if strings.HasPrefix(f.sig, "param-store:") && !storesThroughFamilyParam(f.fn, fam) {
			continue // a helper object of the encoder (a cursor, a writer) is not the packet value
		}
		seen[k] = true
		flagged[f.fn] = true
		r.fail(rule, fnID(f.fn), "a method of a packet value changes the value it is called on: "+f.what, c.pos(f.pos), "", f.sig)
	}
	n := 0
	for _, fn := range roots {
		n++
		r.funcs[fnID(fn)] = true
		if !flagged[fn] {
			r.ok(rule, fnID(fn), "the method neither stores through its receiver nor writes memory derived from the value's byte fields", c.pos(fn.Pos()), true)
		}
	}
	return n
}

// runTaintOnly: the derived-pointer analysis without the shared-state scan.
func runTaintOnly(c *Ctx, roots []*ssa.Function, sources map[*types.Var]bool, seq func(types.Type) bool, what string) *taintCtx {
	t := &taintCtx{c: c, sources: sources, seen: map[string]bool{}, funcs: map[*ssa.Function]bool{}, retTaint: map[string]bool{}, seq: seq, what: what}
	seen := map[*ssa.Function]bool{}
	var walk func(fn *ssa.Function)
	walk = func(fn *ssa.Function) {
		if seen[fn] || fn == nil || !c.inModule(fn) || fn.Blocks == nil {
			return
		}
		seen[fn] = true
		t.run(fn, map[int]bool{})
		if node := c.callGraph().Nodes[fn]; node != nil {
			for _, e := range node.Out {
				walk(e.Callee.Func)
			}
		}
	}
	for _, root := range roots {
		walk(root)
	}
	return t
}

// responseFamily: the reply types of the package (packet structs with a Bytes method that are not
// requests) and Registers, which shares a reply's payload.
func responseFamily(c *Ctx, pkgRel string) map[*types.Named]bool {
	reqs := requestTypes(c, pkgRel)
	var regs *types.Named
	if m := c.pkg(pkgRel).Type("Registers"); m != nil {
		regs, _ = m.Type().(*types.Named)
	}
	return packetFamily(c, pkgRel, func(tn *types.Named) bool {
		if tn == regs {
			return true
		}
		if reqs[tn] || !hasMethodNamed(c, tn, "Bytes") {
			return false
		}
		// not an error type, not a header: it carries a function code of its own
		return hasMethodNamed(c, tn, "FunctionCode")
	})
}

// storesThroughFamilyParam: fn stores through a pointer parameter (or receiver) whose element type
// is one of the packet types.
func storesThroughFamilyParam(fn *ssa.Function, fam map[*types.Named]bool) bool {
	for i, p := range fn.Params {
		pt, ok := p.Type().Underlying().(*types.Pointer)
		if !ok {
			continue
		}
		if tn, ok := pt.Elem().(*types.Named); ok && fam[tn] && storesThroughParam(fn, i) {
			return true
		}
	}
	return false
}
