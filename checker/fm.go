package main

// Entailment over linear integer constraints by Fourier–Motzkin elimination with
// integer tightening. Sound for "infeasible" answers; "feasible" means "not refuted".

import "sort"

type linc struct {
	c int64
	k map[*Sym]int64
}

func lincFromAff(a Aff) linc {
	l := linc{c: a.c, k: make(map[*Sym]int64, len(a.terms))}
	for _, t := range a.terms {
		l.k[t.s] = t.k
	}
	return l
}

func gcd(a, b int64) int64 {
	if a < 0 {
		a = -a
	}
	if b < 0 {
		b = -b
	}
	for b != 0 {
		a, b = b, a%b
	}
	return a
}

func floorDiv(a, b int64) int64 { // b > 0
	q := a / b
	if a%b != 0 && a < 0 {
		q--
	}
	return q
}

// tighten normalises Σk·s + c >= 0 over the integers.
func (l *linc) tighten() {
	var g int64
	for _, v := range l.k {
		g = gcd(g, v)
	}
	if g > 1 {
		for s, v := range l.k {
			l.k[s] = v / g
		}
		l.c = floorDiv(l.c, g)
	}
}

func (l linc) key() string {
	type kv struct {
		id int
		v  int64
	}
	kvs := make([]kv, 0, len(l.k))
	for s, v := range l.k {
		kvs = append(kvs, kv{s.id, v})
	}
	sort.Slice(kvs, func(i, j int) bool { return kvs[i].id < kvs[j].id })
	b := make([]byte, 0, 16*len(kvs))
	for _, e := range kvs {
		b = appendInt(b, int64(e.id))
		b = append(b, ':')
		b = appendInt(b, e.v)
		b = append(b, ',')
	}
	return string(b)
}

func appendInt(b []byte, v int64) []byte {
	if v < 0 {
		b = append(b, '-')
		v = -v
	}
	if v == 0 {
		return append(b, '0')
	}
	var tmp [20]byte
	i := len(tmp)
	for v > 0 {
		i--
		tmp[i] = byte('0' + v%10)
		v /= 10
	}
	return append(b, tmp[i:]...)
}

const fmLimit = 6000

var fmStats struct{ calls, gaveUp int }

// axiomsFor returns the defining constraints (as >=0 forms) of derived symbols.
func axiomsFor(s *Sym) []Aff {
	if s.arg == nil {
		return s.axioms
	}
	x := affSym(s)
	switch s.kind {
	case symDiv:
		// c*d <= arg <= c*d + c-1
		return []Aff{s.arg.sub(x.scale(s.c)), x.scale(s.c).addc(s.c - 1).sub(*s.arg)}
	case symCeilDiv:
		// c*q - c + 1 <= arg <= c*q
		return []Aff{x.scale(s.c).sub(*s.arg), s.arg.sub(x.scale(s.c)).addc(s.c - 1)}
	}
	return nil
}

// infeasible reports whether the conjunction (with symbol ranges and axioms) has
// no integer solution. false = could not refute.
func infeasible(c Conj) bool {
	// split NE atoms
	var base Conj
	var nes []Atom
	for _, a := range c {
		if a.op == opNE {
			if a.a.isConst() {
				if a.a.c == 0 {
					return true
				}
				continue
			}
			nes = append(nes, a)
		} else {
			base = append(base, a)
		}
	}
	if infeasibleNoNE(base) {
		return true
	}
	if len(nes) == 0 {
		return false
	}
	// resolve disequalities that the rest already decides
	for changed := true; changed; {
		changed = false
		var keep []Atom
		for _, a := range nes {
			posInf := infeasibleNoNE(base.with(Atom{opGE, a.a.addc(-1)}))
			negInf := infeasibleNoNE(base.with(Atom{opGE, a.a.neg().addc(-1)}))
			switch {
			case posInf && negInf:
				return true
			case posInf:
				base = base.with(Atom{opGE, a.a.neg().addc(-1)})
				changed = true
			case negInf:
				base = base.with(Atom{opGE, a.a.addc(-1)})
				changed = true
			default:
				keep = append(keep, a)
			}
		}
		nes = keep
	}
	if len(nes) <= 1 {
		// a single undecided disequality leaves at least one side feasible
		return false
	}
	if len(nes) > 6 {
		nes = nes[:6] // ignoring constraints is sound (weaker premise)
	}
	return infeasibleSplit(base, nes)
}

func infeasibleSplit(base Conj, nes []Atom) bool {
	if len(nes) == 0 {
		return infeasibleNoNE(base)
	}
	a := nes[0]
	// a != 0  <=>  a >= 1 or -a >= 1
	pos := base.with(Atom{opGE, a.a.addc(-1)})
	if !infeasibleNoNE(pos) && !infeasibleSplit(pos, nes[1:]) {
		return false
	}
	neg := base.with(Atom{opGE, a.a.neg().addc(-1)})
	if !infeasibleNoNE(neg) && !infeasibleSplit(neg, nes[1:]) {
		return false
	}
	return true
}

func infeasibleNoNE(c Conj) bool {
	fmStats.calls++
	syms := map[*Sym]bool{}
	for _, a := range c {
		a.a.syms(syms)
	}
	var cons []linc
	var eqs []Aff
	for _, a := range c {
		switch a.op {
		case opGE:
			cons = append(cons, lincFromAff(a.a))
		case opEQ:
			eqs = append(eqs, a.a)
		}
	}
	// ranges and axioms (axioms may introduce symbols already collected via syms())
	for s := range syms {
		cons = append(cons, lincFromAff(affSym(s).addc(-s.lo)))
		cons = append(cons, lincFromAff(affConst(s.hi).sub(affSym(s))))
		for _, ax := range axiomsFor(s) {
			cons = append(cons, lincFromAff(ax))
		}
	}
	// Gaussian elimination on equalities with a unit coefficient
	for len(eqs) > 0 {
		e := eqs[0]
		eqs = eqs[1:]
		if e.isConst() {
			if e.c != 0 {
				return true
			}
			continue
		}
		// integer solvability: gcd of coefficients must divide the constant
		var g int64
		for _, t := range e.terms {
			g = gcd(g, t.k)
		}
		if g > 1 {
			if e.c%g != 0 {
				return true
			}
			e = Aff{c: e.c / g, terms: append([]term(nil), e.terms...)}
			for i := range e.terms {
				e.terms[i].k /= g
			}
		}
		var piv *Sym
		var pk int64
		for _, t := range e.terms {
			if t.k == 1 || t.k == -1 {
				piv, pk = t.s, t.k
				break
			}
		}
		if piv == nil {
			// keep as two inequalities
			cons = append(cons, lincFromAff(e), lincFromAff(e.neg()))
			continue
		}
		// piv = -(e - pk*piv)/pk
		rest := e.subst(piv, Aff{})
		var sol Aff
		if pk == 1 {
			sol = rest.neg()
		} else {
			sol = rest
		}
		for i := range eqs {
			eqs[i] = eqs[i].subst(piv, sol)
		}
		for i := range cons {
			if k, ok := cons[i].k[piv]; ok {
				delete(cons[i].k, piv)
				cons[i].c += k * sol.c
				for _, t := range sol.terms {
					v := cons[i].k[t.s] + k*t.k
					if v == 0 {
						delete(cons[i].k, t.s)
					} else {
						cons[i].k[t.s] = v
					}
				}
			}
		}
	}
	// integer bound propagation: FM over the rationals loses facts that need rounding of an
	// intermediate single-variable bound (e.g. 65536*d >= -65535 gives d >= 0)
	cons, bad := propagateBounds(cons)
	if bad {
		return true
	}
	return fmEliminate(cons)
}

func ceilDiv(a, b int64) int64 { // b > 0
	return -floorDiv(-a, b)
}

// propagateBounds derives per-variable integer bounds from the constraints (each Σk·x+c>=0)
// by interval propagation, returns the constraints plus the derived bounds, or bad=true if
// some variable's interval became empty.
func propagateBounds(cons []linc) ([]linc, bool) {
	const inf = int64(1) << 60
	lo := map[*Sym]int64{}
	hi := map[*Sym]int64{}
	for _, l := range cons {
		for s := range l.k {
			if _, ok := lo[s]; !ok {
				lo[s], hi[s] = -inf, inf
			}
		}
	}
	sat := func(k, v int64) int64 {
		if v >= inf/2 || v <= -inf/2 {
			if (k > 0) == (v > 0) {
				return inf
			}
			return -inf
		}
		if v == 0 || k == 0 {
			return 0
		}
		r := k * v
		if r/v != k {
			if (k > 0) == (v > 0) {
				return inf
			}
			return -inf
		}
		if r > inf {
			return inf
		}
		if r < -inf {
			return -inf
		}
		return r
	}
	for round := 0; round < 12; round++ {
		changed := false
		for _, l := range cons {
			if len(l.k) > 8 {
				continue
			}
			for x, kx := range l.k {
				// kx*x >= -(c + Σ_{others} max(k*y))
				restMax := l.c
				unb := false
				for y, ky := range l.k {
					if y == x {
						continue
					}
					var m int64
					if ky > 0 {
						if hi[y] >= inf/2 {
							unb = true
							break
						}
						m = sat(ky, hi[y])
					} else {
						if lo[y] <= -inf/2 {
							unb = true
							break
						}
						m = sat(ky, lo[y])
					}
					if m >= inf/2 {
						unb = true
						break
					}
					restMax += m
				}
				if unb {
					continue
				}
				if kx > 0 {
					nb := ceilDiv(-restMax, kx)
					if nb > lo[x] {
						lo[x] = nb
						changed = true
					}
				} else {
					nb := floorDiv(restMax, -kx)
					if nb < hi[x] {
						hi[x] = nb
						changed = true
					}
				}
				if lo[x] > hi[x] {
					return nil, true
				}
			}
		}
		if !changed {
			break
		}
	}
	for s := range lo {
		if lo[s] > -inf/2 {
			cons = append(cons, linc{c: -lo[s], k: map[*Sym]int64{s: 1}})
		}
		if hi[s] < inf/2 {
			cons = append(cons, linc{c: hi[s], k: map[*Sym]int64{s: -1}})
		}
	}
	return cons, false
}

func fmEliminate(cons []linc) bool {
	for {
		// normalise, drop trivial, detect contradiction, dedupe
		seen := map[string]int64{}
		var next []linc
		vars := map[*Sym][2]int{}
		for _, l := range cons {
			l.tighten()
			if len(l.k) == 0 {
				if l.c < 0 {
					return true
				}
				continue
			}
			key := l.key()
			if c0, ok := seen[key]; ok {
				if l.c >= c0 {
					continue // weaker
				}
				// replace stronger: find and update
				for i := range next {
					if next[i].key() == key {
						next[i].c = l.c
					}
				}
				seen[key] = l.c
				continue
			}
			seen[key] = l.c
			next = append(next, l)
		}
		cons = next
		if len(cons) == 0 {
			return false
		}
		for _, l := range cons {
			for s, v := range l.k {
				pn := vars[s]
				if v > 0 {
					pn[0]++
				} else {
					pn[1]++
				}
				vars[s] = pn
			}
		}
		// choose variable with minimal pos*neg
		var best *Sym
		bestCost := int(^uint(0) >> 1)
		for s, pn := range vars {
			cost := pn[0]*pn[1] - pn[0] - pn[1]
			if cost < bestCost || (cost == bestCost && best != nil && s.id < best.id) {
				best, bestCost = s, cost
			}
		}
		if best == nil {
			return false
		}
		var pos, neg, rest []linc
		for _, l := range cons {
			v := l.k[best]
			switch {
			case v > 0:
				pos = append(pos, l)
			case v < 0:
				neg = append(neg, l)
			default:
				rest = append(rest, l)
			}
		}
		if len(rest)+len(pos)*len(neg) > fmLimit {
			fmStats.gaveUp++
			return false
		}
		for _, p := range pos {
			for _, n := range neg {
				a, b := p.k[best], -n.k[best]
				g := gcd(a, b)
				ma, mb := b/g, a/g // ma*p + mb*n eliminates best
				if ma > 1<<30 || mb > 1<<30 {
					fmStats.gaveUp++
					return false
				}
				nl := linc{c: ma*p.c + mb*n.c, k: map[*Sym]int64{}}
				for s, v := range p.k {
					if s != best {
						nl.k[s] = ma * v
					}
				}
				for s, v := range n.k {
					if s != best {
						nv := nl.k[s] + mb*v
						if nv == 0 {
							delete(nl.k, s)
						} else {
							nl.k[s] = nv
						}
					}
				}
				ok := true
				for _, v := range nl.k {
					if v > 1<<40 || v < -(1<<40) {
						ok = false
					}
				}
				if !ok {
					fmStats.gaveUp++
					return false
				}
				rest = append(rest, nl)
			}
		}
		cons = rest
	}
}

// entails reports whether every disjunct of d implies atom g.
func (d DNF) entails(g Atom) bool {
	for _, c := range d {
		if !c.entails(g) {
			return false
		}
	}
	return true
}

func (c Conj) entails(g Atom) bool {
	for _, n := range g.negate() {
		if !infeasible(c.with(n)) {
			return false
		}
	}
	return true
}

// entailsAll: conj implies every atom of goal.
func (c Conj) entailsAll(goal Conj) bool {
	for _, g := range goal {
		if !c.entails(g) {
			return false
		}
	}
	return true
}

// bounds returns the tightest [lo,hi] of a provable under d by bisection on entailment
// within the interval hull; used for reporting ranges.
func (d DNF) bounds(a Aff) (lo, hi int64) {
	lo, hi = a.interval()
	if len(d) == 0 {
		return
	}
	// upper bound: smallest h with d |= a <= h
	l, h := lo, hi
	for l < h {
		m := l + (h-l)/2
		if d.entails(atomLE(a, affConst(m))) {
			h = m
		} else {
			l = m + 1
		}
	}
	hi = h
	l, h = lo, hi
	for l < h {
		m := l + (h-l+1)/2
		if d.entails(atomGE(a, affConst(m))) {
			l = m
		} else {
			h = m - 1
		}
	}
	lo = l
	return
}
