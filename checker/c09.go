package main

// C09 — legal requests survive encode -> parse unchanged; illegal ones are refused
// (DESIGN §3 C09).

import (
	"fmt"
	"go/types"
	"strings"

	"golang.org/x/tools/go/ssa"
)

func init() {
	register("C09", checkC09, "R9.1: each of the 20 request parsers is abstractly interpreted on an arbitrary frame; on its success path every quantity/count field must range over exactly the specification's interval (too wide = illegal frames decoded, too narrow = legal requests refused) and an FC5 value must be 0x0000 or 0xFF00. R9.3 symbolic round trip parse∘encode = id: the buffer written by Bytes() under the constructor's success state (restricted to specification-legal quantities) is handed, as a symbolic buffer with its recorded writes, to the per-function parser — for RTU both with and without the CRC trailer; every rejecting return of the parser (and of ParseMBAPHeader) must be infeasible and the fields of the parsed object must equal the original's (integers and bools by entailment, payloads by byte identity through the copy chain), hence re-encoding gives the same bytes. R9.4: the request dispatchers call, for each function code, the parser whose type reports that code and framing, and ParseRTURequestWithCRC guards ParseRTURequest with the CRC (C03 R3.2). R9.5 = C01 R1.5: the MBAP header an encoder writes is the struct's own (transaction id, protocol id 0) for any struct contents, so a decoded request re-encodes to the same bytes. R9.6 = shared-state rule from request parsers, dispatchers, request encoders and CRC16. R9.8 = C03 R3.2 for the CRC-verifying request entry point (accepted iff the trailer is the CRC of the whole input before it). Known findings of R9.3 are keyed by the refused quantity range.")
}

func checkC09(c *Ctx, r *Report) {
	r.floor("R9.1", 20)
	r.floor("R9.3", 20)
	r.floor("R9.4", 20)
	crc := c.fnMust("packet", "CRC16")
	// R9.6: encoding and parsing a request depend on the request / frame alone
	sharedStateRule(c, r, "R9.6", "packet request parsers", "request encoding and parsing", append(codecRoots(c, "packet", true), crc))
	r.floor("R9.6", 40)
	for _, pi := range packetParsers(c, "packet", true) {
		c09Limits(c, r, pi, false)
		c09RoundTrip(c, r, pi, crc, "packet", false)
	}
	for _, name := range []string{"ParseTCPRequest", "ParseRTURequest"} {
		fn := c.fnMust("packet", name)
		fired := c02DispatcherAs(c, r, fn, name == "ParseTCPRequest", "R9.4")
		_ = fired
	}
	// R9.5: symmetry also for requests that did not come out of a constructor (a decoded request,
	// transaction id 0): the header the encoder writes is the struct's own for any contents
	{
		reqs := requestTypes(c, "packet")
		for _, m := range bytesMethods(c, "packet") {
			tn := m.Signature.Recv().Type().(*types.Named)
			if reqs[tn] && hasMBAP(tn) {
				r.instance("R9.5", 1)
				r.funcs[fnID(m)] = true
				c01ConstProtocol(c, r, "R9.5", m)
			}
		}
		r.floor("R9.5", 10)
	}
	// R9.8: the CRC-verifying request entry points accept exactly the frames whose trailer is the
	// CRC of everything before it — of the whole input, not of a trimmed view (C03 R3.2)
	{
		n := 0
		for _, fn := range c.allFuncs("packet") {
			if fn.Parent() != nil || fn.Object() == nil || !fn.Object().Exported() || fn.Signature.Recv() != nil {
				continue
			}
			res := fn.Signature.Results()
			if res.Len() != 2 || !isErrorType(res.At(1).Type()) || !callsWithin(fn, crc, 0) {
				continue
			}
			// a verifying entry point of the request direction: it hands on to a function that returns a request
			toReq := false
			for _, b := range fn.Blocks {
				for _, in := range b.Instrs {
					if cl, ok := in.(*ssa.Call); ok {
						if sc := cl.Common().StaticCallee(); sc != nil && sc.Signature.Results().Len() > 0 && strings.HasSuffix(sc.Signature.Results().At(0).Type().String(), ".Request") {
							toReq = true
						}
					}
				}
			}
			if !toReq {
				continue
			}
			tmp := newReport(r.Prop, r.Tier)
			c03Verifier(c, tmp, fn, crc, false)
			n += copyItems(tmp, r, "R3.2", "R9.8")
			r.funcs[fnID(fn)] = true
		}
		r.instance("R9.8", n)
		r.floor("R9.8", 1)
	}
	r.assumption("requests are those the constructors return (success state), further restricted to specification-legal quantities for the round trip")
	r.assumption("CRC16 uninterpreted; slice lengths below 2^31; int is 64 bits wide")
}

// c02DispatcherAs runs the dispatch-agreement part of c02Dispatcher under another rule id.
func c02DispatcherAs(c *Ctx, r *Report, fn *ssa.Function, tcp bool, rule string) map[string]bool {
	tmp := newReport(r.Prop, r.Tier)
	fired := c02Dispatcher(c, tmp, fn, tcp, false)
	for _, it := range tmp.items {
		if it.Rule != "R2.4" {
			continue
		}
		it.Rule = rule
		r.add(it)
		r.instance(rule, 1)
	}
	r.funcs[fnID(fn)] = true
	return fired
}

// c09Limits: R9.1 for one request parser.
func c09Limits(c *Ctx, r *Report, pi parserInfo, control bool) map[string]bool {
	fired := map[string]bool{}
	id := fnID(pi.fn)
	pos := c.pos(pi.fn.Pos())
	rep := func(ok bool, what, detail, sig string) {
		if !ok {
			fired[sig] = true
		}
		if control {
			return
		}
		if ok {
			r.ok("R9.1", id, what, pos, true)
		} else {
			r.fail("R9.1", id, what, pos, detail, sig)
		}
	}
	if !control {
		r.instance("R9.1", 1)
		r.funcs[id] = true
	}
	sp := specFor(pi.fc)
	if sp == nil {
		return fired
	}
	an, pf := analyse(c, pi.fn)
	var site *ReturnSite
	n := 0
	for i := range pf.returns {
		rs := &pf.returns[i]
		nf := pf.nilness(rs.vals[1])
		if nf.kind == fConst && nf.b {
			site = rs
			n++
		}
	}
	if n != 1 {
		rep(false, fmt.Sprintf("parser has %d success returns (want 1)", n), "", "success-sites")
		return fired
	}
	p, isP := site.vals[0].(APtr)
	if !isP || p.obj == nil {
		rep(false, "parser does not return an allocated object", "", "no-object")
		return fired
	}
	recv := pf.loadPath(p.obj, "", p.obj.typ, site.instr)
	for _, lim := range sp.lim {
		fv, _, ok := findField(an.u, recv, pi.tn, lim.field, 0)
		ai, isI := fv.(AInt)
		if !ok || !isI {
			if !control {
				r.undecided("R9.1", id, "quantity field "+lim.field+" not found", pos)
			}
			continue
		}
		q := pf.useIn(ai, site.state, "limit")
		lo, hi := site.state.bounds(q)
		rep(lo == lim.lo && hi == lim.hi, fmt.Sprintf("accepted %s ranges over exactly the specification's [%d,%d]", lim.field, lim.lo, lim.hi),
			fmt.Sprintf("parser accepts %s in [%d,%d], specification [%d,%d]", lim.field, lo, hi, lim.lo, lim.hi),
			fmt.Sprintf("limit:%s=[%d,%d] spec=[%d,%d]", lim.field, lo, hi, lim.lo, lim.hi))
	}
	if len(sp.lim) == 0 {
		rep(true, "function has no quantity field", "", "")
	}
	// a byte-counted request (FC15, 16, 23) is accepted only if the data present is exactly what
	// its byte-count byte announces (RTU: with or without the two CRC bytes)
	if bcOff, counted := map[int64]int64{15: 4, 16: 4, 23: 8}[pi.fc]; counted {
		data := pf.vals[pi.fn.Params[0]].(ASlice)
		off := bcOff + 2
		if pi.tcp {
			off = bcOff + 8
		}
		bc := pf.frameBytes(data, affConst(off), 1, true)
		exact := atomEQ(data.ln, bc.addc(off+1))
		withCRC := atomEQ(data.ln, bc.addc(off+3))
		okLen := true
		for _, cj := range site.state {
			if infeasible(cj) {
				continue
			}
			if !(cj.entails(exact) || (!pi.tcp && cj.entails(withCRC))) {
				okLen = false
			}
		}
		// Not a clause of C09 or C16 as stated (both speak of quantities, counts and coil values
		// outside the specification's limits), so this is recorded as an observation only: the
		// sibling parsers of the pinned tree disagree (FC16 demands equality, FC15/FC23 accept
		// surplus bytes after the announced data).
		if !control {
			if okLen {
				r.info("R9.1", id, "observation: a request whose length disagrees with its byte-count byte is refused", pos)
			} else {
				r.info("R9.1", id, "observation: the parser accepts a request that is longer than its byte-count byte announces (surplus bytes are dropped)", pos)
			}
		}
	}
	for _, sg := range sp.req {
		if sg.kind != sCoil {
			continue
		}
		// the frame's 16-bit value: fc offset + 3
		data := pf.vals[pi.fn.Params[0]].(ASlice)
		off := int64(4)
		if pi.tcp {
			off = 10
		}
		v := pf.frameBytes(data, affConst(off), 2, true)
		bad := dnfAnd(site.state, DNF{Conj{atomNE(v, affConst(0)), atomNE(v, affConst(0xFF00))}})
		feas := false
		for _, cj := range bad {
			if !infeasible(cj) {
				feas = true
			}
		}
		rep(!feas, "a coil value other than 0x0000/0xFF00 is refused", truncate(site.state.String(), 300), "coil-value")
	}
	return fired
}

// c09RoundTrip: R9.3 for one request type.
func c09RoundTrip(c *Ctx, r *Report, pi parserInfo, crc *ssa.Function, pkgRel string, control bool) map[string]bool {
	fired := map[string]bool{}
	id := fnID(pi.fn)
	pos := c.pos(pi.fn.Pos())
	rep := func(ok bool, what, detail, sig string) {
		if !ok {
			fired[sig] = true
		}
		if control {
			return
		}
		if ok {
			r.ok("R9.3", id, what, pos, true)
		} else {
			r.fail("R9.3", id, what, pos, detail, sig)
		}
	}
	if !control {
		r.instance("R9.3", 1)
	}
	er := runEncoder(c, pkgRel, pi.bytes, crc)
	if !er.okay {
		if !control {
			r.undecided("R9.3", id, "encoder not interpretable: "+er.why, pos)
		}
		fired["undecided"] = true
		return fired
	}
	sp := specFor(pi.fc)
	// restrict to specification-legal quantities
	st := er.rst
	if sp != nil {
		for _, lim := range sp.lim {
			if fv, _, ok := findField(er.an.u, er.recv, er.tn, lim.field, 0); ok {
				if ai, isI := fv.(AInt); isI {
					q := er.fr.useIn(ai, st, "limit")
					st = dnfAnd(st, DNF{Conj{atomGE(q, affConst(lim.lo)), atomLE(q, affConst(lim.hi))}})
				}
			}
		}
	}
	st = er.fr.compress1(st)
	if len(st) == 0 {
		rep(false, "constructor accepts no specification-legal request", "", "no-legal-request")
		return fired
	}
	variants := []struct {
		name string
		trim int64
	}{{"", 0}}
	if !pi.tcp {
		variants = append(variants, struct {
			name string
			trim int64
		}{" without CRC trailer", 2})
	}
	for _, v := range variants {
		L := er.res.root.ln.addc(-v.trim)
		frame := ASlice{root: er.res.root, off: Aff{}, ln: L, elem: er.res.elem}
		an := er.an
		an.obligs, an.wraps = nil, nil
		pf := an.newFrame(pi.fn, nil, []AV{frame})
		pf.run(st)
		okAll := true
		var site *ReturnSite
		for i := range pf.returns {
			rs := &pf.returns[i]
			if len(rs.state) == 0 {
				continue
			}
			nf := pf.nilness(rs.vals[1])
			if nf.kind == fConst && nf.b {
				if site != nil {
					okAll = false
				}
				site = rs
				continue
			}
			// a rejecting return that is feasible for an encoded legal request
			// which encoded requests: for the read functions, the range of the frame's quantity field for
			// which this refusal is reachable (so that a refusal of other requests at the same return
			// is a different finding)
			rng := ""
			if sp != nil && pi.fc >= 1 && pi.fc <= 4 {
				for _, lim := range sp.lim {
					if fv, _, ok := findField(er.an.u, er.recv, er.tn, lim.field, 0); ok {
						if ai, isI := fv.(AInt); isI {
							lo, hi := rs.state.bounds(er.fr.useIn(ai, rs.state, "limit"))
							rng = fmt.Sprintf(" [%s %d..%d]", strings.ToLower(lim.field), lo, hi)
						}
					}
				}
			}
			sigText := c.exprAtReturn(rs.instr)
			if rng != "" {
				sigText = "" // which requests are refused identifies the finding, not how the return is spelled
			}
			rep(false, "parser can refuse a request the library itself encoded"+v.name, "rejecting return at "+c.pos(rs.instr.Pos())+" feasible under "+truncate(rs.state.String(), 400),
				"refuses@"+sigText+v.name+rng)
			okAll = false
		}
		for _, o := range an.obligs {
			if !o.ok {
				rep(false, "parser may panic on a request the library itself encoded"+v.name, o.desc+" at "+c.pos(o.pos), "panic:"+o.kind+v.name)
				okAll = false
			}
		}
		if site == nil {
			if okAll {
				rep(false, "parser has no feasible success return for an encoded legal request"+v.name, "", "no-success"+v.name)
			}
			continue
		}
		p, isP := site.vals[0].(APtr)
		if !isP || p.obj == nil {
			rep(false, "parser does not return an allocated object", "", "no-object")
			continue
		}
		parsed := pf.loadPath(p.obj, "", p.obj.typ, site.instr)
		if why := equalValues(pf, site.state, parsed, er.recv, pi.tn, ""); why != "" {
			rep(false, "parsed request differs from the encoded one"+v.name, why, "field:"+why)
			okAll = false
		}
		if okAll {
			rep(true, fmt.Sprintf("parse(encode(req)) = req for every specification-legal FC%d %s request%s; no rejecting return is feasible", pi.fc, map[bool]string{true: "TCP", false: "RTU"}[pi.tcp], v.name), "", "")
		}
	}
	return fired
}

func (c *Ctx) exprAtReturn(ret *ssa.Return) string {
	// identify a rejecting return by its enclosing function and the error message constant if any
	for _, res := range ret.Results {
		if mi, ok := res.(*ssa.MakeInterface); ok {
			if call, ok := mi.X.(*ssa.Call); ok {
				for _, a := range call.Common().Args {
					if k, ok := a.(*ssa.Const); ok && k.Value != nil && k.Value.Kind().String() == "String" {
						return strings.Trim(k.Value.ExactString(), "\"")
					}
				}
			}
		}
		if call, ok := res.(*ssa.Call); ok {
			for _, a := range call.Common().Args {
				if k, ok := a.(*ssa.Const); ok && k.Value != nil && k.Value.Kind().String() == "String" {
					return strings.Trim(k.Value.ExactString(), "\"")
				}
			}
		}
	}
	return ret.Parent().Name()
}

// equalValues compares two abstract struct values field by field under state st; returns
// "" when equal or the path of the first differing field.
func equalValues(f *Frame, st DNF, a, b AV, t types.Type, path string) string {
	stt, ok := t.Underlying().(*types.Struct)
	if !ok {
		return ""
	}
	for i := 0; i < stt.NumFields(); i++ {
		fa, fb := f.an.u.fieldOf(a, i), f.an.u.fieldOf(b, i)
		name := path + stt.Field(i).Name()
		switch x := fa.(type) {
		case AInt:
			y, ok := fb.(AInt)
			if !ok {
				return name
			}
			if !st.entails(atomEQ(f.useIn(x, st, name), f.useIn(y, st, name))) {
				return fmt.Sprintf("%s: parsed %s, original %s", name, x.a.String(), y.a.String())
			}
		case ABool:
			y, ok := fb.(ABool)
			if !ok {
				return name
			}
			d1 := dnfAnd(dnfAnd(st, x.f.dnf(false)), y.f.dnf(true))
			d2 := dnfAnd(dnfAnd(st, x.f.dnf(true)), y.f.dnf(false))
			for _, cj := range append(d1, d2...) {
				if !infeasible(cj) {
					return name + ": boolean differs"
				}
			}
		case ASlice:
			y, ok := fb.(ASlice)
			if !ok {
				return name
			}
			for _, cj := range st {
				if !sameBytes(cj, x, y) {
					// small arrays filled element-wise
					if x.ln.isConst() && y.ln.isConst() && x.ln.c == y.ln.c && x.ln.c <= 8 {
						save := f.cur
						f.cur = DNF{cj}
						same := true
						for k := int64(0); k < x.ln.c; k++ {
							va, oka := elemOf(f, x, k)
							vb, okb := elemOf(f, y, k)
							if !oka || !okb || !cj.entails(atomEQ(va, vb)) {
								same = false
							}
						}
						f.cur = save
						if same {
							continue
						}
					}
					return fmt.Sprintf("%s: parsed bytes %s, original %s", name, describeAV(canonicalSlice(cj, x, 0)), describeAV(canonicalSlice(cj, y, 0)))
				}
			}
		case AStructLit, AStruct:
			if why := equalValues(f, st, fa, fb, stt.Field(i).Type(), name+"."); why != "" {
				return why
			}
		}
	}
	return ""
}

// elemOf: value of byte k of a (possibly fresh) slice.
func elemOf(f *Frame, s ASlice, k int64) (Aff, bool) {
	if s.isNil || s.root == nil {
		return Aff{}, false
	}
	abs := s.off.addc(k)
	if s.root.fresh {
		v, ok := f.readFresh(s.root, abs, 1, true)
		ai, isI := v.(AInt)
		if !ok || !isI {
			return Aff{}, false
		}
		return f.useIn(ai, f.cur, "elem"), true
	}
	return affSym(f.an.u.sym(fmt.Sprintf("%s[%s]", s.root.key, abs.String()), 0, 255)), true
}

func init() {
	controls["C09"] = func(c *Ctx, r *Report) {
		byName := map[string]parserInfo{}
		for _, pi := range packetParsers(c, "c09", true) {
			byName[pi.fn.Name()] = pi
		}
		has := func(m map[string]bool, prefix string) bool {
			for k := range m {
				if strings.HasPrefix(k, prefix) {
					return true
				}
			}
			return false
		}
		g, ok := byName["ParseGoodTCP"]
		if !ok || len(c09Limits(c, r, g, true)) != 0 || len(c09RoundTrip(c, r, g, nil, "c09", true)) != 0 {
			r.controls["C09/negative-control-silent"] = false
		}
		r.controls["C09/R9.1-too-wide"] = has(c09Limits(c, r, byName["ParseWideTCP"], true), "limit:")
		r.controls["C09/R9.1-too-narrow"] = has(c09Limits(c, r, byName["ParseNarrowTCP"], true), "limit:")
		r.controls["C09/R9.3-refuses-legal"] = has(c09RoundTrip(c, r, byName["ParseNarrowTCP"], nil, "c09", true), "refuses@")
		r.controls["C09/R9.3-crossed-field"] = has(c09RoundTrip(c, r, byName["ParseCrossedTCP"], nil, "c09", true), "field:")
	}
}
