package main

// Shared analysis of the two clients' Do/do (used by C07, C08, C12, C19).

import (
	"fmt"
	"go/types"
	"os"
	"strings"

	"golang.org/x/tools/go/ssa"
)

type clientInfo struct {
	typeName  string
	serial    bool
	tn        *types.Named
	st        *types.Struct
	transport int // field index of the transport (has Read and Write)
	hooks     int
	asErr     int // func([]byte) error
	parse     int // func([]byte) (Response, error)
	mutex     int
	maxADU    int64

	Do, do *ssa.Function
	an     *Analysis
	top    *Frame // Do
	inner  *Frame // do (inlined under Do)
	// facts
	read    *CallRec
	write   *CallRec
	total   Aff // running total before the read (header phi)
	n       Aff // count returned by the read
	recvBuf *Root
	phi     *ssa.Phi
	loop    map[*ssa.BasicBlock]bool
	problem string
}

func hasMethods(t types.Type, names ...string) bool {
	ms := types.NewMethodSet(t)
	for _, n := range names {
		found := false
		for i := 0; i < ms.Len(); i++ {
			if ms.At(i).Obj().Name() == n {
				found = true
			}
		}
		if !found {
			return false
		}
	}
	return true
}

func analyseClient(c *Ctx, typeName string, serial bool) *clientInfo {
	return analyseClientIn(c, "", typeName, serial)
}

// analyseClientIn: the client type typeName of package pkgRel (the controls use their own package).
func analyseClientIn(c *Ctx, pkgRel, typeName string, serial bool) *clientInfo {
	ci := &clientInfo{typeName: typeName, serial: serial, transport: -1, hooks: -1, asErr: -1, parse: -1, mutex: -1, maxADU: maxTCPADU}
	if serial {
		ci.maxADU = maxRTUADU
	}
	sp := c.pkg(pkgRel)
	tm := sp.Type(typeName)
	if tm == nil {
		fatal("unresolved anchor: type %s", typeName)
	}
	ci.tn = tm.Type().(*types.Named)
	ci.st = ci.tn.Underlying().(*types.Struct)
	for i := 0; i < ci.st.NumFields(); i++ {
		ft := ci.st.Field(i).Type()
		switch u := ft.Underlying().(type) {
		case *types.Interface:
			if hasMethods(ft, "Read", "Write") {
				ci.transport = i
			} else if hasMethods(ft, "BeforeWrite", "AfterEachRead", "BeforeParse") {
				ci.hooks = i
			}
		case *types.Signature:
			if u.Params().Len() == 1 && u.Results().Len() == 1 && isErrorType(u.Results().At(0).Type()) {
				if _, ok := u.Params().At(0).Type().Underlying().(*types.Slice); ok {
					ci.asErr = i
				}
			}
			if u.Params().Len() == 1 && u.Results().Len() == 2 && isErrorType(u.Results().At(1).Type()) {
				if _, ok := u.Params().At(0).Type().Underlying().(*types.Slice); ok {
					ci.parse = i
				}
			}
		}
		if n, ok := ft.(*types.Named); ok && n.Obj().Pkg() != nil && n.Obj().Pkg().Path() == "sync" && strings.HasSuffix(n.Obj().Name(), "Mutex") {
			ci.mutex = i
		}
	}
	if ci.transport < 0 || ci.hooks < 0 || ci.asErr < 0 || ci.parse < 0 || ci.mutex < 0 {
		fatal("unresolved anchor: %s lacks a transport/hooks/asProtocolError/parseResponse/mutex field", typeName)
	}
	ci.Do = c.fnMust(pkgRel, "*"+typeName+".Do")
	ci.do = c.fnMust(pkgRel, "*"+typeName+".do")
	ci.an = &Analysis{ctx: c, u: newUniverse(), top: ci.Do, logCalls: true}
	ci.top = ci.an.newFrame(ci.Do, nil, nil)
	ci.top.run(dnfTrue())
	// do is called from Do directly or through a thin helper Do delegates to
	var findInner func(f *Frame, depth int)
	findInner = func(f *Frame, depth int) {
		for _, ch := range f.child {
			if ch.fn == ci.do {
				ci.inner = ch
			} else if depth < 2 && ch.fn.Pkg == ci.Do.Pkg {
				findInner(ch, depth+1)
			}
		}
	}
	findInner(ci.top, 0)
	if ci.inner == nil {
		ci.problem = "Do does not call do statically"
		return ci
	}
	// the transport Read / Write inside do
	for _, cr := range ci.an.calls {
		// in do itself or in a helper do calls (the write half is sometimes split off)
		if !cr.frame.within(ci.inner) || cr.method == "" {
			continue
		}
		if !ci.isField(cr.recv, ci.transport) {
			continue
		}
		switch cr.method {
		case "Read":
			if ci.read != nil {
				ci.problem = "more than one transport Read in do"
			}
			ci.read = cr
		case "Write":
			if ci.write != nil {
				ci.problem = "more than one transport Write in do"
			}
			ci.write = cr
		}
	}
	if ci.read == nil || ci.write == nil {
		ci.problem = "transport Read/Write not found in do"
		return ci
	}
	arg, ok := ci.read.args[0].(ASlice)
	if !ok || !arg.root.fresh {
		ci.problem = "Read target is not a local buffer"
		return ci
	}
	ci.recvBuf = arg.root
	ci.total = arg.off
	if t, ok := ci.read.res.(ATuple); ok && len(t) == 2 {
		if n, ok := t[0].(AInt); ok {
			ci.n = n.a
		}
	}
	// the phi behind total
	if sl, ok := ci.read.instr.Common().Args[0].(*ssa.Slice); ok && sl.Low != nil {
		if ph, ok := sl.Low.(*ssa.Phi); ok {
			ci.phi = ph
			ci.loop = naturalLoop(ph.Block())
		}
	}
	if ci.phi == nil {
		ci.problem = "Read does not target received[total:...] with total a loop-carried value"
	}
	return ci
}

// isField: v was loaded from field idx of the client receiver.
func (ci *clientInfo) isField(v AV, idx int) bool {
	want := "*" + ci.Do.Params[0].Name() + "." + ci.st.Field(idx).Name()
	switch x := v.(type) {
	case ARef:
		return x.key == want
	case AOpaque:
		return x.key == want
	}
	return strings.Contains(describeAV(v), want+")") || describeAV(v) == want
}

func (ci *clientInfo) id(fn *ssa.Function) string { return fnID(fn) }

// callsIn returns the logged calls of frame fr (depth exact) matching a predicate.
func (ci *clientInfo) callsIn(fr *Frame, pred func(*CallRec) bool) []*CallRec {
	var out []*CallRec
	for _, cr := range ci.an.calls {
		if cr.frame.within(fr) && !(fr == ci.top && cr.frame.within(ci.inner) && ci.inner != ci.top) && pred(cr) {
			out = append(out, cr)
		}
	}
	return out
}

func (ci *clientInfo) hookCalls(fr *Frame, method string) []*CallRec {
	return ci.callsIn(fr, func(cr *CallRec) bool { return cr.method == method && ci.isField(cr.recv, ci.hooks) })
}

func (ci *clientInfo) dynCalls(fr *Frame, field int) []*CallRec {
	return ci.callsIn(fr, func(cr *CallRec) bool {
		return cr.callee == nil && cr.method == "" && cr.dyn != nil && ci.isField(cr.dyn, field)
	})
}

// allPathsPass: every path from block `from` to a function exit or back to `from`'s loop
// header passes through block `through`.
func allPathsPass(from, through *ssa.BasicBlock, stopAt map[*ssa.BasicBlock]bool) bool {
	if from == through {
		return true
	}
	seen := map[*ssa.BasicBlock]bool{from: true}
	work := []*ssa.BasicBlock{from}
	for len(work) > 0 {
		b := work[len(work)-1]
		work = work[:len(work)-1]
		if len(b.Succs) == 0 {
			return false // reached an exit without passing `through`
		}
		for _, s := range b.Succs {
			if s == through {
				continue
			}
			if stopAt[s] {
				return false
			}
			if !seen[s] {
				seen[s] = true
				work = append(work, s)
			}
		}
	}
	return true
}

func posOfCall(c *Ctx, cr *CallRec) string { return c.pos(cr.instr.Pos()) }

// errorClass classifies an error value returned by Do/do.
func (ci *clientInfo) errorClass(fr *Frame, v AV) string {
	switch x := v.(type) {
	case ANil:
		return "nil"
	case AIface:
		switch p := x.val.(type) {
		case APtr:
			if p.obj != nil {
				if n, ok := p.obj.typ.(*types.Named); ok && n.Obj().Name() == "ClientError" {
					return "ClientError"
				}
			}
		case AGlobal:
			if pt, ok := p.g.Type().(*types.Pointer); ok {
				if n, ok := pt.Elem().(*types.Named); ok && n.Obj().Name() == "ClientError" {
					return "ClientError(" + p.g.Name() + ")"
				}
			}
		case AOpaque:
			return "errors.New"
		}
		return "other:" + describeAV(v)
	case ARef:
		// result of which call?
		for _, cr := range ci.an.calls {
			if t, ok := cr.res.(ATuple); ok {
				for _, e := range t {
					if r, ok := e.(ARef); ok && r.key == x.key {
						return ci.callClass(cr)
					}
				}
			}
			if r, ok := cr.res.(ARef); ok && r.key == x.key {
				return ci.callClass(cr)
			}
		}
	}
	return "other:" + describeAV(v)
}

func (ci *clientInfo) callClass(cr *CallRec) string {
	switch {
	case cr.method == "Err":
		return "ctx.Err"
	case cr.method != "" && ci.isField(cr.recv, ci.transport):
		return "raw-transport:" + cr.method
	case cr.method != "":
		return "raw-invoke:" + cr.method
	case cr.dyn != nil && ci.isField(cr.dyn, ci.parse):
		return "parseResponseFunc"
	case cr.dyn != nil && ci.isField(cr.dyn, ci.asErr):
		return "asProtocolErrorFunc"
	case cr.callee != nil:
		return "call:" + cr.callee.Name()
	}
	return "unknown-call"
}

func fmtAff(a Aff) string { return a.String() }

var _ = fmt.Sprintf

// clientControls runs the read-loop rule sets on the miniature clients of the controls module:
// Good must stay silent, Bad must fire the named signature of every rule family.
func clientControls(c *Ctx, r *Report, prop string) {
	good := analyseClientIn(c, "cclient", "Good", false)
	bad := analyseClientIn(c, "cclient", "Bad", false)
	all := func(ci *clientInfo) map[string]bool {
		out := map[string]bool{}
		for k := range c07Loop(c, nil, ci, true) {
			out["C07/"+k] = true
		}
		for k := range c08Client(c, nil, ci, true) {
			out["C08/"+k] = true
		}
		for k := range c19Client(c, nil, ci, true) {
			out["C19/"+k] = true
		}
		return out
	}
	g, b := all(good), all(bad)
	if os.Getenv("MBDBG") != "" {
		fmt.Fprintf(os.Stderr, "client controls good=%v\nbad=%v\n", g, b)
	}
	r.controls[prop+"/client-negative-control-silent"] = len(g) == 0
	want := map[string][]string{
		"C07": {"C07/R7.3:recogniser-arg", "C07/R7.2:result-copy"},
		"C08": {"C08/R8.1:timer-in-loop", "C08/R8.4:oversize-condition", "C08/R8.3:class:raw-transport:SetWriteDeadline", "C08/R8.3:cause-not-wrapped"},
		"C19": {"C19/R19.1:beforewrite-arg", "C19/R19.2:afterread-chunk", "C19/R19.3:beforeparse-on-error"},
		"C12": {"C07/R7.3:recogniser-arg"},
		"C14": {"C07/R7.2:result-copy"},
		"C02": {"C07/R7.3:recogniser-arg"},
	}
	for _, k := range want[prop] {
		r.controls[prop+"/"+k] = b[k]
	}
}

func init() {
	for _, p := range []string{"C07", "C08", "C12", "C14", "C19"} {
		prop := p
		prev := controls[prop]
		controls[prop] = func(c *Ctx, r *Report) {
			if prev != nil {
				prev(c, r)
			}
			clientControls(c, r, prop)
		}
	}
}

// within: f is anc or a frame inlined (transitively) under anc.
func (f *Frame) within(anc *Frame) bool {
	for x := f; x != nil; x = x.parent {
		if x == anc {
			return true
		}
	}
	return false
}

// liftTo returns the instruction of anc's function through which the call cr was reached: the
// call itself, or the call of the helper (inlined under anc) that contains it.
func liftTo(anc *Frame, cr *CallRec) ssa.Instruction {
	if cr.frame == anc {
		return cr.instr
	}
	x := cr.frame
	for x.parent != nil && x.parent != anc {
		x = x.parent
	}
	if x.parent != anc {
		return nil
	}
	for ci, ch := range anc.child {
		if ch == x {
			return ci.(ssa.Instruction)
		}
	}
	return nil
}

// childOfCall: the inlined frame of the call that produced the (merged) value v, if any.
func (ci *clientInfo) childOfCall(v AV) *Frame {
	ref, ok := v.(ARef)
	if !ok {
		return nil
	}
	for _, cr := range ci.an.calls {
		hit := false
		if t, ok := cr.res.(ATuple); ok {
			for _, e := range t {
				if r, ok := e.(ARef); ok && r.key == ref.key {
					hit = true
				}
			}
		}
		if r, ok := cr.res.(ARef); ok && r.key == ref.key {
			hit = true
		}
		if hit && cr.callee != nil {
			if ch := cr.frame.child[cr.instr]; ch != nil {
				return ch
			}
		}
	}
	return nil
}

// inTop: the call was made in Do's own part of the exchange: in Do or a helper inlined under it,
// but not inside do (the read loop function).
func (ci *clientInfo) inTop(cr *CallRec) bool {
	return cr.frame.within(ci.top) && !(ci.inner != nil && cr.frame.within(ci.inner))
}
