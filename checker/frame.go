package main

// Context-sensitive abstract interpretation of one SSA function ("frame"): values,
// path facts (DNF), memory objects, obligations. DESIGN 1.2–1.4.

import (
	"fmt"
	"go/token"
	"go/types"
	"os"
	"sort"
	"strings"

	"golang.org/x/tools/go/ssa"
	"golang.org/x/tools/go/ssa/ssautil"
)

var debugTrace = os.Getenv("MBTRACE") != ""

const maxDepth = 5
const dnfCap = 32

// Oblig is one proof obligation generated at a site.
type Oblig struct {
	kind    string // "index", "slice", "make", "assert", "wrap", "binary"
	fn      *ssa.Function
	root    *ssa.Function // top-level function of the analysis
	pos     token.Pos
	desc    string
	ok      bool
	facts   string
	goal    string
	onRoots []string // roots involved (e.g. the input parameter)
	depth   int
	chain   string
}

// WrapEvent records a narrow-typed arithmetic result that may wrap and was used.
type WrapEvent struct {
	fn   *ssa.Function
	pos  string
	what string
	use  string
}

type Analysis struct {
	seq     int // evaluation order of stores (orderedLoad)
	ctx     *Ctx
	u       *Universe
	top     *ssa.Function
	obligs  []*Oblig
	wraps   []WrapEvent
	undec   []string
	quiet   int
	nframes int
	widened int // number of times a path state was widened (compress over dnfCap)
	// global facts about symbols (reader contracts etc.)
	global Conj
	// hooks
	onCall func(f *Frame, c ssa.CallInstruction, callee *ssa.Function, args []AV)
	// uninterp: module functions treated as uninterpreted (result symbol keyed by the
	// canonical description of the arguments); each call is recorded
	uninterp map[*ssa.Function]string
	ucalls   []UCall
	// noInline: module functions that are not interpreted (treated as opaque, still logged)
	noInline func(*ssa.Function) bool
	// logCalls: record every evaluated call (static, invoke, dynamic) with its abstract arguments
	logCalls bool
	calls    []*CallRec
}

// UCall is one recorded call of an uninterpreted function.
type UCall struct {
	fn     *ssa.Function
	args   []AV
	res    AV
	state  DNF
	pos    token.Pos
	frame  *Frame
	nwrite map[*Root]int // number of writes each argument root had when the call happened
}

// CallRec is one evaluated call instruction.
type CallRec struct {
	instr  *ssa.Call
	frame  *Frame
	callee *ssa.Function // static callee, if any
	method string        // interface method name for invoke calls
	dyn    AV            // called value for dynamic calls
	recv   AV            // receiver of an invoke call
	args   []AV
	res    AV
	state  DNF
	ghost  map[string]ghostBuf // ghost state before the call
}

type ReturnSite struct {
	instr *ssa.Return
	state DNF
	vals  []AV
	ghost map[string]ghostBuf
}

type Frame struct {
	an      *Analysis
	fn      *ssa.Function
	parent  *Frame
	depth   int
	key     string
	vals    map[ssa.Value]AV
	objs    map[*ssa.Alloc]*Obj
	storeN  map[*ssa.Alloc]map[string]int
	escaped map[*ssa.Alloc]bool
	// sharedAlloc: allocs whose address is handed to an inlined callee (prescan)
	sharedAlloc map[*ssa.Alloc]bool
	// copy-loop idioms of this function and whether the summary write was emitted this pass
	copyStores map[*ssa.Store]*copyLoop
	// values of the captured variables of the function literal about to be inlined
	pendingFree []AV
	// forEachPathValue plumbing (orderedLoad)
	eachPick func(Conj, AV) bool
	eachOK   bool
	edge       map[[2]int]DNF
	blockIn    map[int]DNF
	returns    []ReturnSite
	cur        DNF
	curBlk     *ssa.BasicBlock
	curInstr   ssa.Instruction
	phiInv     map[*ssa.Phi]Conj
	final      bool
	// states at instructions of interest
	stateAt map[ssa.Instruction]DNF
	child   map[ssa.CallInstruction]*Frame
	// ghost state of modelled library objects (bytes.Buffer): current length and content root
	ghost        map[string]ghostBuf
	ghostOut     map[int]map[string]ghostBuf
	ghostEntry   map[string]ghostBuf
	ghostTouched map[string]bool
}

// ghostBuf is the abstract state of a bytes.Buffer: unread length and the root holding the
// unread bytes (offset 0 of the root = next unread byte).
type ghostBuf struct {
	ln   Aff
	root *Root
	ver  int
}

func copyGhost(m map[string]ghostBuf) map[string]ghostBuf {
	r := make(map[string]ghostBuf, len(m))
	for k, v := range m {
		r[k] = v
	}
	return r
}

// ghostOf returns (creating on first use) the ghost state of the buffer identified by key.
func (f *Frame) ghostOf(key string) ghostBuf {
	if g, ok := f.ghost[key]; ok {
		return g
	}
	ln := f.an.u.sym("buflen("+key+")", 0, maxLen)
	g := ghostBuf{ln: affSym(ln), root: &Root{key: "buf(" + key + ")", ln: affSym(ln)}}
	f.ghost[key] = g
	return g
}

func (an *Analysis) newFrame(fn *ssa.Function, parent *Frame, args []AV) *Frame {
	f := &Frame{an: an, fn: fn, parent: parent, vals: map[ssa.Value]AV{}, objs: map[*ssa.Alloc]*Obj{},
		edge: map[[2]int]DNF{}, blockIn: map[int]DNF{}, phiInv: map[*ssa.Phi]Conj{},
		stateAt: map[ssa.Instruction]DNF{}, child: map[ssa.CallInstruction]*Frame{}, ghost: map[string]ghostBuf{}, ghostOut: map[int]map[string]ghostBuf{}}
	if parent != nil {
		f.ghost = copyGhost(parent.ghost)
	}
	an.nframes++
	if parent != nil {
		f.depth = parent.depth + 1
		f.key = fmt.Sprintf("%s%s@%d/", parent.key, fn.Name(), an.nframes)
	}
	for i, p := range fn.Params {
		if i < len(args) && args[i] != nil {
			f.vals[p] = args[i]
		} else {
			f.vals[p] = an.u.symbolic(f.key+p.Name(), p.Type())
		}
	}
	for _, fv := range fn.FreeVars {
		f.vals[fv] = an.u.symbolic(f.key+"free:"+fv.Name(), fv.Type())
	}
	f.prescan()
	f.copyStores = findCopyLoops(fn)
	return f
}

func (f *Frame) posStr(p token.Pos) string {
	if !p.IsValid() {
		return f.fn.String()
	}
	pp := f.an.ctx.fset.Position(p)
	return fmt.Sprintf("%s:%d", relPath(pp.Filename), pp.Line)
}

// prescan counts stores per (alloc, path) and detects escaping allocs.
func (f *Frame) prescan() {
	f.storeN = map[*ssa.Alloc]map[string]int{}
	f.escaped = map[*ssa.Alloc]bool{}
	var walk func(a *ssa.Alloc, v ssa.Value, path string)
	walk = func(a *ssa.Alloc, v ssa.Value, path string) {
		refs := v.Referrers()
		if refs == nil {
			return
		}
		for _, r := range *refs {
			switch x := r.(type) {
			case *ssa.Store:
				if x.Addr == v {
					f.storeN[a][path]++
				} else {
					f.escaped[a] = true // address stored somewhere
				}
			case *ssa.FieldAddr:
				walk(a, x, pathStr(path, x.Field))
			case *ssa.IndexAddr:
				if x.X == v {
					walk(a, x, path+"[]")
				}
			case *ssa.UnOp, *ssa.Slice, *ssa.DebugRef:
			case *ssa.Return, *ssa.MakeInterface:
			case *ssa.MakeClosure:
				// captured by a closure that only reads it: nobody else can change the cell, so this
				// function's own loads still see its own stores
				fn2, isFn := x.Fn.(*ssa.Function)
				ro := isFn
				for i, bv := range x.Bindings {
					if bv == v && (path != "" || !isFn || i >= len(fn2.FreeVars) || !freeVarReadOnly(fn2.FreeVars[i], 0)) {
						ro = false
					}
				}
				if !ro {
					f.escaped[a] = true
				} else {
					if f.sharedAlloc == nil {
						f.sharedAlloc = map[*ssa.Alloc]bool{}
					}
					f.sharedAlloc[a] = true
				}
			case *ssa.Call:
				// handing the address to a function of the module that will be evaluated inline (its
				// stores are then seen in this analysis) and that keeps the pointer to itself is not
				// an escape
				if !f.passedToInlined(x, v, 0) {
					f.escaped[a] = true
				} else {
					if f.sharedAlloc == nil {
						f.sharedAlloc = map[*ssa.Alloc]bool{}
					}
					f.sharedAlloc[a] = true
				}
			default:
				f.escaped[a] = true
			}
		}
	}
	for _, b := range f.fn.Blocks {
		for _, in := range b.Instrs {
			if a, ok := in.(*ssa.Alloc); ok {
				f.storeN[a] = map[string]int{}
				walk(a, a, "")
			}
		}
	}
}

func rpo(fn *ssa.Function) []*ssa.BasicBlock {
	seen := map[*ssa.BasicBlock]bool{}
	var post []*ssa.BasicBlock
	var dfs func(b *ssa.BasicBlock)
	dfs = func(b *ssa.BasicBlock) {
		seen[b] = true
		for _, s := range b.Succs {
			if !seen[s] {
				dfs(s)
			}
		}
		post = append(post, b)
	}
	if len(fn.Blocks) > 0 {
		dfs(fn.Blocks[0])
	}
	for i, j := 0, len(post)-1; i < j; i, j = i+1, j-1 {
		post[i], post[j] = post[j], post[i]
	}
	return post
}

func isBackEdge(p, b *ssa.BasicBlock) bool { return b.Dominates(p) }

// run analyses the frame from the given entry state.
func (f *Frame) run(entry DNF) {
	if len(f.fn.Blocks) == 0 {
		return
	}
	order := rpo(f.fn)
	hasLoop := false
	for _, b := range order {
		for _, p := range b.Preds {
			if isBackEdge(p, b) {
				hasLoop = true
			}
		}
	}
	passes := 1
	if hasLoop {
		passes = 3
	}
	for pass := 0; pass < passes; pass++ {
		f.final = pass == passes-1
		if !f.final {
			f.an.quiet++
		}
		f.returns = nil
		f.edge = map[[2]int]DNF{}
		for _, b := range order {
			var in DNF
			if b == f.fn.Blocks[0] {
				in = entry
			} else {
				for _, p := range b.Preds {
					if isBackEdge(p, b) {
						continue
					}
					es, ok := f.edge[[2]int{p.Index, b.Index}]
					if !ok {
						continue
					}
					in = append(in, f.bindPhis(b, p, es)...)
				}
			}
			isHeader := false
			for _, p := range b.Preds {
				if isBackEdge(p, b) {
					isHeader = true
				}
			}
			if isHeader {
				in = f.headerState(b, in)
			}
			f.cur = f.compress(in)
			f.blockIn[b.Index] = f.cur
			f.curBlk = b
			if b != f.fn.Blocks[0] {
				f.ghost = f.mergeGhost(b)
			} else if pass > 0 {
				f.ghost = copyGhost(f.ghostEntry)
			}
			if b == f.fn.Blocks[0] && pass == 0 {
				f.ghostEntry = copyGhost(f.ghost)
			}
			for _, in := range b.Instrs {
				f.step(in)
			}
			f.ghostOut[b.Index] = copyGhost(f.ghost)
		}
		if !f.final {
			f.an.quiet--
			f.inferPhiInvariants(order)
		}
	}
}

// headerState builds the state at a loop header: facts from forward predecessors that do
// not mention the header's phis, plus inferred invariants for the phis.
func (f *Frame) headerState(b *ssa.BasicBlock, fwd DNF) DNF {
	phiSyms := map[*Sym]bool{}
	for _, in := range b.Instrs {
		ph, ok := in.(*ssa.Phi)
		if !ok {
			break
		}
		f.phiValue(ph) // ensure symbol exists
		for _, s := range f.phiSymsOf(ph) {
			phiSyms[s] = true
		}
	}
	var out DNF
	for _, c := range fwd {
		var nc Conj
		for _, a := range c {
			mention := false
			for _, t := range a.a.terms {
				if phiSyms[t.s] {
					mention = true
				}
			}
			if !mention {
				nc = append(nc, a)
			}
		}
		for _, in := range b.Instrs {
			ph, ok := in.(*ssa.Phi)
			if !ok {
				break
			}
			nc = nc.with(f.phiInv[ph]...)
		}
		out = append(out, nc)
	}
	return out
}

func (f *Frame) phiSymsOf(ph *ssa.Phi) []*Sym {
	var r []*Sym
	switch v := f.vals[ph].(type) {
	case AInt:
		for _, t := range v.a.terms {
			r = append(r, t.s)
		}
	case ASlice:
		m := map[*Sym]bool{}
		v.ln.syms(m)
		v.off.syms(m)
		for s := range m {
			r = append(r, s)
		}
		if v.nilSym != nil {
			r = append(r, v.nilSym)
		}
	case ABool:
		// a loop-carried boolean: its symbol must not keep the value of the entry edge
		m := map[*Sym]bool{}
		collectFormSyms(v.f, m)
		for s := range m {
			r = append(r, s)
		}
	case ARef:
		for _, s := range []*Sym{v.nilSym, v.deepNil, v.idSym} {
			if s != nil {
				r = append(r, s)
			}
		}
	}
	return r
}

// inferPhiInvariants derives invariants for integer header phis from the previous pass:
// (1) counter pattern phi(init, phi+d) with d >= 0 on every back edge gives phi >= init;
// (2) any single-symbol atom that holds for the back-edge value at the latch and for the
// initial value is an invariant of the phi.
func (f *Frame) inferPhiInvariants(order []*ssa.BasicBlock) {
	for _, b := range order {
		for _, in := range b.Instrs {
			ph, ok := in.(*ssa.Phi)
			if !ok {
				break
			}
			pv, ok := f.vals[ph].(AInt)
			if !ok || len(pv.a.terms) != 1 {
				continue
			}
			psym := pv.a.terms[0].s
			var inits []Aff
			var backs []struct {
				a  Aff
				st DNF
			}
			okAll := true
			for i, p := range b.Preds {
				ev, isInt := f.vals[ph.Edges[i]].(AInt)
				if c, isC := ph.Edges[i].(*ssa.Const); isC && !isInt {
					if av, ok2 := f.constVal(c).(AInt); ok2 {
						ev, isInt = av, true
					}
				}
				if !isInt {
					okAll = false
					break
				}
				st := f.edge[[2]int{p.Index, b.Index}]
				if isBackEdge(p, b) {
					if len(ev.conds) > 0 {
						// the back-edge value must be exact under the latch state
						exact := true
						for _, c := range ev.conds {
							if !st.entails(atomGE(c.a, affConst(c.lo))) || !st.entails(atomLE(c.a, affConst(c.hi))) {
								exact = false
							}
						}
						if !exact {
							okAll = false
							break
						}
					}
					backs = append(backs, struct {
						a  Aff
						st DNF
					}{ev.a, st})
				} else {
					if len(ev.conds) > 0 {
						okAll = false
						break
					}
					inits = append(inits, ev.a)
				}
			}
			if !okAll || len(backs) == 0 || len(inits) == 0 {
				continue
			}
			var inv Conj
			// candidate atoms: phi >= init (for each init if all inits equal), plus atoms from latch states
			cands := []Atom{}
			if len(inits) == 1 {
				cands = append(cands, atomGE(affSym(psym), inits[0]), atomLE(affSym(psym), inits[0]))
			}
			for _, bk := range backs {
				for _, c := range bk.st {
					for _, a := range c {
						// a mentions the back value? re-express: find atoms whose affine form, after
						// substituting back-value := phi, is over phi and other loop-invariant symbols.
						cands = append(cands, f.reexpress(a, bk.a, psym)...)
					}
				}
			}
			seen := map[string]bool{}
			for _, cand := range cands {
				k := cand.String()
				if seen[k] {
					continue
				}
				seen[k] = true
				if cand.a.coef(psym) == 0 {
					continue
				}
				// holds initially?
				holds := true
				for _, ini := range inits {
					inst := Atom{cand.op, cand.a.subst(psym, ini)}
					if !f.blockInForInit(b).entails(inst) {
						holds = false
					}
				}
				if !holds {
					continue
				}
				// holds for the back-edge value at every latch, assuming it holds for phi at the
				// header (it is part of the latch state only if it was derived independently, so we
				// additionally allow the inductive step: latch state ∧ cand(phi) ⊨ cand(back))
				ind := true
				for _, bk := range backs {
					inst := Atom{cand.op, cand.a.subst(psym, bk.a)}
					st := dnfAnd(bk.st, DNF{Conj{cand}})
					if !st.entails(inst) {
						ind = false
					}
				}
				if ind {
					inv = inv.with(cand)
				}
			}
			f.phiInv[ph] = inv
		}
	}
}

// blockInForInit: state on forward entry to header b (without phi facts).
func (f *Frame) blockInForInit(b *ssa.BasicBlock) DNF {
	var in DNF
	for _, p := range b.Preds {
		if !isBackEdge(p, b) {
			in = append(in, f.edge[[2]int{p.Index, b.Index}]...)
		}
	}
	if len(in) == 0 {
		return dnfTrue()
	}
	return in
}

// reexpress: given atom a true at the latch and the back-edge value back = k*phi + rest...,
// produce candidate atoms over phi obtained by replacing `back` with phi when a is a
// bound on `back` only (a = ±back + const-ish).
func (f *Frame) reexpress(a Atom, back Aff, phi *Sym) []Atom {
	if a.op == opNE {
		return nil
	}
	// try: a.a = m*back + r where r has no symbol of back
	for _, m := range []int64{1, -1} {
		r := a.a.sub(back.scale(m))
		shares := false
		for _, t := range r.terms {
			if back.coef(t.s) != 0 {
				shares = true
			}
		}
		if shares {
			continue
		}
		return []Atom{{a.op, affSym(phi).scale(m).add(r)}}
	}
	return nil
}

// compress1 drops infeasible and duplicate disjuncts (no widening).
func (f *Frame) compress1(d DNF) DNF {
	var out DNF
	seen := map[string]bool{}
	for _, c := range d {
		k := c.String()
		if seen[k] {
			continue
		}
		seen[k] = true
		if infeasible(c) {
			continue
		}
		out = append(out, c)
	}
	return out
}

// compress drops infeasible disjuncts, removes duplicates and caps the DNF size.
func (f *Frame) compress(d DNF) DNF {
	var out DNF
	seen := map[string]bool{}
	for _, c := range d {
		k := c.String()
		if seen[k] {
			continue
		}
		seen[k] = true
		if infeasible(c.with(f.an.global...)) {
			if debugTrace {
				fmt.Printf("DROP[%s] %s\n", f.fn.Name(), c.String())
			}
			continue
		}
		out = append(out, c)
	}
	if len(out) > dnfCap {
		f.an.widened++
		// group disjuncts by their boolean-flag atoms (nil-ness of results, ok flags) and keep,
		// per group, only the atoms common to the whole group: correlations between flags
		// survive, numeric detail is widened
		groups := map[string]DNF{}
		var order []string
		for _, c := range out {
			var flags []string
			for _, a := range c {
				allBool := len(a.a.terms) > 0
				for _, t := range a.a.terms {
					if !t.s.isBool {
						allBool = false
					}
				}
				if allBool {
					flags = append(flags, a.String())
				}
			}
			sort.Strings(flags)
			k := strings.Join(flags, "&")
			if _, ok := groups[k]; !ok {
				order = append(order, k)
			}
			groups[k] = append(groups[k], c)
		}
		var merged DNF
		for _, k := range order {
			merged = append(merged, commonAtoms(groups[k]))
		}
		if len(merged) > dnfCap {
			merged = DNF{commonAtoms(merged)}
		}
		out = merged
	}
	return out
}

func commonAtoms(d DNF) Conj {
	var common Conj
	for _, a := range d[0] {
		all := true
		for _, c := range d[1:] {
			found := false
			for _, b := range c {
				if a.op == b.op && a.a.equal(b.a) {
					found = true
					break
				}
			}
			if !found {
				all = false
				break
			}
		}
		if all {
			common = append(common, a)
		}
	}
	return common
}

// assume conjoins facts that hold from this program point on (e.g. the contract of a
// call result) to the current state.
func (f *Frame) assume(atoms ...Atom) {
	for i, c := range f.cur {
		f.cur[i] = c.with(atoms...)
	}
}

func (f *Frame) state() DNF {
	// include global facts
	if len(f.an.global) == 0 {
		return f.cur
	}
	out := make(DNF, len(f.cur))
	for i, c := range f.cur {
		out[i] = c.with(f.an.global...)
	}
	return out
}

// ---- values ----

func (f *Frame) constVal(c *ssa.Const) AV {
	t := c.Type()
	if c.Value == nil {
		return zeroValueNil(t)
	}
	if isIntType(t) {
		return AInt{a: affConst(c.Int64())}
	}
	if isBoolType(t) {
		return ABool{formConst(c.Value.String() == "true")}
	}
	if isFloatType(t) {
		fl := c.Float64()
		if fl == float64(int64(fl)) {
			return AFloat{num: AInt{a: affConst(int64(fl))}, den: 1}
		}
	}
	return AOpaque{"const:" + c.Value.String(), t}
}

func zeroValueNil(t types.Type) AV {
	switch t.Underlying().(type) {
	case *types.Slice:
		return zeroValue(t)
	case *types.Pointer:
		return APtr{null: true, typ: t}
	}
	return zeroValue(t)
}

func (f *Frame) val(v ssa.Value) AV {
	switch x := v.(type) {
	case *ssa.Const:
		return f.constVal(x)
	case *ssa.Function:
		return AFunc{fn: x}
	case *ssa.Global:
		return AGlobal{x}
	case *ssa.Builtin:
		return AOpaque{"builtin:" + x.Name(), nil}
	}
	if av, ok := f.vals[v]; ok {
		return av
	}
	av := f.an.u.symbolic(f.key+v.Name(), v.Type())
	f.vals[v] = av
	return av
}

// use returns the exact affine form of an integer value under the current facts, or its
// opaque fallback when a wrap condition cannot be proven.
func (f *Frame) use(ai AInt, where string) Aff {
	return f.useIn(ai, f.state(), where)
}

func (f *Frame) useIn(ai AInt, st DNF, where string) Aff {
	if len(ai.conds) == 0 {
		return ai.a
	}
	for _, c := range ai.conds {
		if !st.entails(atomGE(c.a, affConst(c.lo))) || !st.entails(atomLE(c.a, affConst(c.hi))) {
			// a merge of control flow is not a use: the merged value becomes the in-range unknown
			// below and whatever later depends on it has to be proven about that unknown
			if f.an.quiet == 0 && len(st) > 0 && where != "phi/merge" {
				f.an.wraps = append(f.an.wraps, WrapEvent{fn: f.fn, pos: c.pos, what: c.what, use: where})
				if debugTrace {
					fmt.Printf("WRAPFAIL %s: %s in [%d,%d] at %s\n   state=%s\n", where, c.a.String(), c.lo, c.hi, c.pos, truncate(st.String(), 1500))
				}
			}
			if ai.fallback != nil {
				return affSym(ai.fallback)
			}
			return affSym(f.an.u.sym("wrapped("+c.what+"@"+c.pos+")", -bigNum, bigNum))
		}
	}
	return ai.a
}

func (f *Frame) intVal(v ssa.Value) (AInt, bool) {
	ai, ok := f.val(v).(AInt)
	return ai, ok
}

// nilness returns a formula for "v is nil".
func (f *Frame) nilness(av AV) *Form {
	switch x := av.(type) {
	case ANil:
		return formConst(true)
	case APtr:
		if x.null {
			return formConst(true)
		}
		if x.obj != nil && x.obj.symbolic && x.path == "" {
			// pointer parameter: may be nil
			s := f.an.u.boolSym("nil(" + x.obj.key + ")")
			return formAtom(atomEQ(affSym(s), affConst(1)))
		}
		return formConst(false)
	case ASlice:
		if x.isNil {
			return formConst(true)
		}
		if x.nilSym != nil {
			// a nil slice has length 0
			return &Form{kind: fPair,
				pos: DNF{Conj{atomEQ(affSym(x.nilSym), affConst(1)), atomEQ(x.ln, affConst(0))}},
				neg: DNF{Conj{atomEQ(affSym(x.nilSym), affConst(0))}}}
		}
		return formConst(false)
	case AIface:
		return formConst(false)
	case AGlobalVal:
		if x.nonNil {
			return formConst(false)
		}
		s := f.an.u.boolSym("nil(global:" + x.g.String() + ")")
		return formAtom(atomEQ(affSym(s), affConst(1)))
	case ARef:
		if x.nilSym != nil {
			return formAtom(atomEQ(affSym(x.nilSym), affConst(1)))
		}
	case AFunc, AFuncSet:
		return formConst(false)
	case AOpaque:
		s := f.an.u.boolSym("nil(" + x.key + ")")
		return formAtom(atomEQ(affSym(s), affConst(1)))
	}
	s := f.an.u.boolSym(fmt.Sprintf("nil(?%p)", av))
	return formAtom(atomEQ(affSym(s), affConst(1)))
}

// ARef is an opaque reference-like value (interface, pointer, func) with a nil-ness symbol,
// optionally carrying the single known non-nil value it may hold.
type ARef struct {
	key    string
	nilSym *Sym
	// deepNil: "is nil, or is an interface boxing a nil pointer" (only for merged interface values)
	deepNil *Sym
	inner   AV
	typ     types.Type
	// idSym: identity of the referenced value (0 = nil, k = interned description of a concrete
	// value); bound per incoming site so that == comparisons with concrete values correlate
	idSym *Sym
	// dynamic types the (non-nil) value may have; dynUnknown if some source is opaque
	dynTypes   []types.Type
	dynUnknown bool
}

// identityOf returns the interned identity number of a concrete reference value, or 0,false.
func (u *Universe) identityOf(v AV) (int64, bool) {
	var key string
	switch x := v.(type) {
	case ANil:
		return 0, true
	case AIface:
		switch p := x.val.(type) {
		case AGlobalVal:
			key = "global:" + p.g.String()
		case APtr:
			if p.obj != nil && !p.obj.symbolic {
				key = "obj:" + p.obj.key
			}
		case AGlobal:
			key = "addr:" + p.g.String()
		}
	case AGlobalVal:
		key = "global:" + x.g.String()
	case APtr:
		if x.null {
			return 0, true
		}
		if x.obj != nil && !x.obj.symbolic && x.path == "" {
			key = "obj:" + x.obj.key
		}
	}
	if key == "" {
		return 0, false
	}
	if u.ids == nil {
		u.ids = map[string]int64{}
	}
	if id, ok := u.ids[key]; ok {
		return id, true
	}
	id := int64(len(u.ids) + 1)
	u.ids[key] = id
	return id, true
}

func dynTypesOf(v AV) (ts []types.Type, unknown bool) {
	switch x := v.(type) {
	case ANil:
		return nil, false
	case AIface:
		if x.typ == nil || x.typ == types.Typ[types.Invalid] {
			return nil, true
		}
		return []types.Type{x.typ}, false
	case ARef:
		return x.dynTypes, x.dynUnknown || (x.dynTypes == nil && x.idSym == nil)
	case APtr:
		if x.null {
			return nil, false
		}
	}
	return nil, true
}

func (f *Frame) newRef(key string, t types.Type) ARef {
	return ARef{key: key, nilSym: f.an.u.boolSym("nil(" + key + ")"), typ: t}
}

// ---- instruction step ----

func (f *Frame) set(v ssa.Value, av AV) { f.vals[v] = av }

func (f *Frame) step(in ssa.Instruction) {
	f.curInstr = in
	switch x := in.(type) {
	case *ssa.Phi:
		f.phiValue(x)
	case *ssa.BinOp:
		f.set(x, f.binop(x))
	case *ssa.UnOp:
		f.set(x, f.unop(x))
	case *ssa.Convert:
		f.set(x, f.convert(x, x.X, x.Type()))
	case *ssa.ChangeType:
		f.set(x, f.convert(x, x.X, x.Type()))
	case *ssa.ChangeInterface:
		f.set(x, f.val(x.X))
	case *ssa.MakeInterface:
		f.set(x, AIface{val: f.val(x.X), typ: x.X.Type()})
	case *ssa.Alloc:
		f.alloc(x)
	case *ssa.FieldAddr:
		base := f.val(x.X)
		if p, ok := base.(APtr); ok && p.obj != nil {
			st, _ := deref(x.X.Type()).Underlying().(*types.Struct)
			var ft types.Type
			if st != nil {
				ft = st.Field(x.Field).Type()
			}
			f.set(x, APtr{obj: p.obj, path: pathStr(p.path, x.Field), typ: ft})
		} else if p, ok := base.(APtr); ok && p.tbl != nil && p.idx != nil {
			st, _ := deref(x.X.Type()).Underlying().(*types.Struct)
			var ft types.Type
			if st != nil {
				ft = st.Field(x.Field).Type()
			}
			f.set(x, APtr{tbl: p.tbl, idx: p.idx, path: pathStr(p.path, x.Field), typ: ft})
		} else if p, ok := base.(APtr); ok && p.slice != nil && p.idx != nil {
			// a field of an element of a slice of structs: element pointer plus field path
			st, _ := deref(x.X.Type()).Underlying().(*types.Struct)
			var ft types.Type
			if st != nil {
				ft = st.Field(x.Field).Type()
			}
			f.set(x, APtr{slice: p.slice, idx: p.idx, path: pathStr(p.path, x.Field), typ: ft})
		} else if r, ok := base.(ARef); ok {
			if p, ok := r.inner.(APtr); ok && p.obj != nil {
				st, _ := deref(x.X.Type()).Underlying().(*types.Struct)
				f.set(x, APtr{obj: p.obj, path: pathStr(p.path, x.Field), typ: st.Field(x.Field).Type()})
			} else {
				f.set(x, APtr{obj: &Obj{key: r.key, symbolic: true}, path: pathStr("", x.Field), typ: x.Type()})
			}
		} else {
			f.set(x, AOpaque{f.key + x.Name(), x.Type()})
		}
	case *ssa.Field:
		f.set(x, f.an.u.fieldOf(f.val(x.X), x.Field))
	case *ssa.IndexAddr:
		f.indexAddr(x)
	case *ssa.Index:
		// index into an array value (or string): still a bounds obligation
		f.arrayIndexOblig(x.X.Type(), x.Index, x.Pos(), x.X.Name())
		if tbl := f.tableOfValue(x.X); tbl != nil && !tbl.isMap {
			if k, ok := f.intVal(x.Index); ok {
				f.set(x, f.tableValue(tbl, AInt{a: f.use(k, "index")}, "", x.Type(), x.Name()))
				break
			}
		}
		f.set(x, f.an.u.symbolic(f.key+x.Name(), x.Type()))
	case *ssa.Slice:
		f.sliceOp(x)
	case *ssa.MakeSlice:
		f.makeSlice(x)
	case *ssa.Store:
		f.stateAt[x] = f.cur
		f.store(x)
	case *ssa.Call:
		f.set(x, f.call(x))
	case *ssa.Extract:
		if t, ok := f.val(x.Tuple).(ATuple); ok && x.Index < len(t) {
			f.set(x, t[x.Index])
		} else if sel, isSel := x.Tuple.(*ssa.Select); isSel && x.Index == 0 {
			// the index of the chosen case: 0..n-1, or -1 for the default of a non-blocking select
			lo := int64(0)
			if !sel.Blocking {
				lo = -1
			}
			f.set(x, AInt{a: affSym(f.an.u.sym(f.key+x.Name(), lo, int64(len(sel.States))-1))})
		} else {
			f.set(x, f.an.u.symbolic(f.key+x.Name(), x.Type()))
		}
	case *ssa.TypeAssert:
		f.typeAssert(x)
	case *ssa.If:
		f.branch(x)
	case *ssa.Jump:
		b := x.Block()
		f.edge[[2]int{b.Index, b.Succs[0].Index}] = f.cur
	case *ssa.Return:
		vals := make([]AV, len(x.Results))
		for i, r := range x.Results {
			vals[i] = f.val(r)
		}
		f.returns = append(f.returns, ReturnSite{instr: x, state: f.cur, vals: vals, ghost: copyGhost(f.ghost)})
		f.stateAt[x] = f.cur
	case *ssa.Panic:
		f.stateAt[x] = f.cur
	case *ssa.Defer, *ssa.Go:
		f.stateAt[in] = f.cur
	case *ssa.RunDefers, *ssa.DebugRef, *ssa.Send, *ssa.MapUpdate:
	case *ssa.Select:
		f.set(x, f.an.u.symbolic(f.key+x.Name(), x.Type()))
	case *ssa.MakeClosure:
		fv := AFunc{fn: x.Fn.(*ssa.Function)}
		if strings.HasPrefix(fv.fn.Synthetic, "bound method wrapper") && len(x.Bindings) == 1 {
			fv.recv = f.val(x.Bindings[0])
		} else {
			for _, b := range x.Bindings {
				fv.free = append(fv.free, f.val(b))
			}
		}
		f.set(x, fv)
	case *ssa.Lookup:
		if tbl := f.tableOfValue(x.X); tbl != nil && tbl.isMap && !x.CommaOk {
			if k, ok := f.intVal(x.Index); ok {
				f.set(x, f.tableValue(tbl, AInt{a: f.use(k, "map key")}, "", x.Type(), x.Name()))
				break
			}
			// a table of functions keyed by a boolean: the entry for a constant key, the pair otherwise
			if kb, ok := f.val(x.Index).(ABool); ok {
				if _, isFn := x.Type().Underlying().(*types.Signature); isFn {
					vf, okf := f.tableValue(tbl, AInt{a: affConst(0)}, "", x.Type(), x.Name()).(AFunc)
					vt, okt := f.tableValue(tbl, AInt{a: affConst(1)}, "", x.Type(), x.Name()).(AFunc)
					if okf && okt {
						if kb.f.kind == fConst {
							if kb.f.b {
								f.set(x, vt)
							} else {
								f.set(x, vf)
							}
							break
						}
						sel := f.an.u.sym(f.key+"sel:"+x.Name(), 0, 1)
						pos := dnfAnd(DNF{Conj{atomEQ(affSym(sel), affConst(1))}}, kb.f.dnf(false))
						neg := dnfAnd(DNF{Conj{atomEQ(affSym(sel), affConst(0))}}, kb.f.dnf(true))
						f.cur = f.compress(dnfAnd(f.cur, append(pos, neg...)))
						f.set(x, AFuncSet{key: f.key + x.Name(), alts: []AFunc{vf, vt}, sel: sel})
						break
					}
				}
			}
			// a two-entry table keyed by a boolean: false-entry + (true-entry - false-entry)*key
			if kb, ok := f.val(x.Index).(ABool); ok && isIntType(x.Type()) {
				vf, okf := f.tableValue(tbl, AInt{a: affConst(0)}, "", x.Type(), x.Name()).(AInt)
				vt, okt := f.tableValue(tbl, AInt{a: affConst(1)}, "", x.Type(), x.Name()).(AInt)
				if okf && okt && vf.a.isConst() && vt.a.isConst() {
					if kb.f.kind == fConst {
						if kb.f.b {
							f.set(x, vt)
						} else {
							f.set(x, vf)
						}
						break
					}
					if kb.f.kind == fAtom && kb.f.atom.op == opEQ {
						// the atom is "s - 1 == 0" for a 0/1 symbol s
						if a := kb.f.atom.a; len(a.terms) == 1 && a.terms[0].k == 1 && a.c == -1 && a.terms[0].s.lo == 0 && a.terms[0].s.hi == 1 {
							f.set(x, AInt{a: affSym(a.terms[0].s).scale(vt.a.c - vf.a.c).addc(vf.a.c)})
							break
						}
					}
					// any other condition: a fresh value bound path by path, like a phi
					lo, hi := vf.a.c, vt.a.c
					if lo > hi {
						lo, hi = hi, lo
					}
					m := affSym(f.an.u.sym(f.key+"tbl:"+x.Name(), lo, hi))
					pos := dnfAnd(DNF{Conj{atomEQ(m, vt.a)}}, kb.f.dnf(false))
					neg := dnfAnd(DNF{Conj{atomEQ(m, vf.a)}}, kb.f.dnf(true))
					f.cur = f.compress(dnfAnd(f.cur, append(pos, neg...)))
					f.set(x, AInt{a: m})
					break
				}
			}
		}
		f.set(x, f.an.u.symbolic(f.key+x.Name(), x.Type()))
	case *ssa.Range, *ssa.Next, *ssa.MakeMap, *ssa.MakeChan, *ssa.SliceToArrayPointer, *ssa.MultiConvert:
		if v, ok := in.(ssa.Value); ok {
			f.set(v, f.an.u.symbolic(f.key+v.Name(), v.Type()))
		}
	default:
		if v, ok := in.(ssa.Value); ok {
			f.set(v, f.an.u.symbolic(f.key+v.Name(), v.Type()))
		}
	}
}

func deref(t types.Type) types.Type {
	if p, ok := t.Underlying().(*types.Pointer); ok {
		return p.Elem()
	}
	return t
}

func (f *Frame) branch(x *ssa.If) {
	b := x.Block()
	var form *Form
	switch c := f.val(x.Cond).(type) {
	case ABool:
		form = c.f
	default:
		s := f.an.u.boolSym(f.key + "cond:" + x.Cond.Name())
		form = formAtom(atomEQ(affSym(s), affConst(1)))
	}
	f.edge[[2]int{b.Index, b.Succs[0].Index}] = f.compress(dnfAnd(f.cur, form.dnf(false)))
	f.edge[[2]int{b.Index, b.Succs[1].Index}] = f.compress(dnfAnd(f.cur, form.dnf(true)))
	f.stateAt[x] = f.cur
}

// bindPhis conjoins, to the state on edge p->b, the equalities phi == incoming value.
func (f *Frame) bindPhis(b, p *ssa.BasicBlock, es DNF) DNF {
	idx := -1
	for i, q := range b.Preds {
		if q == p {
			idx = i
		}
	}
	out := es
	for _, in := range b.Instrs {
		ph, ok := in.(*ssa.Phi)
		if !ok {
			break
		}
		pv := f.phiValue(ph)
		ev := f.val(ph.Edges[idx])
		out = f.bindMerged(pv, ev, out)
	}
	return out
}

// bindMerged conjoins "merged == incoming" to each disjunct.
func (f *Frame) bindMerged(merged, incoming AV, st DNF) DNF {
	switch m := merged.(type) {
	case AInt:
		if iv, ok := incoming.(AInt); ok {
			var out DNF
			for _, c := range st {
				a := f.useIn(iv, DNF{c.with(f.an.global...)}, "phi/merge")
				out = append(out, c.with(atomEQ(m.a, a)))
			}
			return out
		}
	case ABool:
		if iv, ok := incoming.(ABool); ok && m.f.kind == fAtom {
			// (m && iv) || (!m && !iv)
			pos := dnfAnd(DNF{Conj{m.f.atom}}, iv.f.dnf(false))
			neg := dnfAnd(m.f.dnf(true), iv.f.dnf(true))
			return dnfAnd(st, append(pos, neg...))
		}
	case ASlice:
		if iv, ok := incoming.(ASlice); ok {
			var atoms Conj
			if iv.isNil {
				atoms = append(atoms, atomEQ(m.ln, affConst(0)))
				if m.nilSym != nil {
					atoms = append(atoms, atomEQ(affSym(m.nilSym), affConst(1)))
				}
			} else {
				atoms = append(atoms, atomEQ(m.ln, iv.ln))
				if !m.off.equal(iv.off) {
					atoms = append(atoms, atomEQ(m.off, iv.off))
				}
				if m.nilSym != nil {
					if iv.nilSym == nil {
						atoms = append(atoms, atomEQ(affSym(m.nilSym), affConst(0)))
					} else if iv.nilSym != m.nilSym {
						atoms = append(atoms, atomEQ(affSym(m.nilSym), affSym(iv.nilSym)))
					}
				}
			}
			return dnfAnd(st, DNF{atoms})
		}
	case ARef:
		if m.nilSym != nil {
			nf := f.nilness(incoming)
			pos := dnfAnd(DNF{Conj{atomEQ(affSym(m.nilSym), affConst(1))}}, nf.dnf(false))
			neg := dnfAnd(DNF{Conj{atomEQ(affSym(m.nilSym), affConst(0))}}, nf.dnf(true))
			st = dnfAnd(st, append(pos, neg...))
			if m.idSym != nil {
				if id, ok := f.an.u.identityOf(incoming); ok {
					st = dnfAnd(st, DNF{Conj{atomEQ(affSym(m.idSym), affConst(id))}})
				} else if ir, ok := incoming.(ARef); ok && ir.idSym != nil && ir.idSym != m.idSym {
					st = dnfAnd(st, DNF{Conj{atomEQ(affSym(m.idSym), affSym(ir.idSym))}})
				}
			}
			if m.deepNil != nil {
				df := f.nilOrNilPtr(incoming)
				pos := dnfAnd(DNF{Conj{atomEQ(affSym(m.deepNil), affConst(1))}}, df.dnf(false))
				neg := dnfAnd(DNF{Conj{atomEQ(affSym(m.deepNil), affConst(0))}}, df.dnf(true))
				st = dnfAnd(st, append(pos, neg...))
			}
			return st
		}
	case AStructLit:
		out := st
		for i, fv := range m.fields {
			out = f.bindMerged(fv, f.an.u.fieldOf(incoming, i), out)
		}
		return out
	case AFuncSet:
		switch iv := incoming.(type) {
		case AFunc:
			for i, a := range m.alts {
				if describeAV(a) == describeAV(iv) {
					return dnfAnd(st, DNF{Conj{atomEQ(affSym(m.sel), affConst(int64(i)))}})
				}
			}
		case AFuncSet:
			// sel of the incoming set determines ours
			var out DNF
			for j, a2 := range iv.alts {
				for i, a := range m.alts {
					if describeAV(a) == describeAV(a2) {
						out = append(out, dnfAnd(st, DNF{Conj{atomEQ(affSym(iv.sel), affConst(int64(j))), atomEQ(affSym(m.sel), affConst(int64(i)))}})...)
					}
				}
			}
			return out
		}
	}
	return st
}

// mergedValue builds a fresh value standing for "one of vals" (phi / call result).
func (f *Frame) mergedValue(key string, t types.Type, vals []AV) AV {
	// all the same?
	same := true
	d0 := describeAV(vals[0])
	for _, v := range vals[1:] {
		if describeAV(v) != d0 {
			same = false
		}
	}
	if same {
		if ai, ok := vals[0].(AInt); !ok || len(ai.conds) == 0 {
			return vals[0]
		}
	}
	switch tt := t.Underlying().(type) {
	case *types.Basic:
		return f.an.u.symbolic(key, t)
	case *types.Slice:
		var pick *ASlice
		multi := false
		for _, v := range vals {
			if s, ok := v.(ASlice); ok && !s.isNil {
				if pick == nil {
					ss := s
					pick = &ss
				} else if pick.root != s.root {
					multi = true
				}
			}
		}
		if pick == nil || multi {
			return f.an.u.symbolic(key, t)
		}
		ln := f.an.u.sym("len("+key+")", 0, maxLen)
		return ASlice{root: pick.root, off: pick.off, ln: affSym(ln), nilSym: f.an.u.boolSym("nil(" + key + ")"), elem: tt.Elem()}
	case *types.Struct:
		fs := make([]AV, tt.NumFields())
		for i := range fs {
			sub := make([]AV, len(vals))
			for j, v := range vals {
				sub[j] = f.an.u.fieldOf(v, i)
			}
			fs[i] = f.mergedValue(key+"."+tt.Field(i).Name(), tt.Field(i).Type(), sub)
		}
		return AStructLit{typ: t, fields: fs}
	case *types.Signature:
		// every incoming value a known function: keep the set, selected by a fresh symbol
		var alts []AFunc
		known := true
		for _, v := range vals {
			switch fv := v.(type) {
			case AFunc:
				dup := false
				for _, a := range alts {
					if describeAV(a) == describeAV(fv) {
						dup = true
					}
				}
				if !dup {
					alts = append(alts, fv)
				}
			case AFuncSet:
				for _, a2 := range fv.alts {
					dup := false
					for _, a := range alts {
						if describeAV(a) == describeAV(a2) {
							dup = true
						}
					}
					if !dup {
						alts = append(alts, a2)
					}
				}
			default:
				known = false
			}
		}
		if known && len(alts) >= 2 && len(alts) <= 8 {
			return AFuncSet{key: key, alts: alts, sel: f.an.u.sym("sel("+key+")", 0, int64(len(alts)-1))}
		}
		return f.mergedRef(key, t, tt, vals)
	case *types.Pointer, *types.Interface:
		return f.mergedRef(key, t, tt, vals)
	}
	return f.an.u.symbolic(key, t)
}

func (f *Frame) mergedRef(key string, t types.Type, tt types.Type, vals []AV) AV {
	{
		r := f.newRef(key, t)
		if _, isI := tt.(*types.Interface); isI {
			r.deepNil = f.an.u.boolSym("nilptr(" + key + ")")
		}
		r.idSym = f.an.u.sym("id("+key+")", 0, bigNum)
		for _, v := range vals {
			ts, unk := dynTypesOf(v)
			if unk {
				r.dynUnknown = true
			}
			for _, t1 := range ts {
				dup := false
				for _, t2 := range r.dynTypes {
					if types.Identical(t1, t2) {
						dup = true
					}
				}
				if !dup {
					r.dynTypes = append(r.dynTypes, t1)
				}
			}
		}
		var inner AV
		n := 0
		for _, v := range vals {
			if f.nilness(v).kind == fConst && f.nilness(v).b {
				continue
			}
			if rr, ok := v.(ARef); ok && rr.inner == nil {
				n = 2
				continue
			}
			if inner == nil || describeAV(inner) != describeAV(v) {
				n++
				inner = v
			}
		}
		if n == 1 {
			if rr, ok := inner.(ARef); ok {
				inner = rr.inner
			}
			r.inner = inner
		}
		return r
	}
}

func (f *Frame) phiValue(ph *ssa.Phi) AV {
	if v, ok := f.vals[ph]; ok {
		return v
	}
	vals := make([]AV, 0, len(ph.Edges))
	for _, e := range ph.Edges {
		if _, isInstr := e.(ssa.Instruction); isInstr {
			if _, seen := f.vals[e]; !seen {
				// back-edge operand not evaluated yet: force a fresh symbolic merged value
				vals = append(vals, f.an.u.symbolic(f.key+ph.Name()+"~", ph.Type()))
				continue
			}
		}
		vals = append(vals, f.val(e))
	}
	v := f.mergedValue(f.key+ph.Name()+phiComment(ph), ph.Type(), vals)
	// a merged value identical to an operand is only valid if all operands agree; for loops
	// with unevaluated operands we created a distinct dummy so "same" is false.
	f.vals[ph] = v
	return v
}

func phiComment(ph *ssa.Phi) string {
	if ph.Comment != "" {
		return "(" + ph.Comment + ")"
	}
	return ""
}

func (f *Frame) alloc(x *ssa.Alloc) {
	et := deref(x.Type())
	o := &Obj{key: f.key + x.Name(), alloc: x, typ: et, stores: map[string][]storeRec{}, escaped: f.escaped[x], shared: f.sharedAlloc[x]}
	if x.Comment != "" {
		o.key = f.key + x.Name() + "(" + x.Comment + ")"
	}
	if arr, ok := et.Underlying().(*types.Array); ok {
		o.arrRoot = &Root{key: o.key, fresh: true, ln: affConst(arr.Len())}
	}
	f.objs[x] = o
	f.set(x, APtr{obj: o, typ: et})
}

func (f *Frame) makeSlice(x *ssa.MakeSlice) {
	ln, ok := f.intVal(x.Len)
	st, _ := x.Type().Underlying().(*types.Slice)
	key := f.key + x.Name()
	if !ok {
		f.set(x, f.an.u.symbolic(key, x.Type()))
		return
	}
	a := f.use(ln, "make length")
	f.oblig("make", x.Pos(), "make length >= 0", Conj{atomGE(a, affConst(0))}, nil)
	r := &Root{key: "make@" + key, fresh: true, ln: a}
	if x.Cap != nil && x.Cap != x.Len {
		if cp, ok := f.intVal(x.Cap); ok {
			ca := f.use(cp, "make capacity")
			if len(f.state()) > 0 && f.state().entails(atomGE(ca, a)) && !ca.equal(a) {
				r.ln, r.spare = ca, true
			}
		}
	}
	f.set(x, ASlice{root: r, off: Aff{}, ln: a, elem: st.Elem()})
}

func (f *Frame) sliceOf(v ssa.Value) (ASlice, bool) {
	switch s := f.val(v).(type) {
	case ASlice:
		return s, true
	case APtr:
		// pointer to array
		if s.obj != nil && s.obj.arrRoot != nil && s.path == "" {
			arr := s.obj.typ.Underlying().(*types.Array)
			return ASlice{root: s.obj.arrRoot, off: Aff{}, ln: affConst(arr.Len()), elem: arr.Elem()}, true
		}
		// pointer to an array-typed field
		if s.obj != nil && s.typ != nil {
			if arr, isArr := s.typ.Underlying().(*types.Array); isArr {
				if !s.obj.symbolic && !s.obj.escaped && len(s.obj.stores[s.path]) == 0 && !f.hasPrefixStores(s.obj, s.path) {
					// element-wise initialised array field of a local object
					if s.obj.arrFields == nil {
						s.obj.arrFields = map[string]*Root{}
					}
					rt := s.obj.arrFields[s.path]
					if rt == nil {
						rt = &Root{key: s.obj.key + s.path, fresh: true, ln: affConst(arr.Len())}
						s.obj.arrFields[s.path] = rt
					}
					return ASlice{root: rt, off: Aff{}, ln: affConst(arr.Len()), elem: arr.Elem()}, true
				}
				if as, ok := f.loadPath(s.obj, s.path, s.typ, f.curInstr).(ASlice); ok {
					return as, true
				}
			}
		}
	}
	return ASlice{}, false
}

func (f *Frame) indexAddr(x *ssa.IndexAddr) {
	if tbl := f.tableOfValue(x.X); tbl != nil {
		if idx, ok := f.intVal(x.Index); ok {
			i := f.use(idx, "index")
			f.oblig("index", x.Pos(), fmt.Sprintf("index %s[%s] with len %d", tbl.g.Name(), i.String(), tbl.n),
				Conj{atomGE(i, affConst(0)), atomLT(i, affConst(tbl.n))}, nil)
			ai := AInt{a: i}
			f.set(x, APtr{tbl: tbl, idx: &ai, typ: deref(x.Type())})
			return
		}
	}
	s, ok := f.sliceOf(x.X)
	idx, iok := f.intVal(x.Index)
	if !ok || !iok {
		f.set(x, AOpaque{f.key + x.Name(), x.Type()})
		if ok && !iok {
			f.oblig("index", x.Pos(), "index with non-integer abstract value", nil, []string{s.root.key})
		}
		if !ok {
			// an array the engine does not model as a buffer (package-level table, array field):
			// its length is a constant of the type, so the access is still checked
			f.arrayIndexOblig(deref(x.X.Type()), x.Index, x.Pos(), x.X.Name())
		}
		return
	}
	i := f.use(idx, "index")
	f.oblig("index", x.Pos(), fmt.Sprintf("index %s[%s] with len %s", s.root.key, i.String(), s.ln.String()),
		Conj{atomGE(i, affConst(0)), atomLT(i, s.ln)}, []string{s.root.key})
	ai := AInt{a: i}
	f.set(x, APtr{slice: &s, idx: &ai, typ: deref(x.Type())})
}

func (f *Frame) sliceOp(x *ssa.Slice) {
	s, ok := f.sliceOf(x.X)
	if !ok {
		// string slicing or unknown
		f.set(x, f.an.u.symbolic(f.key+x.Name(), x.Type()))
		return
	}
	lo, hi := Aff{}, s.ln
	if x.Low != nil {
		if v, ok := f.intVal(x.Low); ok {
			lo = f.use(v, "slice low")
		} else {
			lo = affSym(f.an.u.sym(f.key+"lo:"+x.Name(), -bigNum, bigNum))
		}
	}
	if x.High != nil {
		if v, ok := f.intVal(x.High); ok {
			hi = f.use(v, "slice high")
		} else {
			hi = affSym(f.an.u.sym(f.key+"hi:"+x.Name(), -bigNum, bigNum))
		}
	}
	f.oblig("slice", x.Pos(), fmt.Sprintf("slice %s[%s:%s] with len %s", s.root.key, lo.String(), hi.String(), s.ln.String()),
		Conj{atomGE(lo, affConst(0)), atomLE(lo, hi), atomLE(hi, s.ln)}, []string{s.root.key})
	ns := ASlice{root: s.root, off: s.off.add(lo), ln: hi.sub(lo), elem: s.elem}
	if st, ok := x.Type().Underlying().(*types.Slice); ok {
		ns.elem = st.Elem()
	}
	f.set(x, ns)
}

// oblig records an obligation and discharges it with the current facts.
func (f *Frame) oblig(kind string, pos token.Pos, desc string, goal Conj, roots []string) {
	if f.an.quiet > 0 {
		return
	}
	st := f.state()
	ok := true
	if goal == nil {
		ok = false
	}
	for _, c := range st {
		if !c.entailsAll(goal) {
			ok = false
			break
		}
	}
	o := &Oblig{kind: kind, fn: f.fn, root: f.an.top, pos: pos, desc: desc, ok: ok, goal: goal.String(),
		onRoots: roots, depth: f.depth, chain: f.chain()}
	if !ok {
		o.facts = st.String()
		if len(o.facts) > 1500 {
			o.facts = o.facts[:1500] + "…"
		}
	}
	f.an.obligs = append(f.an.obligs, o)
}

func (f *Frame) chain() string {
	var parts []string
	for fr := f; fr != nil; fr = fr.parent {
		parts = append(parts, fr.fn.Name())
	}
	for i, j := 0, len(parts)-1; i < j; i, j = i+1, j-1 {
		parts[i], parts[j] = parts[j], parts[i]
	}
	return strings.Join(parts, ">")
}

// ---- memory ----

func (f *Frame) store(x *ssa.Store) {
	p, ok := f.val(x.Addr).(APtr)
	if !ok {
		return
	}
	v := f.val(x.Val)
	if cl := f.copyStores[x]; cl != nil && f.emitCopyLoop(cl) {
		return // the element store of a summarised copy loop (idiom.go)
	}
	if p.slice != nil && p.idx != nil {
		if _, isStruct := p.slice.elem.Underlying().(*types.Struct); isStruct || p.path != "" {
			p.slice.root.elemWritten = true
			if p.path != "" {
				return
			}
		}
		w := &Write{off: p.slice.off.add(p.idx.a), width: affConst(1), kind: wByte, val: v, pos: f.posStr(x.Pos()), state: f.cur, fn: f.fn}
		p.slice.root.addWrite(w)
		return
	}
	if p.obj == nil {
		return
	}
	if p.obj.stores == nil {
		p.obj.stores = map[string][]storeRec{}
	}
	f.an.seq++
	p.obj.stores[p.path] = append(p.obj.stores[p.path], storeRec{val: v, instr: x, state: f.cur, seq: f.an.seq, frame: f, approx: f.an.widened > 0})
	if p.obj.symbolic {
		// ghost fact "this path passed a store of a non-nil value to the field" (used by the
		// optional-callback rule); any other store to the field forgets it
		g := f.an.u.boolSym("stored(" + p.obj.key + f.pathNames(p.obj, p.path) + ")")
		nf := f.nilness(v)
		for i, c := range f.cur {
			var nc Conj
			for _, a := range c {
				if a.a.coef(g) == 0 {
					nc = append(nc, a)
				}
			}
			f.cur[i] = nc
		}
		if nf.kind == fConst && !nf.b {
			f.assume(atomEQ(affSym(g), affConst(1)))
		}
	}
}

func (f *Frame) load(x *ssa.UnOp) AV {
	p, ok := f.val(x.X).(APtr)
	if !ok {
		if g, ok := f.val(x.X).(AGlobal); ok {
			switch x.Type().Underlying().(type) {
			case *types.Interface, *types.Pointer:
				return AGlobalVal{g: g.g, nonNil: f.an.ctx.initOnlyGlobal(g.g)}
			}
			return f.an.u.symbolic("global:"+g.g.String(), x.Type())
		}
		return f.an.u.symbolic(f.key+x.Name(), x.Type())
	}
	if p.tbl != nil && p.idx != nil {
		return f.tableValue(p.tbl, *p.idx, p.path, x.Type(), x.Name())
	}
	if p.slice != nil && p.idx != nil && p.path != "" {
		// field of an element of a slice of structs: for input memory that nothing wrote to, a
		// canonical value named by root, index and field path (two loads of a[i].f agree)
		s := p.slice
		if s.root.fresh || s.root.elemWritten || s.isNil {
			return f.an.u.symbolic(f.key+x.Name(), x.Type())
		}
		abs := f.canonAff(s.off.add(p.idx.a))
		return f.an.u.symbolic(fmt.Sprintf("%s[%s]%s", s.root.key, abs.String(), p.path), x.Type())
	}
	if p.slice != nil && p.idx != nil {
		s := p.slice
		if isIntType(x.Type()) && !s.isNil {
			// element of a fresh root written exactly once at a constant index: use the stored value
			abs := s.off.add(p.idx.a)
			if s.root.fresh {
				if v, ok := f.readFresh(s.root, abs, 1, true); ok {
					return v
				}
				return f.an.u.symbolic(f.key+x.Name(), x.Type())
			}
			lo, hi, _ := intRange(x.Type())
			abs = f.canonAff(abs)
			return AInt{a: affSym(f.an.u.sym(fmt.Sprintf("%s[%s]", s.root.key, abs.String()), lo, hi))}
		}
		if isBoolType(x.Type()) {
			abs := s.off.add(p.idx.a)
			b := f.an.u.boolSym(fmt.Sprintf("%s[%s]", s.root.key, abs.String()))
			return ABool{formAtom(atomEQ(affSym(b), affConst(1)))}
		}
		return f.an.u.symbolic(f.key+x.Name(), x.Type())
	}
	if p.obj == nil {
		return f.an.u.symbolic(f.key+x.Name(), x.Type())
	}
	if p.obj.arrRoot != nil && p.path == "" {
		arr := p.obj.typ.Underlying().(*types.Array)
		return ASlice{root: p.obj.arrRoot, off: Aff{}, ln: affConst(arr.Len()), elem: arr.Elem()}
	}
	return f.loadPath(p.obj, p.path, x.Type(), x)
}

// loadPath reads obj.path. For symbolic objects the value is a canonical field symbol; for
// local objects it is the unique dominating store (exact path, a prefix, or assembled from
// sub-paths), else opaque.
func (f *Frame) loadPath(o *Obj, path string, t types.Type, at ssa.Instruction) AV {
	if o.symbolic {
		return f.an.u.symbolic(o.key+f.pathNames(o, path), t)
	}
	if o.escaped {
		if v, ok := f.capturedConstant(o, path, at); ok {
			return v
		}
		if st, isStruct := t.Underlying().(*types.Struct); isStruct && path == "" && o.alloc != nil {
			// a whole-struct load: field by field, so that fields that cannot have changed since
			// construction keep their value
			known := false
			fs := make([]AV, st.NumFields())
			for i := range fs {
				if v, ok := f.capturedConstant(o, pathStr(path, i), at); ok {
					fs[i], known = v, true
				} else {
					fs[i] = f.an.u.symbolic(f.key+"esc:"+o.key+path+"."+st.Field(i).Name(), st.Field(i).Type())
				}
			}
			if known {
				return AStructLit{typ: t, fields: fs}
			}
		}
		return f.an.u.symbolic(f.key+"esc:"+o.key+path, t)
	}
	if o.shared {
		return f.loadShared(o, path, t, at)
	}
	// exact path
	if recs := o.stores[path]; len(recs) > 0 {
		// most recent store in the same block wins (block-local flow sensitivity; covers the
		// named-result spill `*res = v; rundefers; t = *res; return t`)
		if at != nil && at.Block() != nil && !f.hasSubStores(o, path) && !f.hasPrefixStores(o, path) {
			var last *storeRec
			for _, in := range at.Block().Instrs {
				if in == at {
					break
				}
				for i := range recs {
					if recs[i].instr == in {
						last = &recs[i]
					}
				}
			}
			if last != nil {
				return last.val
			}
		}
		if f.storeCount(o, path) == 1 && f.dominatesRec(o, recs[0], at) && !f.hasSubStores(o, path) && !f.hasPrefixStores(o, path) {
			return recs[0].val
		}
		if v, ok := f.orderedLoad(o, path, at); ok {
			return v
		}
		return f.an.u.symbolic(f.key+fmt.Sprintf("multi:%s%s@%s", o.key, path, valueName(at)), t)
	}
	// prefix store (whole struct stored, field loaded)
	for pre := path; pre != ""; {
		i := strings.LastIndex(pre, ".")
		if i < 0 {
			break
		}
		fieldIdx := pre[i+1:]
		pre = pre[:i]
		if recs := o.stores[pre]; len(recs) > 0 {
			if f.storeCount(o, pre) == 1 && f.dominatesRec(o, recs[0], at) && !f.hasSubStores(o, pre) {
				// project remaining path
				v := recs[0].val
				rest := path[len(pre):]
				for _, seg := range strings.Split(strings.TrimPrefix(rest, "."), ".") {
					var n int
					fmt.Sscanf(seg, "%d", &n)
					v = f.an.u.fieldOf(v, n)
				}
				_ = fieldIdx
				return v
			}
			if v, ok := f.orderedLoad(o, path, at); ok {
				return v
			}
			return f.an.u.symbolic(f.key+fmt.Sprintf("multi:%s%s@%s", o.key, path, valueName(at)), t)
		}
	}
	if arr, ok := t.Underlying().(*types.Array); ok {
		if rt := o.arrFields[path]; rt != nil {
			return ASlice{root: rt, off: Aff{}, ln: affConst(arr.Len()), elem: arr.Elem()}
		}
	}
	// assemble struct from sub-paths
	if st, ok := t.Underlying().(*types.Struct); ok {
		fs := make([]AV, st.NumFields())
		for i := range fs {
			fs[i] = f.loadPath(o, pathStr(path, i), st.Field(i).Type(), at)
		}
		return AStructLit{typ: t, fields: fs}
	}
	if f.storeCountPrefix(o, path) == 0 {
		// never stored: zero value (Alloc zero-initialises)
		return zeroValue(t)
	}
	return f.an.u.symbolic(f.key+fmt.Sprintf("unk:%s%s@%s", o.key, path, valueName(at)), t)
}

func valueName(in ssa.Instruction) string {
	if v, ok := in.(ssa.Value); ok {
		return v.Name()
	}
	return "?"
}

func (f *Frame) pathNames(o *Obj, path string) string {
	if o.typ == nil || path == "" {
		return path
	}
	t := o.typ
	var sb strings.Builder
	for _, seg := range strings.Split(strings.TrimPrefix(path, "."), ".") {
		var n int
		if _, err := fmt.Sscanf(seg, "%d", &n); err != nil {
			sb.WriteString("." + seg)
			continue
		}
		st, ok := deref(t).Underlying().(*types.Struct)
		if !ok || n >= st.NumFields() {
			sb.WriteString("." + seg)
			continue
		}
		sb.WriteString("." + st.Field(n).Name())
		t = st.Field(n).Type()
	}
	return sb.String()
}

func (f *Frame) storeCount(o *Obj, path string) int {
	if o.alloc != nil {
		if m, ok := f.storeN[o.alloc]; ok {
			return m[path]
		}
	}
	return len(o.stores[path])
}

func (f *Frame) storeCountPrefix(o *Obj, path string) int {
	n := 0
	if o.alloc != nil {
		if m, ok := f.storeN[o.alloc]; ok {
			for p, c := range m {
				if strings.HasPrefix(p, path) || strings.HasPrefix(path, p) {
					n += c
				}
			}
			return n
		}
	}
	for p, r := range o.stores {
		if strings.HasPrefix(p, path) || strings.HasPrefix(path, p) {
			n += len(r)
		}
	}
	return n
}

func (f *Frame) hasSubStores(o *Obj, path string) bool {
	check := func(p string, c int) bool { return c > 0 && len(p) > len(path) && strings.HasPrefix(p, path+".") }
	if o.alloc != nil {
		if m, ok := f.storeN[o.alloc]; ok {
			for p, c := range m {
				if check(p, c) {
					return true
				}
			}
			return false
		}
	}
	for p, r := range o.stores {
		if check(p, len(r)) {
			return true
		}
	}
	return false
}

func (f *Frame) hasPrefixStores(o *Obj, path string) bool {
	check := func(p string, c int) bool { return c > 0 && len(p) < len(path) && strings.HasPrefix(path, p+".") }
	if o.alloc != nil {
		if m, ok := f.storeN[o.alloc]; ok {
			for p, c := range m {
				if check(p, c) || (p == "" && c > 0 && path != "") {
					return true
				}
			}
			return false
		}
	}
	for p, r := range o.stores {
		if check(p, len(r)) {
			return true
		}
	}
	return false
}

// dominatesRec: the single recorded store governs a load at `at`: in the same function by
// dominance; across inlined frames by the structural executed-before relation.
func (f *Frame) dominatesRec(o *Obj, rc storeRec, at ssa.Instruction) bool {
	if rc.instr == nil {
		return true // the value the object was created with
	}
	if at == nil || rc.instr.Parent() == at.Parent() {
		return f.dominates(rc.instr, at)
	}
	return f.executedBefore(o, rc, at)
}

func (f *Frame) dominates(a, b ssa.Instruction) bool {
	if a.Parent() != b.Parent() {
		return true // store happened in an inlined callee before returning the object
	}
	ba, bb := a.Block(), b.Block()
	if ba == bb {
		for _, in := range ba.Instrs {
			if in == a {
				return true
			}
			if in == b {
				return false
			}
		}
	}
	return ba.Dominates(bb)
}

func sortedKeys(m map[string]int) []string {
	ks := make([]string, 0, len(m))
	for k := range m {
		ks = append(ks, k)
	}
	sort.Strings(ks)
	return ks
}

// mergeGhost: ghost state at the entry of block b = the predecessors' exit states where
// they agree; a buffer on which they disagree becomes unknown (fresh length and content).
func (f *Frame) mergeGhost(b *ssa.BasicBlock) map[string]ghostBuf {
	var outs []map[string]ghostBuf
	for _, p := range b.Preds {
		if isBackEdge(p, b) {
			continue
		}
		if g, ok := f.ghostOut[p.Index]; ok {
			outs = append(outs, g)
		}
	}
	if len(outs) == 0 {
		return copyGhost(f.ghost)
	}
	res := copyGhost(outs[0])
	for _, o := range outs[1:] {
		for k, v := range res {
			w, ok := o[k]
			if !ok || !w.ln.equal(v.ln) || w.root != v.root {
				ln := f.an.u.sym(fmt.Sprintf("buflen(%s)@b%d", k, b.Index), 0, maxLen)
				res[k] = ghostBuf{ln: affSym(ln), root: &Root{key: fmt.Sprintf("buf(%s)@b%d", k, b.Index), ln: affSym(ln)}, ver: v.ver + 1}
			}
		}
		for k, w := range o {
			if _, ok := res[k]; !ok {
				res[k] = w
			}
		}
	}
	// a loop header cannot keep ghost facts that the body may change
	for _, p := range b.Preds {
		if isBackEdge(p, b) {
			for k, v := range res {
				if f.final && !f.ghostTouched[k] {
					continue // never mutated in this function (learnt in the earlier passes)
				}
				ln := f.an.u.sym(fmt.Sprintf("buflen(%s)@loop%d", k, b.Index), 0, maxLen)
				res[k] = ghostBuf{ln: affSym(ln), root: &Root{key: fmt.Sprintf("buf(%s)@loop%d", k, b.Index), ln: affSym(ln)}, ver: v.ver + 1}
			}
		}
	}
	return res
}

// orderedLoad resolves a load of o.path when several stores (to the path itself or to a
// prefix of it) exist, possibly made in different inlined functions (a helper that builds an
// error value and then fills in fields). Stores are evaluated in reverse post-order and
// callees at their call, so for stores that are not inside any loop the evaluation sequence is
// a program order. The latest store that is definitely executed on the current path (every
// disjunct of the current state entails one disjunct of the store's state) supplies the value,
// provided every later store is impossible on the current path and no store to a sub-path
// interferes. Anything else is left unresolved.
func (f *Frame) orderedLoad(o *Obj, path string, at ssa.Instruction) (AV, bool) {
	type cand struct {
		rec  storeRec
		path string
	}
	latest := map[[2]interface{}]cand{} // per (instruction, frame): the last pass counts
	for q, recs := range o.stores {
		rel := q == path || q == "" || strings.HasPrefix(path, q+".") || strings.HasPrefix(q, path+".")
		if !rel {
			continue
		}
		for _, rc := range recs {
			if rc.frame == nil || rc.instr == nil || rc.instr.Block() == nil {
				return nil, false
			}
			if inLoop(rc.instr.Block()) {
				return nil, false
			}
			k := [2]interface{}{rc.instr, rc.frame}
			if old, ok := latest[k]; !ok || old.rec.seq < rc.seq {
				latest[k] = cand{rc, q}
			}
		}
	}
	var cs []cand
	for _, c := range latest {
		cs = append(cs, c)
	}
	sort.Slice(cs, func(i, j int) bool { return cs[i].rec.seq > cs[j].rec.seq })
	cur := f.state()
	// a rule reading an object "as of" a return site: the state of that return site
	if ret, ok := at.(*ssa.Return); ok {
		for i := range f.returns {
			if f.returns[i].instr == ret {
				cur = f.returns[i].state
			}
		}
	}
	if len(cur) == 0 {
		return nil, false
	}
	// the governing store of one path: the latest store certainly executed on it, every later
	// one being impossible on it; no store at all: the zero value the allocation starts with
	pickFor := func(cj Conj) (AV, bool) {
		for _, c := range cs {
			hit := f.executedBefore(o, c.rec, at)
			for _, d := range c.rec.state {
				if !c.rec.approx && cj.entailsAll(d) {
					hit = true
					break
				}
			}
			if hit {
				if len(c.path) > len(path) {
					return nil, false
				}
				v := c.rec.val
				if c.path != path {
					rest := strings.TrimPrefix(path[len(c.path):], ".")
					for _, seg := range strings.Split(rest, ".") {
						var n int
						if _, err := fmt.Sscanf(seg, "%d", &n); err != nil {
							return nil, false
						}
						v = f.an.u.fieldOf(v, n)
					}
				}
				return v, true
			}
			if consistent(cj, c.rec.state) {
				return nil, false
			}
		}
		if o.alloc == nil || o.symbolic || o.escaped {
			return nil, false
		}
		if ld, ok := at.(*ssa.UnOp); ok {
			return zeroValue(ld.Type()), true
		}
		return nil, false
	}
	if f.eachPick != nil {
		// a rule asks for the governing value of every path separately (forEachPathValue)
		f.eachOK = true
		for _, cj := range cur {
			v, got := pickFor(cj)
			if !got || !f.eachPick(cj, v) {
				f.eachOK = false
			}
		}
		return nil, false
	}
	for _, c := range cs {
		definite := !c.rec.approx
		for _, cj := range cur {
			hit := false
			for _, d := range c.rec.state {
				if cj.entailsAll(d) {
					hit = true
					break
				}
			}
			if !hit {
				definite = false
				break
			}
		}
		definite = definite || f.executedBefore(o, c.rec, at)
		if definite {
			if len(c.path) > len(path) {
				return nil, false // a later partial overwrite below the loaded path
			}
			v := c.rec.val
			if c.path != path {
				rest := strings.TrimPrefix(path[len(c.path):], ".")
				for _, seg := range strings.Split(rest, ".") {
					var n int
					if _, err := fmt.Sscanf(seg, "%d", &n); err != nil {
						return nil, false
					}
					v = f.an.u.fieldOf(v, n)
				}
			}
			return v, true
		}
		// not definitely executed: it must be impossible on this path, otherwise ambiguous
		for _, cj := range cur {
			if consistent(cj, c.rec.state) {
				return f.disjunctLoad(o, path, at, func(cj Conj) (AV, bool) { return pickFor(cj) })
			}
		}
	}
	return f.disjunctLoad(o, path, at, func(cj Conj) (AV, bool) { return pickFor(cj) })
}

// disjunctLoad resolves a load whose value differs between the paths of the current state
// (a field of a local struct assigned under a condition: `x.f = a; if c { x.f = b }`): each
// disjunct picks its own governing store, and the load yields a fresh merged value that the
// current state ties to the picked value disjunct by disjunct — exactly what a phi does for a
// register. Only during execution of the loading instruction (the refinement is of f.cur).
func (f *Frame) disjunctLoad(o *Obj, path string, at ssa.Instruction, pick func(Conj) (AV, bool)) (AV, bool) {
	ld, isLoad := at.(*ssa.UnOp)
	if !isLoad || at != f.curInstr || len(f.cur) == 0 || len(f.cur) > 64 {
		return nil, false
	}
	vals := make([]AV, len(f.cur))
	for i, cj := range f.cur {
		v, ok := pick(cj.with(f.an.global...))
		if !ok {
			return nil, false
		}
		vals[i] = v
	}
	m := f.mergedValue(f.key+fmt.Sprintf("ld:%s%s@%s", o.key, path, valueName(at)), ld.Type(), vals)
	var out DNF
	for i, cj := range f.cur {
		out = append(out, f.bindMerged(m, vals[i], DNF{cj})...)
	}
	f.cur = out
	return m, true
}

// canonAff rewrites an index expression so that the name of an input-byte symbol does not depend
// on whether an offset was computed inline or came back from a helper: a merged call-result
// symbol (key contains '#') that every disjunct of the current state defines by the same
// equation s = e is replaced by e. Sound: the equalities hold on every current path.
func (f *Frame) canonAff(a Aff) Aff {
	st := f.state()
	if len(st) == 0 {
		return a
	}
	for iter := 0; iter < 3; iter++ {
		changed := false
		for _, t := range a.terms {
			s := t.s
			if !strings.Contains(s.key, "#") {
				continue
			}
			var def *Aff
			okAll := true
			for _, cj := range st {
				var found *Aff
				for _, at := range cj {
					if at.op != opEQ {
						continue
					}
					k := at.a.coef(s)
					if k != 1 && k != -1 {
						continue
					}
					// at.a = k*s + rest == 0  =>  s = -rest/k
					rest := at.a.sub(affSym(s).scale(k))
					e := rest.scale(-k)
					mentions := false
					for _, tt := range e.terms {
						if strings.Contains(tt.s.key, "#") {
							mentions = true
						}
					}
					if !mentions {
						found = &e
						break
					}
				}
				if found == nil || (def != nil && !def.equal(*found)) {
					okAll = false
					break
				}
				def = found
			}
			if okAll && def != nil {
				a = a.subst(s, *def)
				changed = true
				break
			}
		}
		if !changed {
			break
		}
	}
	return a
}

// mayLoad returns every value o.path may hold at instruction `at` (a return site of f):
// the values of all stores that can have executed on a path to it and that are not definitely
// overwritten afterwards. ok is false when that set cannot be determined (stores in loops).
func (f *Frame) mayLoad(o *Obj, path string, at ssa.Instruction) (vals []AV, ok bool) {
	cur := f.state()
	if ret, isRet := at.(*ssa.Return); isRet {
		for i := range f.returns {
			if f.returns[i].instr == ret {
				cur = f.returns[i].state
			}
		}
	}
	type cand struct{ rec storeRec }
	latest := map[[2]interface{}]storeRec{}
	for q, recs := range o.stores {
		if q != path {
			if q == "" || strings.HasPrefix(path, q+".") || strings.HasPrefix(q, path+".") {
				return nil, false // whole-struct or partial stores: not handled here
			}
			continue
		}
		for _, rc := range recs {
			if rc.frame == nil || rc.instr == nil || rc.instr.Block() == nil || inLoop(rc.instr.Block()) {
				return nil, false
			}
			k := [2]interface{}{rc.instr, rc.frame}
			if old, seen := latest[k]; !seen || old.seq < rc.seq {
				latest[k] = rc
			}
		}
	}
	var cs []storeRec
	for _, rc := range latest {
		cs = append(cs, rc)
	}
	sort.Slice(cs, func(i, j int) bool { return cs[i].seq > cs[j].seq })
	for _, rc := range cs {
		possible := false
		for _, cj := range cur {
			if consistent(cj, rc.state) {
				possible = true
			}
		}
		if !possible {
			continue
		}
		vals = append(vals, rc.val)
		definite := !rc.approx
		for _, cj := range cur {
			hit := false
			for _, d := range rc.state {
				if cj.entailsAll(d) {
					hit = true
					break
				}
			}
			if !hit {
				definite = false
				break
			}
		}
		if definite || f.executedBefore(o, rc, at) {
			return vals, true // earlier stores are overwritten on every path
		}
	}
	return vals, true
}

// arrayIndexOblig: index into a value of array type [N]T (reached through a pointer, a global or
// as a value): 0 <= index < N must hold.
func (f *Frame) arrayIndexOblig(t types.Type, index ssa.Value, pos token.Pos, name string) {
	arr, ok := t.Underlying().(*types.Array)
	if !ok {
		return
	}
	idx, iok := f.intVal(index)
	if !iok {
		f.oblig("index", pos, fmt.Sprintf("index into array %s of length %d with non-integer abstract value", name, arr.Len()), nil, nil)
		return
	}
	i := f.use(idx, "index")
	f.oblig("index", pos, fmt.Sprintf("index %s[%s] with array length %d", name, i.String(), arr.Len()),
		Conj{atomGE(i, affConst(0)), atomLT(i, affConst(arr.Len()))}, nil)
}

// callOf returns the call instruction of the parent frame whose inlined evaluation is f (nil for
// a top frame or a frame superseded by a later pass over the same call).
func (f *Frame) callOf() ssa.CallInstruction {
	if f.parent == nil {
		return nil
	}
	for ci, ch := range f.parent.child {
		if ch == f {
			return ci
		}
	}
	return nil
}

func instrBefore(a, b ssa.Instruction) bool {
	if a == nil || b == nil || a == b || a.Parent() != b.Parent() || a.Block() == nil || b.Block() == nil {
		return false
	}
	if a.Block() == b.Block() {
		for _, in := range a.Block().Instrs {
			if in == a {
				return true
			}
			if in == b {
				return false
			}
		}
		return false
	}
	return a.Block().Dominates(b.Block())
}

// beforeEveryExit: instruction a is executed on every path on which its function returns normally.
func beforeEveryExit(a ssa.Instruction) bool {
	fn := a.Parent()
	if fn == nil || fn.Recover != nil || a.Block() == nil {
		return false
	}
	for _, b := range fn.Blocks {
		if len(b.Instrs) == 0 {
			continue
		}
		if _, isRet := b.Instrs[len(b.Instrs)-1].(*ssa.Return); isRet {
			if b != a.Block() && !a.Block().Dominates(b) {
				return false
			}
		}
	}
	return true
}

// executedBefore decides from the shape of the program alone (dominance, through the chain of
// inlined frames) that the recorded store has been executed whenever control reaches
// instruction `at` of frame f. Unlike the comparison of path states it does not depend on how
// precisely those states were kept.
func (f *Frame) executedBefore(o *Obj, rc storeRec, at ssa.Instruction) bool {
	if at == nil || rc.frame == nil || rc.instr == nil {
		return false
	}
	type posn struct {
		fr *Frame
		in ssa.Instruction
	}
	var chain []posn
	for fr, in := f, at; ; {
		chain = append(chain, posn{fr, in})
		if fr.parent == nil {
			break
		}
		ci := fr.callOf()
		if ci == nil {
			return false
		}
		fr, in = fr.parent, ci
	}
	fr, in := rc.frame, rc.instr
	ownAlloc := false
	for {
		for _, lp := range chain {
			if lp.fr == fr {
				return ownAlloc || instrBefore(in, lp.in)
			}
		}
		// a completed callee: the store must lie on every path by which the callee hands the
		// object on — every normal exit, or, for an object the callee itself allocates, every
		// path from the allocation to a normal exit (the object does not exist on the others)
		if fr.parent == nil {
			return false
		}
		if !ownAlloc {
			if o != nil && o.alloc != nil && fr.objs[o.alloc] == o && o.alloc.Parent() == in.Parent() {
				if !passesBetween(o.alloc, in) {
					return false
				}
				ownAlloc = true
			} else if !beforeEveryExit(in) {
				return false
			}
		}
		ci := fr.callOf()
		if ci == nil {
			return false
		}
		fr, in = fr.parent, ci
	}
}

// passesBetween: every path from instruction a to a normal exit of their function executes s.
func passesBetween(a, s ssa.Instruction) bool {
	if a.Block() == nil || s.Block() == nil || a.Parent() != s.Parent() || a.Parent().Recover != nil {
		return false
	}
	if a.Block() == s.Block() {
		for _, in := range a.Block().Instrs {
			if in == a {
				return true
			}
			if in == s {
				return false
			}
		}
		return false
	}
	seen := map[*ssa.BasicBlock]bool{a.Block(): true}
	work := []*ssa.BasicBlock{a.Block()}
	for len(work) > 0 {
		b := work[len(work)-1]
		work = work[:len(work)-1]
		if n := len(b.Instrs); n > 0 {
			if _, isRet := b.Instrs[n-1].(*ssa.Return); isRet {
				return false
			}
		}
		for _, sc := range b.Succs {
			if sc == s.Block() || seen[sc] {
				continue
			}
			seen[sc] = true
			work = append(work, sc)
		}
	}
	return true
}

// capturedConstant: a variable that escapes only because closures capture it (Go spills a
// captured parameter or local into a heap cell: `t0 = new T (x); *t0 = x`) still has a known
// value where it is assigned exactly once, before the load, and neither the function nor any
// closure that captures the cell ever stores to it again or hands its address on.
func (f *Frame) capturedConstant(o *Obj, path string, at ssa.Instruction) (AV, bool) {
	if o.alloc == nil || at == nil {
		return nil, false
	}
	if o.alloc.Parent() != at.Parent() && path == "" {
		return nil, false
	}
	if path != "" {
		return f.immutableFieldOfEscaped(o, path, at)
	}
	switch deref(o.alloc.Type()).Underlying().(type) {
	case *types.Struct, *types.Array:
		return nil, false // only single-word cells; aggregates are written field by field
	}
	recs := o.stores[""]
	if len(recs) == 0 {
		return nil, false
	}
	var only *ssa.Store
	var readOnly func(v ssa.Value, depth int) bool
	readOnly = func(v ssa.Value, depth int) bool {
		refs := v.Referrers()
		if refs == nil || depth > 4 {
			return depth <= 4
		}
		for _, r := range *refs {
			switch x := r.(type) {
			case *ssa.UnOp:
				if x.Op != token.MUL {
					return false
				}
			case *ssa.DebugRef:
			case *ssa.Store:
				if x.Addr != v {
					return false // the cell's address is stored somewhere
				}
				if _, isAlloc := v.(*ssa.Alloc); !isAlloc || only != nil && only != x {
					return false
				}
				only = x
			case *ssa.MakeClosure:
				fn, ok := x.Fn.(*ssa.Function)
				if !ok {
					return false
				}
				for i, b := range x.Bindings {
					if b == v {
						if i >= len(fn.FreeVars) || !readOnly(fn.FreeVars[i], depth+1) {
							return false
						}
					}
				}
			default:
				return false
			}
		}
		return true
	}
	if !readOnly(o.alloc, 0) || only == nil || !instrBefore(only, at) {
		return nil, false
	}
	// the value recorded for that store in this frame (latest pass)
	var val AV
	seq := -1
	for _, rc := range recs {
		if rc.instr == ssa.Instruction(only) && rc.frame == f && rc.seq > seq {
			val, seq = rc.val, rc.seq
		}
	}
	if val == nil {
		return nil, false
	}
	return val, true
}

// immutableFieldOfEscaped: field k of a struct cell that escapes (deferred method call, closure)
// still has the value it was constructed with when (1) the cell is assigned as a whole exactly
// once, before the load, (2) nowhere in the module is field k of that struct type stored to
// except while building a composite literal in a local temporary, its address is never taken
// for anything but a load, and no whole value of the type is stored through a pointer that is
// not a local cell (type-based: whoever gets hold of the cell can only reach the field through
// such instructions; the library uses neither unsafe nor reflect — asserted at load).
func (f *Frame) immutableFieldOfEscaped(o *Obj, path string, at ssa.Instruction) (AV, bool) {
	var k int
	if n, err := fmt.Sscanf(path, ".%d", &k); n != 1 || err != nil || strings.Count(path, ".") != 1 {
		return nil, false
	}
	T := deref(o.alloc.Type())
	st, ok := T.Underlying().(*types.Struct)
	if !ok || k >= st.NumFields() || !f.an.ctx.fieldImmutable(T, k) {
		return nil, false
	}
	var only *ssa.Store
	whole := false
	n := 0
	if refs := o.alloc.Referrers(); refs != nil {
		for _, r := range *refs {
			switch x := r.(type) {
			case *ssa.Store:
				if x.Addr == ssa.Value(o.alloc) {
					only, whole = x, true
					n++
				}
			case *ssa.FieldAddr:
				if x.Field != k || x.Referrers() == nil {
					continue
				}
				for _, fr := range *x.Referrers() {
					if st, ok := fr.(*ssa.Store); ok && st.Addr == ssa.Value(x) {
						only, whole = st, false
						n++
					}
				}
			}
		}
	}
	if n != 1 {
		return nil, false
	}
	key := path
	if whole {
		key = ""
	}
	var val AV
	seq := -1
	for _, rc := range o.stores[key] {
		if rc.instr != ssa.Instruction(only) || rc.seq <= seq {
			continue
		}
		// the construction happened before the load: in the same function by dominance, from an
		// inlined callee (a forwarding method reading the field) by the structural relation
		before := rc.frame == f && instrBefore(only, at)
		if !before && only.Parent() != at.Parent() {
			before = f.executedBefore(o, rc, at)
		}
		if before {
			val, seq = rc.val, rc.seq
		}
	}
	if val == nil {
		return nil, false
	}
	if whole {
		return f.an.u.fieldOf(val, k), true
	}
	return val, true
}

// fieldImmutable: see immutableFieldOfEscaped, condition (2). Cached per (type, field).
func (c *Ctx) fieldImmutable(T types.Type, k int) bool {
	key := fmt.Sprintf("%s#%d", T.String(), k)
	if c.immutable == nil {
		c.immutable = map[string]bool{}
	}
	if v, ok := c.immutable[key]; ok {
		return v
	}
	res := true
	for fn := range ssautil.AllFunctions(c.prog) {
		if !c.inModule(fn) {
			continue
		}
		for _, b := range fn.Blocks {
			for _, in := range b.Instrs {
				switch x := in.(type) {
				case *ssa.FieldAddr:
					if x.Field != k || !types.Identical(deref(x.X.Type()), T) || x.Referrers() == nil {
						continue
					}
					for _, r := range *x.Referrers() {
						switch y := r.(type) {
						case *ssa.UnOp:
							if y.Op != token.MUL {
								res = false
							}
						case *ssa.DebugRef:
						case *ssa.Store:
							// construction of a cell the storing function itself allocates
							_, isAlloc := x.X.(*ssa.Alloc)
							if y.Addr != ssa.Value(x) || !isAlloc {
								res = false
							}
						default:
							res = false
						}
					}
				case *ssa.Store:
					if types.Identical(deref(x.Addr.Type()), T) {
						if _, isAlloc := x.Addr.(*ssa.Alloc); !isAlloc {
							res = false
						}
					}
				}
			}
		}
	}
	c.immutable[key] = res
	return res
}

// passedToInlined: every use of v as an argument of call x goes to a parameter the callee keeps
// contained, and the callee will be inlined at this depth.
func (f *Frame) passedToInlined(x *ssa.Call, v ssa.Value, extra int) bool {
	cm := x.Common()
	callee := cm.StaticCallee()
	if callee == nil || cm.IsInvoke() || callee.Blocks == nil || !f.an.ctx.inModule(callee) || f.depth+extra+1 >= maxDepth || f.recursive(callee) {
		return false
	}
	if f.an.noInline != nil && f.an.noInline(callee) {
		return false
	}
	if _, un := f.an.uninterp[callee]; un {
		return false
	}
	used := false
	for i, a := range cm.Args {
		if a != v {
			continue
		}
		used = true
		if i >= len(callee.Params) || !f.paramContained(callee.Params[i], extra+1, map[ssa.Value]bool{}) {
			return false
		}
	}
	return used
}

// paramContained: the pointer value v (a parameter or an address derived from it) is only used
// to load from, store to, derive field/element addresses, be returned, or be handed to further
// inlined functions of the module under the same condition.
func (f *Frame) paramContained(v ssa.Value, extra int, seen map[ssa.Value]bool) bool {
	if seen[v] {
		return true
	}
	seen[v] = true
	refs := v.Referrers()
	if refs == nil {
		return true
	}
	for _, r := range *refs {
		switch x := r.(type) {
		case *ssa.FieldAddr:
			if !f.paramContained(x, extra, seen) {
				return false
			}
		case *ssa.IndexAddr:
			if x.X == v && !f.paramContained(x, extra, seen) {
				return false
			}
		case *ssa.UnOp, *ssa.DebugRef, *ssa.Return, *ssa.Slice:
		case *ssa.Store:
			if x.Addr != v {
				return false
			}
		case *ssa.Call:
			if !f.passedToInlined(x, v, extra) {
				return false
			}
		default:
			return false
		}
	}
	return true
}

// loadShared: load from a local object that inlined callees may have stored through. Only the
// recorded stores (of all frames, in evaluation order) decide: the ordered-store resolution, or
// the zero value when nothing related has been stored so far, field by field for structs.
func (f *Frame) loadShared(o *Obj, path string, t types.Type, at ssa.Instruction) AV {
	related := false
	for q, recs := range o.stores {
		if len(recs) > 0 && (q == path || q == "" || strings.HasPrefix(path, q+".") || strings.HasPrefix(q, path+".")) {
			related = true
		}
	}
	if !related {
		if arr, ok := t.Underlying().(*types.Array); ok {
			if rt := o.arrFields[path]; rt != nil {
				return ASlice{root: rt, off: Aff{}, ln: affConst(arr.Len()), elem: arr.Elem()}
			}
		}
		return zeroValue(t)
	}
	if v, ok := f.orderedLoad(o, path, at); ok {
		return v
	}
	if st, ok := t.Underlying().(*types.Struct); ok {
		// stores below the loaded path: assemble field by field
		sub := false
		for q, recs := range o.stores {
			if len(recs) > 0 && strings.HasPrefix(q, path+".") {
				sub = true
			}
		}
		if sub {
			fs := make([]AV, st.NumFields())
			for i := range fs {
				fs[i] = f.loadShared(o, pathStr(path, i), st.Field(i).Type(), at)
			}
			return AStructLit{typ: t, fields: fs}
		}
	}
	return f.an.u.symbolic(f.key+fmt.Sprintf("multi:%s%s@%s", o.key, path, valueName(at)), t)
}

// freeVarReadOnly: the closure (and closures it creates) only load from the captured cell.
func freeVarReadOnly(v ssa.Value, depth int) bool {
	refs := v.Referrers()
	if refs == nil {
		return true
	}
	if depth > 4 {
		return false
	}
	for _, r := range *refs {
		switch x := r.(type) {
		case *ssa.UnOp:
			if x.Op != token.MUL {
				return false
			}
			// the loaded value itself may be a pointer that is written through; only single-word
			// non-pointer-to-struct cells are of interest to the callers of this predicate
		case *ssa.FieldAddr, *ssa.IndexAddr:
			// reading a field or element of the captured variable
			if !freeVarReadOnly(x.(ssa.Value), depth+1) {
				return false
			}
		case *ssa.DebugRef:
		case *ssa.MakeClosure:
			f2, ok := x.Fn.(*ssa.Function)
			if !ok {
				return false
			}
			for i, bv := range x.Bindings {
				if bv == v && (i >= len(f2.FreeVars) || !freeVarReadOnly(f2.FreeVars[i], depth+1)) {
					return false
				}
			}
		default:
			return false
		}
	}
	return true
}

// forEachPathValue evaluates, for every disjunct of state st, the value that a load of o.path at
// `at` would see on that path (its governing store, as in disjunctLoad) and reports whether
// check holds for all of them; false when some path's value cannot be determined.
func (f *Frame) forEachPathValue(o *Obj, path string, at ssa.Instruction, st DNF, check func(Conj, AV) bool) bool {
	if len(o.stores[path]) == 0 && !f.hasPrefixStores(o, path) {
		return false
	}
	save := f.cur
	f.cur = st
	f.eachPick, f.eachOK = check, false
	f.orderedLoad(o, path, at)
	ok := f.eachOK
	f.eachPick = nil
	f.cur = save
	return ok
}
