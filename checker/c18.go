package main

// C18 — the TCP stream classifier agrees with the encoders and the request parsers
// (DESIGN §3 C18).

import (
	"fmt"
	"go/ast"
	"go/constant"
	"go/token"
	"go/types"
	"sort"
	"strings"

	"golang.org/x/tools/go/ssa"
)

func init() {
	register("C18", checkC18, "R18.1: the classifier's function-code table (constant-folded by the type checker) equals the specification's ten codes, the FunctionCode() constants of the request types and the case constants of all four dispatchers; inside the classifier the table is scanned completely and success is returned exactly on an element equal to the frame's function byte. R18.2: on every accepting return the expected length is the affine form 6 + BE16(frame[4:6]). R18.3: the too-short verdict is returned exactly for len < 8; the classifier is then abstractly interpreted on the symbolic buffer written by each of the ten TCP request encoders (under the constructor's success state) for every prefix length p with 8 <= p <= L: every rejecting return must be infeasible and the expected length must equal the encoder's buffer length L. R18.4: the unsupported-function error carries transaction id, unit id and function from the frame and exception code 1. R18.5 (what it accepts never panics in the dispatcher) is C10. R18.6 what the dispatcher rejects is an addressed exception (C16 R16.2). R18.7 every TCP request encoder emits protocol id 0 for any struct contents (C01 R1.5). R18.8 the classifier's verdict depends on the first 8 bytes only (C15 R15.6).")
}

// globalArrayConsts returns the constant elements of a package-level array variable's
// initialiser, as folded by the type checker.
func globalArrayConsts(c *Ctx, pkgRel, name string) ([]int64, bool) {
	sp := c.pkg(pkgRel)
	pk := c.byPath[sp.Pkg.Path()]
	if pk == nil {
		return nil, false
	}
	obj := pk.Types.Scope().Lookup(name)
	if obj == nil {
		return nil, false
	}
	for _, f := range pk.Syntax {
		for _, d := range f.Decls {
			gd, ok := d.(*ast.GenDecl)
			if !ok || gd.Tok != token.VAR {
				continue
			}
			for _, s := range gd.Specs {
				vs := s.(*ast.ValueSpec)
				for i, n := range vs.Names {
					if pk.TypesInfo.Defs[n] != obj || i >= len(vs.Values) {
						continue
					}
					cl, ok := vs.Values[i].(*ast.CompositeLit)
					if !ok {
						return nil, false
					}
					var out []int64
					for _, e := range cl.Elts {
						tv, ok := pk.TypesInfo.Types[e]
						if !ok || tv.Value == nil {
							return nil, false
						}
						v, exact := constant.Int64Val(tv.Value)
						if !exact {
							return nil, false
						}
						out = append(out, v)
					}
					return out, true
				}
			}
		}
	}
	return nil, false
}

func setString(m map[int64]bool) string {
	var ks []int
	for k := range m {
		ks = append(ks, int(k))
	}
	sort.Ints(ks)
	return fmt.Sprint(ks)
}

func checkC18(c *Ctx, r *Report) {
	r.floor("R18.1", 5)
	r.floor("R18.2", 1)
	r.floor("R18.3", 10)
	r.floor("R18.5", 1)
	cls := c.fnMust("packet", "LooksLikeModbusTCP")
	id := fnID(cls)
	r.funcs[id] = true
	pos := c.pos(cls.Pos())
	// ---- R18.1 ----
	spec := map[int64]bool{}
	for _, sp := range specTable {
		spec[sp.fc] = true
	}
	table, ok := globalArrayConsts(c, "packet", "supportedFunctionCodes")
	r.instance("R18.1", 1)
	tset := map[int64]bool{}
	if !ok {
		r.undecided("R18.1", "packet.supportedFunctionCodes", "function-code table is not a constant composite literal", pos)
	} else {
		for _, v := range table {
			tset[v] = true
		}
		if setString(tset) == setString(spec) && len(table) == len(spec) {
			r.ok("R18.1", "packet.supportedFunctionCodes", "table = the ten supported function codes "+setString(spec), pos, true)
		} else {
			r.fail("R18.1", "packet.supportedFunctionCodes", "function-code table differs from the supported set", pos, "table "+setString(tset)+", supported "+setString(spec), "table:"+setString(tset))
		}
	}
	reqFC := map[int64]bool{}
	for tn := range requestTypes(c, "packet") {
		if fc, ok := functionCodeOf(c, tn); ok {
			reqFC[fc] = true
		}
	}
	r.instance("R18.1", 1)
	if setString(reqFC) == setString(spec) {
		r.ok("R18.1", "packet.Request types", "FunctionCode() constants of the request types = the supported set", pos, true)
	} else {
		r.fail("R18.1", "packet.Request types", "request types' function codes differ from the supported set", pos, setString(reqFC), "reqfc:"+setString(reqFC))
	}
	for _, name := range []string{"ParseTCPRequest", "ParseRTURequest", "ParseTCPResponse", "ParseRTUResponse"} {
		fn := c.fnMust("packet", name)
		r.instance("R18.1", 1)
		tmp := newReport(r.Prop, r.Tier)
		c02Dispatcher(c, tmp, fn, strings.Contains(name, "TCP"), false)
		bad := 0
		for _, it := range tmp.items {
			if it.Rule == "R2.4" && !it.OK {
				bad++
				it.Rule = "R18.1"
				r.add(it)
			}
		}
		if bad == 0 {
			r.ok("R18.1", fnID(fn), "case constants cover exactly the supported set, each calling the parser of that code and framing", c.pos(fn.Pos()), true)
		}
		r.funcs[fnID(fn)] = true
	}
	// ---- classifier itself ----
	an, fr := analyse(c, cls)
	_ = an
	data, _ := fr.vals[cls.Params[0]].(ASlice)
	lenField := fr.frameBytes(data, affConst(4), 2, true)
	fcb := fr.frameBytes(data, affConst(7), 1, true)
	tooShort := c.pkg("packet").Var("ErrTCPDataTooShort")
	r.instance("R18.2", 1)
	r.instance("R18.4", 1)
	var loopHdr *ssa.BasicBlock
	for _, rs := range fr.returns {
		p := c.pos(rs.instr.Pos())
		ev := rs.vals[1]
		isTooShort := false
		if ifc, ok := ev.(AIface); ok {
			if g, ok := ifc.val.(AGlobalVal); ok && g.g == tooShort {
				isTooShort = true
			}
		}
		if isTooShort {
			if rs.state.entails(atomLE(data.ln, affConst(7))) {
				r.ok("R18.3", id, "'too short' is returned only for len < 8", p, true)
			} else {
				r.fail("R18.3", id, "'too short' can be returned for a prefix of 8 or more bytes", p, truncate(rs.state.String(), 200), "tooshort-range")
			}
			continue
		}
		if !rs.state.entails(atomGE(data.ln, affConst(8))) {
			r.fail("R18.3", id, "a verdict other than 'too short' can be returned for len < 8", p, truncate(rs.state.String(), 200), "short-not-tooshort")
		}
		nf := fr.nilness(ev)
		accepting := nf.kind == fConst && nf.b
		var excObj *Obj
		if ifc, ok := ev.(AIface); ok {
			if pp, ok := ifc.val.(APtr); ok && pp.obj != nil && !pp.obj.symbolic {
				excObj = pp.obj
			}
		}
		if accepting || excObj != nil {
			n, isI := rs.vals[0].(AInt)
			if isI && rs.state.entails(atomEQ(fr.useIn(n, rs.state, "expected length"), lenField.addc(6))) {
				r.ok("R18.2", id, "expected length = 6 + BE16(frame[4:6])", p, true)
			} else {
				r.fail("R18.2", id, "expected length is not 6 + the header's length field", p, describeAV(rs.vals[0]), "explen:"+describeAV(rs.vals[0]))
			}
		}
		if excObj != nil {
			tn, _ := excObj.typ.(*types.Named)
			val := fr.loadPath(excObj, "", excObj.typ, rs.instr)
			pk, pt, okp := findField(fr.an.u, val, tn, "Packet", 0)
			chk := func(field string, want Aff) {
				okk := false
				var fv AV
				if okp {
					var ok2 bool
					fv, _, ok2 = findField(fr.an.u, pk, pt, field, 0)
					if ai, isI := fv.(AInt); ok2 && isI {
						okk = rs.state.entails(atomEQ(fr.useIn(ai, rs.state, field), want))
					}
				}
				if okk {
					r.ok("R18.4", id, "unsupported-function error carries "+field+" = "+want.String(), p, true)
				} else {
					r.fail("R18.4", id, "unsupported-function error does not carry "+field+" = "+want.String(), p, describeAV(fv), "exc:"+field)
				}
			}
			chk("TransactionID", fr.frameBytes(data, affConst(0), 2, true))
			chk("UnitID", fr.frameBytes(data, affConst(6), 1, true))
			chk("Function", fcb)
			chk("Code", affConst(1))
		}
	}
	// table scan shape: success inside the loop iff table[i] == function byte, all i visited
	scanOK, scanWhy := false, "no comparison of a table element with the function byte found"
	for _, b := range cls.Blocks {
		iff, ok := b.Instrs[len(b.Instrs)-1].(*ssa.If)
		if !ok {
			continue
		}
		cmp, ok := iff.Cond.(*ssa.BinOp)
		if !ok || cmp.Op != token.EQL {
			continue
		}
		for _, pair := range [][2]ssa.Value{{cmp.X, cmp.Y}, {cmp.Y, cmp.X}} {
			// table element: (copy of the array)[i] as `range` produces it, or *(&table[i])
			var g *ssa.Global
			var idxV ssa.Value
			var idxBlk *ssa.BasicBlock
			if ix, ok := pair[0].(*ssa.Index); ok {
				if ld, ok := ix.X.(*ssa.UnOp); ok {
					g, _ = ld.X.(*ssa.Global)
				}
				idxV, idxBlk = ix.Index, ix.Block()
			} else if ld, ok := pair[0].(*ssa.UnOp); ok && ld.Op == token.MUL {
				if ia, ok := ld.X.(*ssa.IndexAddr); ok {
					g, _ = ia.X.(*ssa.Global)
					idxV, idxBlk = ia.Index, ia.Block()
				}
			}
			if g == nil || g.Name() != "supportedFunctionCodes" {
				continue
			}
			other, isI := fr.intVal(pair[1])
			if !isI || !other.a.equal(fcb) {
				scanWhy = "table element is not compared with frame[7]"
				continue
			}
			arr := g.Type().(*types.Pointer).Elem().Underlying().(*types.Array)
			if okc, why := coversIndex(fr, idxV, idxBlk, affConst(arr.Len()), b.Succs[0]); !okc {
				scanWhy = "table scan: " + why
				continue
			}
			// true edge returns success
			succ := b.Succs[0]
			if ret, ok := succ.Instrs[len(succ.Instrs)-1].(*ssa.Return); ok && len(ret.Results) == 2 && isNilConst(ret.Results[1]) {
				scanOK = true
				switch iv := idxV.(type) {
				case *ssa.BinOp:
					if p2, ok := iv.X.(*ssa.Phi); ok {
						loopHdr = p2.Block()
					}
				case *ssa.Phi:
					loopHdr = iv.Block()
				}
			} else {
				scanWhy = "a matching table element does not lead to the accepting return"
			}
		}
	}
	r.instance("R18.1", 1)
	if scanOK {
		r.ok("R18.1", id, "the whole table is scanned and a frame is accepted exactly when some element equals frame[7]", pos, true)
	} else {
		r.fail("R18.1", id, "classifier does not accept exactly the function codes of its table", pos, scanWhy, "scan:"+scanWhy)
	}
	// ---- R18.3 on encoder frames ----
	crc := c.fnMust("packet", "CRC16")
	reqs := requestTypes(c, "packet")
	for _, m := range bytesMethods(c, "packet") {
		tn := m.Signature.Recv().Type().(*types.Named)
		if !reqs[tn] || !hasMBAP(tn) {
			continue
		}
		r.instance("R18.3", 1)
		c18OnEncoder(c, r, cls, m, crc, tset, loopHdr)
	}
	// ---- R18.5: whatever the classifier accepts with n bytes available is handled by the
	// dispatcher without panic (the error typing of rejections is C16 R16.1) ----
	disp := c.fnMust("packet", "ParseTCPRequest")
	r.instance("R18.5", 1)
	{
		an := &Analysis{ctx: c, u: newUniverse(), top: disp}
		pf := an.newFrame(disp, nil, nil)
		d, _ := pf.vals[disp.Params[0]].(ASlice)
		lf := pf.frameBytes(d, affConst(4), 2, true)
		prem := Conj{atomGE(d.ln, affConst(8)), atomEQ(pf.frameBytes(d, affConst(2), 1, true), affConst(0)), atomEQ(pf.frameBytes(d, affConst(3), 1, true), affConst(0)),
			atomGE(lf, affConst(3)), atomNE(pf.frameBytes(d, affConst(7), 1, true), affConst(0)), atomEQ(d.ln, lf.addc(6))}
		pf.run(DNF{prem})
		bad := 0
		for _, o := range an.obligs {
			if !o.ok {
				bad++
				r.fail("R18.5", fnID(disp), "dispatcher may panic on a frame the classifier accepted: "+o.desc+" in "+o.chain, c.pos(o.pos), o.facts, o.kind+":"+c.exprAt(o.pos, o.fn))
			}
		}
		if bad == 0 {
			r.ok("R18.5", fnID(disp), fmt.Sprintf("all %d index/slice/assert obligations of ParseTCPRequest hold for every frame the classifier accepts (len = 6 + length field)", len(an.obligs)), c.pos(disp.Pos()), true)
		}
	}
	// R18.8: the verdict for a prefix of 8 or more bytes is the verdict for the whole buffer
	classifierPrefixOnly(c, r, "R18.8")
	r.floor("R18.8", 1)
	// R18.7: the classifier accepts a frame only with protocol id 0, so every TCP request encoder
	// must emit 0 there whatever the (exported, caller-writable) struct fields hold
	{
		reqs := requestTypes(c, "packet")
		for _, m := range bytesMethods(c, "packet") {
			tn := m.Signature.Recv().Type().(*types.Named)
			if reqs[tn] && hasMBAP(tn) {
				r.instance("R18.7", 1)
				r.funcs[fnID(m)] = true
				c01ConstProtocol(c, r, "R18.7", m)
			}
		}
		r.floor("R18.7", 10)
	}
	// R18.6: what the dispatcher rejects encodes to an exception addressed to the frame (C16 R16.2)
	{
		tmp := newReport(r.Prop, r.Tier)
		c16Dispatcher(c, tmp)
		r.instance("R18.6", copyItems(tmp, r, "R16.2", "R18.6"))
	}
	r.assumption("request frames are those Bytes() produces under the constructor's success state")
	r.assumption("the allow-unsupported flag is arbitrary; slice lengths below 2^31; int is 64 bits wide")
}

func c18OnEncoder(c *Ctx, r *Report, cls, m *ssa.Function, crc *ssa.Function, table map[int64]bool, loopHdr *ssa.BasicBlock) {
	id := fnID(m)
	pos := c.pos(m.Pos())
	r.funcs[id] = true
	er := runEncoder(c, "packet", m, crc)
	if !er.okay {
		r.undecided("R18.3", id, "encoder not interpretable: "+er.why, pos)
		return
	}
	fc, _ := functionCodeOf(c, er.tn)
	L := er.res.root.ln
	p := er.an.u.sym("prefixlen", 0, maxLen)
	st := dnfAnd(er.rst, DNF{Conj{atomGE(affSym(p), affConst(8)), atomLE(affSym(p), L)}})
	st = er.fr.compress1(st)
	frame := ASlice{root: er.res.root, off: Aff{}, ln: affSym(p), elem: er.res.elem}
	an := er.an
	an.obligs = nil
	cf := an.newFrame(cls, nil, []AV{frame})
	cf.run(st)
	okAll := true
	for _, rs := range cf.returns {
		if len(rs.state) == 0 {
			continue
		}
		nf := cf.nilness(rs.vals[1])
		if nf.kind == fConst && nf.b {
			n, isI := rs.vals[0].(AInt)
			if !isI || !rs.state.entails(atomEQ(cf.useIn(n, rs.state, "expected length"), L)) {
				r.fail("R18.3", id, "expected length reported for an encoded request (or a prefix of it) is not the frame's length", pos,
					fmt.Sprintf("reported %s, frame length %s", describeAV(rs.vals[0]), L.String()), "explen-mismatch")
				okAll = false
			}
			continue
		}
		// the post-loop "unsupported" return is unreachable when the function code is in the table
		if loopHdr != nil && table[fc] && rs.instr.Block().Idom() != nil && dominatedBy(rs.instr.Block(), loopHdr) {
			continue
		}
		what := c.exprAtReturn(rs.instr)
		if g := globalOfErr(rs.vals[1]); g != "" {
			what = g
		}
		r.fail("R18.3", id, fmt.Sprintf("classifier can reject the encoded FC%d request (or a prefix of 8..L bytes) with %s", fc, what), pos,
			"feasible under "+truncate(rs.state.String(), 300), "rejects:"+what)
		okAll = false
	}
	for _, o := range an.obligs {
		if !o.ok {
			r.fail("R18.3", id, "classifier may panic on an encoded request", c.pos(o.pos), o.desc, "panic:"+o.kind)
			okAll = false
		}
	}
	if okAll {
		r.ok("R18.3", id, fmt.Sprintf("every prefix of 8..L bytes of the encoded FC%d request is classified without error with expected length L = %s", fc, L.String()), pos, true)
	}
}

func dominatedBy(b, d *ssa.BasicBlock) bool { return d.Dominates(b) }

func globalOfErr(v AV) string {
	if ifc, ok := v.(AIface); ok {
		if g, ok := ifc.val.(AGlobalVal); ok {
			return g.g.Name()
		}
	}
	if g, ok := v.(AGlobalVal); ok {
		return g.g.Name()
	}
	return ""
}
