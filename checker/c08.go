package main

// C08 — a request call always terminates with a classified error on transport faults
// (structural clauses; DESIGN §3 C08).

import (
	"fmt"
	"go/constant"
	"go/token"
	"go/types"
	"sort"
	"strings"

	"golang.org/x/tools/go/ssa"
)

func init() {
	register("C08", checkC08, "Wall-clock bounds are NOT decided. Decided on Do/do of both clients: R8.1 every cycle of the read loop passes the non-blocking select on ctx.Done() and on the channel of a single time.After(readTimeout) created before the loop; its two cases return ctx.Err() and a *ClientError. R8.2 (network client) every Read is preceded in the same iteration by SetReadDeadline(now + finite constant); the loop calls nothing outside a frozen allow-list of non-blocking operations. R8.3 every error returned is *ClientError (fresh with Err set, or the ErrPacketTooLong / ErrClientNotConnected values), ctx.Err(), one of the two immediate precondition errors, or what parseResponseFunc returned; a raw transport error is a violation. R8.4 the oversize return is taken exactly when total exceeds the ADU size, which the Read window makes observable (window end > ADU size), and all buffer accesses are proven in bounds with total <= ADU size as loop invariant. R8.5 the nil-request and not-connected tests precede the first use of request and transport. The serial port has no deadline API: that a serial Read returns in finite time is assumed. R8.6 every value stored into a timeout field is proven >= 1ns where it is stored and comes from the configuration field of the same role; function fields are only overwritten with proven non-nil values; every ClientConfig timeout/function field is consumed; constructors pass the caller's configuration on. R8.7 Connect stores the connection only after its dial error was found nil. R8.8 no reply bytes can make the installed parse/recognise functions panic (C10 obligations from the installed entry points). R8.9 no return of a client method leaves the client's mutex held without a deferred unlock. R8.10 ClientError.Unwrap returns exactly the stored cause. R8.4 counts the obligations of the client's own helpers too; the unchecked Flusher assertion is discharged by a field invariant established from the constructors. R8.6 also requires guard purity: the store of a configured value is control-dependent only on conditions over that same ClientConfig field. R8.11 the reply dispatchers hand their whole input to the per-function parsers (surplus bytes stay visible to the length checks). R8.1/R8.2 accept the poll in a loop-free non-blocking helper of the module (then the Read is reached only on the select's default case and the helper's error is returned). R8.3 also: where the cause of a *ClientError can be the result of fmt.Errorf, every operand of error type is matched by a %w verb of a constant format.")
}

func checkC08(c *Ctx, r *Report) {
	r.floor("R8.1", 2)
	r.floor("R8.3", 2)
	r.floor("R8.4", 2)
	r.floor("R8.5", 2)
	for _, spec := range []struct {
		name   string
		serial bool
	}{{"Client", false}, {"SerialClient", true}} {
		ci := analyseClient(c, spec.name, spec.serial)
		r.funcs[fnID(ci.Do)] = true
		r.funcs[fnID(ci.do)] = true
		for _, rule := range []string{"R8.1", "R8.3", "R8.4", "R8.5"} {
			r.instance(rule, 1)
		}
		if !spec.serial {
			r.instance("R8.2", 1)
		}
		c08Client(c, r, ci, false)
	}
	r.floor("R8.2", 1)
	// R8.6: the timeouts and functions an exchange relies on are usable values, and configured
	// values reach the client
	cfgStores(c, r, "R8.6", true, true)
	cfgPassThrough(c, r, "R8.6", func(f *types.Var) bool {
		_, isSig := f.Type().Underlying().(*types.Signature)
		return isDuration(f.Type()) || isSig
	})
	r.floor("R8.6", 12)
	// R8.7: "not connected" stays observable: the transport field only ever holds a connection whose
	// dial succeeded
	connectStores(c, r, "R8.7")
	r.floor("R8.7", 1)
	// R8.9: never hangs on its own lock: no exit of a client method leaves the client's mutex held
	for _, name := range []string{"Client", "SerialClient"} {
		lockLeakRule(c, r, analyseLocks(c, "", name), "R8.9", name)
	}
	r.floor("R8.9", 4)
	// R8.10: "the retryable client error wrapping the cause": ClientError.Unwrap hands back
	// exactly the stored cause (errors.Is / errors.As on the returned error reach it)
	{
		r.instance("R8.10", 1)
		uw := c.fnOpt("", "*ClientError.Unwrap")
		if uw == nil {
			r.fail("R8.10", "modbus.ClientError", "ClientError has no Unwrap method: the cause of a transport failure cannot be inspected", "-", "", "no-unwrap")
		} else {
			_, fr := analyse(c, uw)
			okU := len(fr.returns) > 0
			detail := ""
			if p, ok := fr.val(uw.Params[0]).(APtr); ok && p.obj != nil {
				want := describeAV(fr.loadPath(p.obj, pathStr(p.path, 0), types.Universe.Lookup("error").Type(), nil))
				for _, rs := range fr.returns {
					if len(rs.state) > 0 && describeAV(rs.vals[0]) != want {
						okU = false
						detail = describeAV(rs.vals[0]) + " vs " + want
					}
				}
			} else {
				okU = false
			}
			if okU {
				r.ok("R8.10", fnID(uw), "Unwrap returns the stored cause on every path", c.pos(uw.Pos()), true)
			} else {
				r.fail("R8.10", fnID(uw), "Unwrap can return something other than the stored cause (errors.Is/As no longer find the transport error)", c.pos(uw.Pos()), detail, "unwrap-not-cause")
			}
		}
		r.floor("R8.10", 1)
	}
	// R8.11: surplus bytes after a reply are not hidden from the parsers' own length checks: the
	// reply dispatchers hand their whole input to the per-function parser (C02 R2.4 clause)
	{
		tmp := newReport(r.Prop, r.Tier)
		for _, name := range []string{"ParseTCPResponse", "ParseRTUResponse"} {
			c02Dispatcher(c, tmp, c.fnMust("packet", name), name == "ParseTCPResponse", false)
		}
		r.instance("R8.11", copyItems(tmp, r, "R2.4", "R8.11", "is handed the dispatcher's whole input"))
		r.floor("R8.11", 10)
	}
	// R8.8: never panics: the installed reply functions cannot fail on any reply bytes
	installedNoPanic(c, r, "R8.8")
	r.floor("R8.8", 4)
	r.assumption("a serial port Read returns in finite time (no deadline API on io.ReadWriteCloser)")
	r.assumption("context contract: ctx.Err() is non-nil once ctx.Done() is closed; user hooks and user-supplied parse/recogniser functions return")
	r.assumption("io.Reader contract 0 <= n <= len(p)")
}

var loopAllowInvoke = map[string]bool{"Done": true, "Err": true, "SetReadDeadline": true, "Read": true, "AfterEachRead": true, "Flush": true}
var loopAllowStatic = map[string]bool{"errors.Is": true, "errors.New": true, "(time.Time).Add": true}

func c08Client(c *Ctx, r *Report, ci *clientInfo, control bool) map[string]bool {
	fired := map[string]bool{}
	id := fnID(ci.do)
	rep := func(rule string, ok bool, what, detail, sig, pos string) {
		if !ok {
			fired[rule+":"+sig] = true
		}
		if control {
			return
		}
		if ok {
			r.ok(rule, id, what, pos, true)
		} else {
			r.fail(rule, id, what, pos, detail, sig)
		}
	}
	if ci.problem != "" {
		fired["undecided"] = true
		if !control {
			r.undecided("R8.1", id, ci.problem, c.pos(ci.do.Pos()))
		}
		return fired
	}
	fr := ci.inner
	hdr := ci.phi.Block()
	sum := ci.total.add(ci.n)
	// ---- R8.1 ----
	var sel *ssa.Select
	var selAt ssa.Instruction // where the poll sits in the loop: the select, or the call of the helper that performs it
	selFr := fr
	origin := func(v ssa.Value) ssa.Value { return v }
	for b := range ci.loop {
		for _, in := range b.Instrs {
			if s, ok := in.(*ssa.Select); ok {
				sel, selAt = s, s
			}
		}
	}
	if sel == nil {
		// a poll helper of the module: straight-line, non-blocking, every execution passes its select
		for b := range ci.loop {
			for _, in := range b.Instrs {
				call, ok := in.(*ssa.Call)
				if !ok {
					continue
				}
				callee := call.Common().StaticCallee()
				ch := fr.child[call]
				if callee == nil || ch == nil || !c.inModule(callee) || !nonBlockingHelper(c, callee, 1) {
					continue
				}
				for _, hb := range callee.Blocks {
					for _, hin := range hb.Instrs {
						s, ok := hin.(*ssa.Select)
						if !ok {
							continue
						}
						all := true
						for _, rb := range callee.Blocks {
							if _, isRet := rb.Instrs[len(rb.Instrs)-1].(*ssa.Return); isRet && !hb.Dominates(rb) {
								all = false
							}
						}
						if all {
							sel, selAt, selFr = s, call, ch
							args := call.Common().Args
							origin = func(v ssa.Value) ssa.Value {
								if p, ok := v.(*ssa.Parameter); ok && p.Parent() == callee {
									for i, q := range callee.Params {
										if q == p && i < len(args) {
											return args[i]
										}
									}
								}
								return v
							}
						}
					}
				}
			}
		}
	}
	if sel == nil || sel.Blocking || len(sel.States) != 2 {
		rep("R8.1", false, "the read loop has no non-blocking two-way select", "", "no-select", c.pos(ci.do.Pos()))
	} else {
		sp := c.pos(sel.Pos())
		everyCycle := true
		for _, p := range hdr.Preds {
			if isBackEdge(p, hdr) && !selAt.Block().Dominates(p) {
				everyCycle = false
			}
		}
		rep("R8.1", everyCycle && ci.loop[selAt.Block()], "every cycle of the read loop passes the non-blocking select", "", "select-not-on-every-cycle", sp)
		doneOK, timerOK := false, false
		for _, st := range sel.States {
			if call, ok := origin(st.Chan).(*ssa.Call); ok {
				cm := call.Common()
				if cm.IsInvoke() && cm.Method.Name() == "Done" && origin(cm.Value) == ci.do.Params[1] {
					doneOK = true
				}
				if callee := cm.StaticCallee(); callee != nil && callee.String() == "time.After" {
					// created before the loop, from the readTimeout field
					outside := !ci.loop[call.Block()] && call.Block().Dominates(hdr)
					fromField := false
					if a, ok := fr.val(cm.Args[0]).(AInt); ok {
						// any time.Duration field of the client (R8.6 decides which values it can hold)
						for i := 0; i < ci.st.NumFields(); i++ {
							if isDuration(ci.st.Field(i).Type()) && strings.Contains(a.a.String(), "."+ci.st.Field(i).Name()) {
								fromField = true
							}
						}
					}
					timerOK = outside && fromField
					if !outside {
						rep("R8.1", false, "the total-timeout timer is created inside the loop, so it is re-armed on every iteration and never fires", "", "timer-in-loop", c.pos(call.Pos()))
					}
				}
			}
		}
		rep("R8.1", doneOK, "the select polls ctx.Done() of this call's context", "", "select-ctx", sp)
		rep("R8.1", timerOK, "the select polls the channel of one time.After(readTimeout) created before the loop", "", "select-timer", sp)
		// the two cases return errors
		ctxRet, toRet := false, false
		idx, _ := selFr.vals[selIndexExtract(sel)].(AInt)
		for _, rs := range selFr.returns {
			if len(rs.state) == 0 || len(idx.a.terms) == 0 || len(rs.vals) == 0 {
				continue
			}
			cls := ci.errorClass(selFr, rs.vals[len(rs.vals)-1])
			if rs.state.entails(atomEQ(idx.a, affConst(0))) && cls == "ctx.Err" {
				ctxRet = true
			}
			if rs.state.entails(atomEQ(idx.a, affConst(1))) && cls == "ClientError" {
				toRet = true
			}
		}
		rep("R8.1", ctxRet, "the ctx.Done() case returns ctx.Err()", "", "ctx-case", sp)
		rep("R8.1", toRet, "the timeout case returns a *ClientError", "", "timeout-case", sp)
		// ... on every path: once a stop case has fired, control never comes back to the select
		// (the time.After channel delivers one value only: a path from its case back into the loop
		// polls a channel that stays silent, and the call no longer ends by itself)
		if selFr == fr {
			ext := selIndexExtract(sel)
			for _, b := range fr.fn.Blocks {
				if len(b.Instrs) == 0 {
					continue
				}
				iff, ok := b.Instrs[len(b.Instrs)-1].(*ssa.If)
				if !ok {
					continue
				}
				bo, ok := iff.Cond.(*ssa.BinOp)
				if !ok || bo.Op != token.EQL || bo.X != ext {
					continue
				}
				k, ok := bo.Y.(*ssa.Const)
				if !ok || k.Value == nil || k.Int64() < 0 || k.Int64() > 1 {
					continue
				}
				seen := map[*ssa.BasicBlock]bool{}
				back := false
				var walk func(x *ssa.BasicBlock)
				walk = func(x *ssa.BasicBlock) {
					if seen[x] || back {
						return
					}
					seen[x] = true
					if x == sel.Block() {
						back = true
						return
					}
					for _, sx := range x.Succs {
						walk(sx)
					}
				}
				walk(b.Succs[0])
				what := map[int64]string{0: "ctx.Done()", 1: "timeout"}[k.Int64()]
				rep("R8.1", !back, "no path leads from the "+what+" case back to the select", "", "stop-case-continues:"+what, c.pos(iff.Pos()))
			}
		}
		if selFr != fr && len(idx.a.terms) > 0 {
			// the poll is a helper's: the exchange goes on only where neither case fired, and where one
			// fired the helper's error is what do returns
			rep("R8.1", ci.read.state.entails(atomLE(idx.a, affConst(-1))), "the Read is reached only when neither ctx.Done() nor the timeout fired", truncate(ci.read.state.String(), 200), "read-after-stop", posOfCall(c, ci.read))
			fwd := false
			for _, rs := range fr.returns {
				if len(rs.state) == 0 || !rs.state.entails(atomGE(idx.a, affConst(0))) {
					continue
				}
				if ch := ci.childOfCall(rs.vals[1]); ch == selFr {
					fwd = true
				}
			}
			rep("R8.1", fwd, "where the poll reports a stop, do returns the poll's error", "", "stop-not-returned", sp)
		}
	}
	// ---- R8.2 ----
	var calls []string
	okAllow := true
	for _, cr := range ci.an.calls {
		if cr.frame != fr || !ci.loop[cr.instr.Block()] {
			continue
		}
		name := ""
		switch {
		case cr.method != "":
			name = "invoke " + cr.method
			if !loopAllowInvoke[cr.method] {
				okAllow = false
				rep("R8.2", false, "the read loop calls "+name+", which is not on the allow-list of non-blocking operations", "", "blocking-call:"+cr.method, posOfCall(c, cr))
			}
		case cr.callee != nil:
			name = cr.callee.String()
			if !loopAllowStatic[name] && cr.callee.Name() != "flush" && !(c.inModule(cr.callee) && nonBlockingHelper(c, cr.callee, 1)) {
				okAllow = false
				rep("R8.2", false, "the read loop calls "+name+", which is not on the allow-list of non-blocking operations", "", "blocking-call:"+name, posOfCall(c, cr))
			}
		case cr.dyn != nil:
			name = "dynamic " + describeAV(cr.dyn)
			isClock := false
			if sig, ok := cr.instr.Common().Value.Type().Underlying().(*types.Signature); ok && sig.Params().Len() == 0 && sig.Results().Len() == 1 {
				if n, ok := sig.Results().At(0).Type().(*types.Named); ok && n.Obj().Pkg() != nil && n.Obj().Pkg().Path() == "time" && n.Obj().Name() == "Time" {
					isClock = true // the injectable clock: func() time.Time
				}
			}
			if !(ci.isField(cr.dyn, ci.asErr) || isClock) {
				okAllow = false
				rep("R8.2", false, "the read loop calls "+name+", which is not on the allow-list", "", "blocking-call:dynamic", posOfCall(c, cr))
			}
		}
		calls = append(calls, name)
	}
	if okAllow {
		rep("R8.2", true, fmt.Sprintf("the read loop only calls allow-listed non-blocking operations (%d calls)", len(calls)), "", "", c.pos(hdr.Instrs[0].Pos()))
	}
	if !ci.serial {
		dls := ci.callsIn(fr, func(cr *CallRec) bool { return cr.method == "SetReadDeadline" && ci.isField(cr.recv, ci.transport) })
		okDL := false
		for _, d := range dls {
			if !ci.loop[d.instr.Block()] || !d.instr.Block().Dominates(ci.read.instr.Block()) {
				continue
			}
			// argument: (time.Time).Add(x, const > 0)
			if add, ok := d.instr.Common().Args[0].(*ssa.Call); ok {
				if callee := add.Common().StaticCallee(); callee != nil && callee.String() == "(time.Time).Add" {
					if k, ok := add.Common().Args[1].(*ssa.Const); ok && k.Value != nil {
						if v, exact := constant.Int64Val(k.Value); exact && v > 0 && v <= int64(10_000_000_000) {
							okDL = true
						}
					}
				}
			}
		}
		rep("R8.2", okDL, "every Read is preceded in the same iteration by SetReadDeadline(now + positive finite constant)", "", "no-read-deadline", posOfCall(c, ci.read))
	}
	// ---- R8.3 ----
	type errSite struct {
		fr   *Frame
		name string
	}
	sites := []errSite{{ci.inner, "do"}, {ci.top, "Do"}}
	visited := map[*Frame]bool{ci.inner: true, ci.top: true}
	for si := 0; si < len(sites); si++ {
		site := sites[si]
		for _, rs := range site.fr.returns {
			if len(rs.state) == 0 {
				continue
			}
			n := len(rs.vals)
			cls := ci.errorClass(site.fr, rs.vals[n-1])
			p := c.pos(rs.instr.Pos())
			okc := false
			switch {
			case cls == "nil":
				continue
			case strings.HasPrefix(cls, "ClientError"), cls == "ctx.Err", cls == "parseResponseFunc":
				okc = true
			case cls == "errors.New" && site.fr.within(ci.top) && !site.fr.within(ci.inner):
				okc = true // immediate precondition errors (nil request, port not set)
			case cls == "call:do" && site.name == "Do":
				okc = true // forwarded from do, classified there
			case strings.HasPrefix(cls, "call:"):
				// forwarded from a helper of the client that was inlined: classified there
				if ch := ci.childOfCall(rs.vals[n-1]); ch != nil && ch.fn.Pkg == ci.do.Pkg {
					okc = true
					if !visited[ch] {
						visited[ch] = true
						sites = append(sites, errSite{ch, ch.fn.Name()})
					}
				}
			}
			rep("R8.3", okc, fmt.Sprintf("%s returns an error of class %s", site.name, cls), "error value "+describeAV(rs.vals[n-1]), "class:"+cls, p)
			// a fresh ClientError must have Err set to a non-nil value
			if cls == "ClientError" {
				if ifc, ok := rs.vals[n-1].(AIface); ok {
					if pp, ok := ifc.val.(APtr); ok && pp.obj != nil {
						ef := site.fr.loadPath(pp.obj, ".0", types.Universe.Lookup("error").Type(), rs.instr)
						nf := site.fr.nilness(ef)
						nonNil := false
						if nf.kind == fConst {
							nonNil = !nf.b
						} else {
							nonNil = rs.state.entailsForm(formNot(nf))
						}
						rep("R8.3", nonNil, "the *ClientError wraps a non-nil cause", describeAV(ef), "clienterror-nil-cause", p)
					}
				}
			}
		}
	}
	// a cause that was put into words is no longer there for errors.Is / errors.As: where the value
	// stored as the cause of a *ClientError can be the result of fmt.Errorf, every error among its
	// operands is wrapped with %w
	{
		fns := map[*ssa.Function]bool{ci.do: true, ci.Do: true}
		for f := range visited {
			fns[f.fn] = true
		}
		var fl []*ssa.Function
		for f := range fns {
			fl = append(fl, f)
		}
		sort.Slice(fl, func(i, j int) bool { return fl[i].String() < fl[j].String() })
		for _, fn := range fl {
			for _, b := range fn.Blocks {
				for _, in := range b.Instrs {
					st, ok := in.(*ssa.Store)
					if !ok {
						continue
					}
					fa, ok := st.Addr.(*ssa.FieldAddr)
					if !ok {
						continue
					}
					if n, ok := deref(fa.X.Type()).(*types.Named); !ok || n.Obj().Name() != "ClientError" {
						continue
					}
					seen := map[ssa.Value]bool{}
					var walk func(v ssa.Value)
					walk = func(v ssa.Value) {
						if v == nil || seen[v] {
							return
						}
						seen[v] = true
						switch x := v.(type) {
						case *ssa.Phi:
							for _, e := range x.Edges {
								walk(e)
							}
						case *ssa.MakeInterface:
							walk(x.X)
						case *ssa.ChangeInterface:
							walk(x.X)
						case *ssa.Call:
							if sc := x.Common().StaticCallee(); sc != nil && sc.String() == "fmt.Errorf" {
								nerr, nw, constFmt := errorfOperands(x)
								if nerr > 0 {
									rep("R8.3", constFmt && nw >= nerr, "an error formatted into the cause of a *ClientError is wrapped (%w), not flattened into text", fmt.Sprintf("%d error operand(s), %d %%w verb(s)", nerr, nw), "cause-not-wrapped", c.pos(x.Pos()))
								}
							}
						}
					}
					walk(st.Val)
				}
			}
		}
	}
	// ---- R8.4 ----
	var tooLong *ReturnSite
	for _, site := range expandedReturns(fr, 0) {
		// the return itself, or the return of a local helper the error is routed through
		if len(site.rs.vals) == 2 && len(site.rs.state) > 0 && strings.Contains(ci.errorClass(site.fr, site.rs.vals[1]), "ErrPacketTooLong") {
			tooLong = site.rs
		}
	}
	if tooLong == nil {
		rep("R8.4", false, "no return reports ErrPacketTooLong", "", "no-oversize-return", c.pos(ci.do.Pos()))
	} else {
		rep("R8.4", tooLong.state.entails(atomGE(sum, affConst(ci.maxADU+1))), fmt.Sprintf("ErrPacketTooLong is returned only when more than %d bytes were received", ci.maxADU), truncate(tooLong.state.String(), 200), "oversize-condition", c.pos(tooLong.instr.Pos()))
	}
	for _, rs := range fr.returns {
		nf := fr.nilness(rs.vals[1])
		if nf.kind == fConst && nf.b && len(rs.state) > 0 {
			rep("R8.4", rs.state.entails(atomLE(sum, affConst(ci.maxADU))), fmt.Sprintf("a frame handed to the parser has at most %d bytes", ci.maxADU), truncate(rs.state.String(), 200), "oversize-success", c.pos(rs.instr.Pos()))
		}
	}
	if arg, ok := ci.read.args[0].(ASlice); ok {
		st := ci.read.state
		rep("R8.4", st.entails(atomGE(arg.off.add(arg.ln), affConst(ci.maxADU+1))), fmt.Sprintf("the Read window extends beyond %d bytes, so an oversize reply is observable", ci.maxADU),
			fmt.Sprintf("window end %s", arg.off.add(arg.ln).String()), "window-hides-oversize", posOfCall(c, ci.read))
	}
	nob, bad := 0, 0
	for _, o := range ci.an.obligs {
		// do itself and the client's own helpers inlined under it
		if o.fn != ci.do && !(o.fn.Pkg == ci.do.Pkg && o.fn.Signature.Recv() != nil && types.Identical(deref(o.fn.Signature.Recv().Type()), ci.tn)) {
			continue
		}
		nob++
		if !o.ok {
			bad++
			rep("R8.4", false, "buffer access not proven in bounds: "+o.desc, o.facts, o.kind+":"+c.exprAt(o.pos, o.fn), c.pos(o.pos))
		}
	}
	if bad == 0 {
		rep("R8.4", true, fmt.Sprintf("all %d slice/index/make obligations of do() hold (loop invariant 0 <= total <= %d, reader contract)", nob, ci.maxADU), "", "", c.pos(ci.do.Pos()))
	}
	// ---- R8.5 ----
	tf := ci.top
	for _, cr := range ci.an.calls {
		if !ci.inTop(cr) {
			continue
		}
		if cr.method == "Bytes" || cr.method == "ExpectedResponseLength" {
			s := tf.an.u.boolSym("nil(" + ci.Do.Params[2].Name() + ")")
			rep("R8.5", cr.state.entails(atomEQ(affSym(s), affConst(0))), "the request is known to be non-nil where "+cr.method+"() is invoked on it", truncate(cr.state.String(), 200), "nil-request-use", posOfCall(c, cr))
		}
		if cr.callee == ci.do {
			s := tf.an.u.boolSym("nil(*" + ci.Do.Params[0].Name() + "." + ci.st.Field(ci.transport).Name() + ")")
			rep("R8.5", cr.state.entails(atomEQ(affSym(s), affConst(0))), "the transport is known to be non-nil where the exchange starts", truncate(cr.state.String(), 200), "nil-transport-use", posOfCall(c, cr))
		}
	}
	return fired
}

func selIndexExtract(sel *ssa.Select) ssa.Value {
	if refs := sel.Referrers(); refs != nil {
		for _, r := range *refs {
			if e, ok := r.(*ssa.Extract); ok && e.Index == 0 {
				return e
			}
		}
	}
	return sel
}

// nonBlockingHelper: fn is a loop-free function of the module that neither blocks (no blocking
// select, send, receive, go) nor calls anything outside the read loop's allow-lists.
func nonBlockingHelper(c *Ctx, fn *ssa.Function, depth int) bool {
	if fn.Blocks == nil {
		return false
	}
	for _, b := range fn.Blocks {
		for _, p := range b.Preds {
			if isBackEdge(p, b) {
				return false
			}
		}
		for _, in := range b.Instrs {
			switch x := in.(type) {
			case *ssa.Select:
				if x.Blocking {
					return false
				}
			case *ssa.Send, *ssa.Go, *ssa.Defer:
				return false
			case *ssa.UnOp:
				if x.Op == token.ARROW {
					return false
				}
			case *ssa.Call:
				cm := x.Common()
				switch {
				case cm.IsInvoke():
					if !loopAllowInvoke[cm.Method.Name()] {
						return false
					}
				case cm.StaticCallee() != nil:
					sc := cm.StaticCallee()
					if _, isB := cm.Value.(*ssa.Builtin); isB {
						continue
					}
					if !loopAllowStatic[sc.String()] && !(depth > 0 && c.inModule(sc) && nonBlockingHelper(c, sc, depth-1)) {
						return false
					}
				default:
					if _, isB := cm.Value.(*ssa.Builtin); !isB {
						return false
					}
				}
			}
		}
	}
	return true
}

// errorfOperands: for a call of fmt.Errorf, the number of operands of error type, the number of
// %w verbs in its format and whether the format is a constant.
func errorfOperands(ci ssa.CallInstruction) (nerr, nw int, constFmt bool) {
	args := ci.Common().Args
	if len(args) == 0 {
		return 0, 0, false
	}
	if k, ok := args[0].(*ssa.Const); ok && k.Value != nil && k.Value.Kind() == constant.String {
		constFmt = true
		nw = strings.Count(strings.ReplaceAll(constant.StringVal(k.Value), "%%", ""), "%w")
	}
	if len(args) < 2 {
		return 0, nw, constFmt
	}
	errT := types.Universe.Lookup("error").Type().Underlying().(*types.Interface)
	sl, ok := args[1].(*ssa.Slice)
	if !ok {
		return 0, nw, constFmt
	}
	refs := sl.X.Referrers()
	if refs == nil {
		return 0, nw, constFmt
	}
	for _, r := range *refs {
		ia, ok := r.(*ssa.IndexAddr)
		if !ok || ia.Referrers() == nil {
			continue
		}
		for _, r2 := range *ia.Referrers() {
			st, ok := r2.(*ssa.Store)
			if !ok || st.Addr != ia {
				continue
			}
			v := st.Val
			for {
				switch x := v.(type) {
				case *ssa.MakeInterface:
					v = x.X
					continue
				case *ssa.ChangeInterface:
					v = x.X
					continue
				}
				break
			}
			if types.Implements(v.Type(), errT) {
				nerr++
			}
		}
	}
	return nerr, nw, constFmt
}
