package main

// Verdicts, known findings, evidence and replay files (DESIGN 2).

import (
	"encoding/json"
	"fmt"
	"os"
	"path/filepath"
	"sort"
	"strings"
	"time"
)

// Item is one decided obligation of a rule.
type Item struct {
	Rule       string `json:"rule"`
	Construct  string `json:"construct"` // position-free identity, e.g. packet.ParseReadCoilsRequestTCP
	What       string `json:"what"`      // human-readable obligation
	Pos        string `json:"pos,omitempty"`
	OK         bool   `json:"ok"`
	Detail     string `json:"detail,omitempty"`    // facts / reason
	Signature  string `json:"signature,omitempty"` // normalised failing result, used to match known findings
	Nontrivial bool   `json:"nontrivial"`
	Info       bool   `json:"info,omitempty"` // observation only, never a violation
	Undecided  bool   `json:"undecided,omitempty"`
}

type Report struct {
	Prop      string
	Tier      string
	items     []Item
	instances map[string]int // rule -> instance count
	floors    map[string]int
	controls  map[string]bool
	assume    []string
	funcs     map[string]bool
	rules     []string
	start     time.Time
	notes     []string
	extra     map[string]interface{}
}

func newReport(prop, tier string) *Report {
	return &Report{Prop: prop, Tier: tier, instances: map[string]int{}, floors: map[string]int{}, controls: map[string]bool{},
		funcs: map[string]bool{}, start: time.Now(), extra: map[string]interface{}{}}
}

func (r *Report) add(it Item) { r.items = append(r.items, it) }

func (r *Report) ok(rule, construct, what, pos string, nontrivial bool) {
	r.add(Item{Rule: rule, Construct: construct, What: what, Pos: pos, OK: true, Nontrivial: nontrivial})
}

func (r *Report) fail(rule, construct, what, pos, detail, sig string) {
	r.add(Item{Rule: rule, Construct: construct, What: what, Pos: pos, OK: false, Detail: detail, Signature: sig, Nontrivial: true})
}

func (r *Report) info(rule, construct, what, pos string) {
	r.add(Item{Rule: rule, Construct: construct, What: what, Pos: pos, OK: true, Info: true})
}

func (r *Report) undecided(rule, construct, what, pos string) {
	r.add(Item{Rule: rule, Construct: construct, What: what, Pos: pos, OK: false, Undecided: true, Signature: "undecided", Nontrivial: true})
}

func (r *Report) instance(rule string, n int) { r.instances[rule] += n }
func (r *Report) floor(rule string, n int)    { r.floors[rule] = n }
func (r *Report) assumption(s string) {
	for _, a := range r.assume {
		if a == s {
			return
		}
	}
	r.assume = append(r.assume, s)
}

// ---- known findings ----

type KnownFinding struct {
	Property  string `json:"property"`
	Rule      string `json:"rule"`
	Construct string `json:"construct"`
	Signature string `json:"signature"`
	Witness   string `json:"witness,omitempty"`
	Why       string `json:"why_not_fixed,omitempty"`
}

type FixedFinding struct {
	Property  string `json:"property"`
	Commit    string `json:"commit"`
	Rule      string `json:"rule"`
	Construct string `json:"construct"`
	What      string `json:"what_failed"`
}

type KnownFile struct {
	Known []KnownFinding `json:"known"`
	Fixed []FixedFinding `json:"fixed"`
}

func loadKnown(path string) KnownFile {
	var k KnownFile
	b, err := os.ReadFile(path)
	if err != nil {
		return k
	}
	if err := json.Unmarshal(b, &k); err != nil {
		fatal("known findings file %s: %v", path, err)
	}
	return k
}

func (k KnownFile) match(prop string, it Item) *KnownFinding {
	for i := range k.Known {
		e := &k.Known[i]
		if e.Property == prop && e.Rule == it.Rule && e.Construct == it.Construct && e.Signature == it.Signature {
			return e
		}
	}
	return nil
}

// ---- finish: print verdict, write evidence ----

type evidence struct {
	PropertyID  string                 `json:"property_id"`
	Tier        string                 `json:"tier"`
	Seed        int                    `json:"seed"`
	Level       string                 `json:"level"`
	Coverage    map[string]interface{} `json:"coverage"`
	Assumptions []string               `json:"assumptions"`
	WallS       float64                `json:"wall_s"`
	Violations  int                    `json:"violations"`
}

func (r *Report) finish(verifDir, outDir string, seed int, explanation string) int {
	known := loadKnown(filepath.Join(verifDir, "known_findings.json"))
	evDir := filepath.Join(verifDir, "evidence")
	if outDir != "" {
		evDir = outDir
	}
	_ = os.MkdirAll(evDir, 0o755)
	replayDir := filepath.Join(evDir, "replay", r.Prop)
	_ = os.RemoveAll(replayDir)
	_ = os.MkdirAll(replayDir, 0o755)

	// floors
	exit := 0
	var floorFail []string
	for rule, fl := range r.floors {
		if r.instances[rule] < fl {
			floorFail = append(floorFail, fmt.Sprintf("%s: %d instances < floor %d", rule, r.instances[rule], fl))
		}
	}
	sort.Strings(floorFail)
	// a rule that matches fewer constructs than were confirmed by hand can no longer vouch for the
	// property: reported as an (undecided) violation naming the rule
	for _, ff := range floorFail {
		r.items = append(r.items, Item{Rule: strings.SplitN(ff, ":", 2)[0], Construct: "rule-instance-floor", What: "the rule no longer finds the constructs it was confirmed on (" + ff + "): the code it anchors in changed shape or disappeared", Pos: "-", Undecided: true, Signature: "floor", Nontrivial: true})
	}

	nviol := 0
	nknown := 0
	obligations, discharged, nontrivial := 0, 0, 0
	seenNT := map[string]bool{}
	var samples []interface{}
	var knownLines []string
	sampleByRule := map[string]int{}
	for _, it := range r.items {
		if it.Info {
			continue
		}
		obligations++
		if it.OK {
			discharged++
		}
		if it.Nontrivial {
			k := it.Rule + "|" + it.Construct + "|" + it.What
			if !seenNT[k] {
				seenNT[k] = true
				nontrivial++
			}
		}
		if it.OK && sampleByRule[it.Rule] < 3 {
			sampleByRule[it.Rule]++
			samples = append(samples, map[string]interface{}{"rule": it.Rule, "construct": it.Construct, "obligation": it.What, "pos": it.Pos, "ok": true})
		}
		if !it.OK {
			if kf := known.match(r.Prop, it); kf != nil {
				nknown++
				line := fmt.Sprintf("KNOWN-FINDING: property=%s %s %s: %s [%s]", r.Prop, it.Rule, it.Construct, it.What, it.Signature)
				knownLines = append(knownLines, line)
				samples = append(samples, map[string]interface{}{"rule": it.Rule, "construct": it.Construct, "obligation": it.What, "pos": it.Pos, "ok": false, "known_finding": true, "signature": it.Signature})
				continue
			}
			nviol++
			rp := filepath.Join(replayDir, fmt.Sprintf("%d.json", nviol))
			b, _ := json.MarshalIndent(it, "", " ")
			_ = os.WriteFile(rp, b, 0o644)
			und := ""
			if it.Undecided {
				und = " undecided=true"
			}
			fmt.Printf("VIOLATION property=%s replay=%s%s\n", r.Prop, rp, und)
			fmt.Printf("  rule=%s construct=%s at %s\n  %s\n", it.Rule, it.Construct, it.Pos, it.What)
			if it.Detail != "" {
				fmt.Printf("  detail: %s\n", truncate(it.Detail, 600))
			}
			if it.Signature != "" {
				fmt.Printf("  signature: %s\n", it.Signature)
			}
		}
	}
	sort.Strings(knownLines)
	for _, l := range knownLines {
		fmt.Println(l)
	}
	if nviol > 0 {
		exit = 1
	}
	for _, ff := range floorFail {
		fmt.Printf("mbcheck: %s: rule instance floor not met: %s\n", r.Prop, ff)
	}
	for name, fired := range r.controls {
		if !fired {
			fmt.Printf("mbcheck: %s: positive control %s did not fire: rule is vacuous\n", r.Prop, name)
			exit = 2
		}
	}
	var infos []string
	for _, it := range r.items {
		if it.Info {
			infos = append(infos, fmt.Sprintf("%s %s: %s (%s)", it.Rule, it.Construct, it.What, it.Pos))
		}
	}
	funcs := make([]string, 0, len(r.funcs))
	for f := range r.funcs {
		funcs = append(funcs, f)
	}
	sort.Strings(funcs)
	ctrl := []string{}
	for name, fired := range r.controls {
		if fired {
			ctrl = append(ctrl, name)
		}
	}
	sort.Strings(ctrl)
	cov := map[string]interface{}{
		"explanation":         explanation,
		"obligations":         obligations,
		"discharged":          discharged,
		"evaluations":         obligations,
		"distinct_nontrivial": nontrivial,
		"rule":                "every site of the anchored kinds is enumerated from the type-checked SSA program (none sampled); an obligation is non-trivial when its proof needed at least one guard fact, call-graph edge, table row or layout comparison; distinct = distinct (rule, construct, obligation) keys",
		"samples":             samples,
		"exhaustive":          true,
		"rule_instances":      r.instances,
		"rule_floors":         r.floors,
		"functions_analysed":  len(funcs),
		"functions":           funcs,
		"controls_fired":      ctrl,
		"known_findings":      nknown,
		"observations":        infos,
		"notes":               r.notes,
	}
	for k, v := range r.extra {
		cov[k] = v
	}
	ev := evidence{PropertyID: r.Prop, Tier: r.Tier, Seed: seed, Level: "other", Coverage: cov, Assumptions: r.assume,
		WallS: time.Since(r.start).Seconds(), Violations: nviol}
	if ev.Assumptions == nil {
		ev.Assumptions = []string{}
	}
	b, _ := json.MarshalIndent(ev, "", " ")
	if err := os.WriteFile(filepath.Join(evDir, r.Prop+".json"), b, 0o644); err != nil {
		fatal("write evidence: %v", err)
	}
	fmt.Printf("mbcheck %s %s: %d obligations, %d discharged, %d known findings, %d violations, %d observations, %d functions (%.1fs)\n",
		r.Prop, r.Tier, obligations, discharged, nknown, nviol, len(infos), len(funcs), time.Since(r.start).Seconds())
	rules := map[string][2]int{}
	for _, it := range r.items {
		if it.Info {
			continue
		}
		c := rules[it.Rule]
		c[0]++
		if it.OK {
			c[1]++
		}
		rules[it.Rule] = c
	}
	var rn []string
	for k := range rules {
		rn = append(rn, k)
	}
	sort.Strings(rn)
	for _, k := range rn {
		fmt.Printf("  %-8s %d/%d discharged, instances=%d floor=%d\n", k, rules[k][1], rules[k][0], r.instances[k], r.floors[k])
	}
	return exit
}

func truncate(s string, n int) string {
	s = strings.ReplaceAll(s, "\n", " ")
	if len(s) > n {
		return s[:n] + "…"
	}
	return s
}
