package main

// Constant lookup tables: a package-level array, slice or map that is built by a composite
// literal of constants (and functions) in the package initialiser and never written or handed
// out afterwards (mutableGlobals) has known contents. A lookup with a constant key yields the
// entry; with a symbolic key a boolean entry yields the exact formula "key is one of the keys
// mapped to true", an integer entry a fresh value within the hull of all entries (enough for
// bounds), anything else stays unknown. Out-of-range array indices are the index obligation's
// business, a missing map key yields the zero value.

import (
	"go/constant"
	"fmt"
	"go/types"
	"strings"

	"golang.org/x/tools/go/ssa"
)

type constTable struct {
	g       *ssa.Global
	isMap   bool
	n       int64 // array/slice length
	elem    types.Type
	entries map[int64]map[string]ssa.Value // key -> field path ("" for scalars) -> constant or function
}

func (c *Ctx) constTableOf(g *ssa.Global) *constTable {
	if c.constTables == nil {
		c.constTables = map[*ssa.Global]*constTable{}
	}
	if t, ok := c.constTables[g]; ok {
		return t
	}
	c.constTables[g] = nil
	if g.Pkg == nil || !strings.HasPrefix(g.Pkg.Pkg.Path(), c.modRoot) {
		return nil
	}
	if _, mut := c.mutableGlobals()[g]; mut {
		return nil
	}
	initFn := g.Pkg.Func("init")
	if initFn == nil {
		return nil
	}
	t := &constTable{g: g, entries: map[int64]map[string]ssa.Value{}}
	var base ssa.Value = g // where the elements live
	switch u := deref(g.Type()).Underlying().(type) {
	case *types.Array:
		t.n, t.elem = u.Len(), u.Elem()
	case *types.Slice:
		t.elem = u.Elem()
		base = nil
	case *types.Map:
		t.isMap, t.elem = true, u.Elem()
		base = nil
	default:
		return nil
	}
	isConst := func(v ssa.Value) bool {
		switch x := v.(type) {
		case *ssa.Const:
			return true
		case *ssa.Function:
			// a declared function, or a literal of the initialiser that captures nothing
			return x.Parent() == nil || (x.Parent() == initFn && len(x.FreeVars) == 0)
		}
		return false
	}
	// the single store that installs the map / slice
	var installed ssa.Value
	nInstall := 0
	for _, b := range initFn.Blocks {
		for _, in := range b.Instrs {
			if st, ok := in.(*ssa.Store); ok && st.Addr == ssa.Value(g) {
				installed = st.Val
				nInstall++
			}
		}
	}
	if base == nil {
		if nInstall != 1 {
			return nil
		}
		if t.isMap {
			mk, ok := installed.(*ssa.MakeMap)
			if !ok || mk.Referrers() == nil {
				return nil
			}
			for _, r := range *mk.Referrers() {
				switch x := r.(type) {
				case *ssa.MapUpdate:
					k, ok := x.Key.(*ssa.Const)
					if !ok || k.Value == nil || !(isIntType(k.Type()) || isBoolType(k.Type())) || !isConst(x.Value) {
						return nil
					}
					kv := int64(0)
					if isBoolType(k.Type()) {
						if constant.BoolVal(k.Value) {
							kv = 1
						}
					} else {
						kv = k.Int64()
					}
					t.entries[kv] = map[string]ssa.Value{"": x.Value}
				case *ssa.Store, *ssa.DebugRef:
				default:
					return nil
				}
			}
			c.constTables[g] = t
			return t
		}
		sl, ok := installed.(*ssa.Slice)
		if !ok || sl.Low != nil || sl.High != nil {
			return nil
		}
		al, ok := sl.X.(*ssa.Alloc)
		if !ok {
			return nil
		}
		arr, ok := deref(al.Type()).Underlying().(*types.Array)
		if !ok {
			return nil
		}
		t.n = arr.Len()
		base = al
	} else if nInstall == 1 {
		// the literal was built in a local temporary and stored as a whole
		ld, ok := installed.(*ssa.UnOp)
		if !ok {
			return nil
		}
		al, ok := ld.X.(*ssa.Alloc)
		if !ok {
			return nil
		}
		base = al
	} else if nInstall != 0 {
		return nil
	}
	// element stores: &base[k](.field)* = const
	var refList []ssa.Instruction
	if _, isGlobal := base.(*ssa.Global); isGlobal {
		// globals keep no referrer lists: the element addresses taken in the initialiser
		for _, b := range initFn.Blocks {
			for _, in := range b.Instrs {
				if ia, ok := in.(*ssa.IndexAddr); ok && ia.X == base {
					refList = append(refList, ia)
				}
			}
		}
	} else if rr := base.Referrers(); rr != nil {
		refList = *rr
	}
	refs := &refList
	var walk func(v ssa.Value, key int64, path string) bool
	walk = func(v ssa.Value, key int64, path string) bool {
		rr := v.Referrers()
		if rr == nil {
			return true
		}
		for _, r := range *rr {
			switch x := r.(type) {
			case *ssa.FieldAddr:
				if !walk(x, key, pathStr(path, x.Field)) {
					return false
				}
			case *ssa.Store:
				if x.Addr != v || !isConst(x.Val) || x.Block().Parent() != initFn {
					return false
				}
				if t.entries[key] == nil {
					t.entries[key] = map[string]ssa.Value{}
				}
				t.entries[key][path] = x.Val
			case *ssa.UnOp, *ssa.DebugRef:
			default:
				return false
			}
		}
		return true
	}
	for _, r := range *refs {
		ia, ok := r.(*ssa.IndexAddr)
		if !ok {
			if _, isSl := r.(*ssa.Slice); isSl {
				continue
			}
			if _, isDbg := r.(*ssa.DebugRef); isDbg {
				continue
			}
			if ld, isLd := r.(*ssa.UnOp); isLd && ld == installed {
				continue // the whole-value load that installs the literal
			}
			if in, isInstr := r.(ssa.Instruction); isInstr && in.Parent() != initFn {
				continue // uses elsewhere are reads (the variable is not in mutableGlobals)
			}
			return nil
		}
		if ia.Parent() != initFn {
			continue
		}
		k, ok := ia.Index.(*ssa.Const)
		if !ok || k.Value == nil {
			return nil
		}
		if !walk(ia, k.Int64(), "") {
			return nil
		}
	}
	c.constTables[g] = t
	return t
}

// tableOfValue: v denotes the constant table (the global array itself, or the loaded slice/map).
func (f *Frame) tableOfValue(v ssa.Value) *constTable {
	switch x := v.(type) {
	case *ssa.Global:
		if _, isArr := deref(x.Type()).Underlying().(*types.Array); isArr {
			return f.an.ctx.constTableOf(x)
		}
	case *ssa.UnOp:
		if g, ok := x.X.(*ssa.Global); ok {
			return f.an.ctx.constTableOf(g)
		}
	}
	return nil
}

// tableValue: the value of entry `key` at field path `path` (type t).
func (f *Frame) tableValue(tbl *constTable, key AInt, path string, t types.Type, name string) AV {
	if st, ok := t.Underlying().(*types.Struct); ok {
		fs := make([]AV, st.NumFields())
		for i := range fs {
			fs[i] = f.tableValue(tbl, key, pathStr(path, i), st.Field(i).Type(), name)
		}
		return AStructLit{typ: t, fields: fs}
	}
	at := func(k int64) AV {
		if e, ok := tbl.entries[k]; ok {
			if v, ok := e[path]; ok {
				switch x := v.(type) {
				case *ssa.Const:
					return f.constVal(x)
				case *ssa.Function:
					return AFunc{fn: x}
				}
			}
		}
		return zeroValueNil(t)
	}
	if len(key.conds) == 0 && key.a.isConst() {
		return at(key.a.c)
	}
	var keys []int64
	if tbl.isMap {
		for k := range tbl.entries {
			keys = append(keys, k)
		}
	} else {
		for k := int64(0); k < tbl.n; k++ {
			keys = append(keys, k)
		}
	}
	if len(key.conds) > 0 || len(keys) == 0 || len(keys) > 256 {
		return f.an.u.symbolic(f.key+name, t)
	}
	if _, isFn := t.Underlying().(*types.Signature); isFn && !tbl.isMap && len(keys) >= 2 && len(keys) <= 8 {
		// a table of functions indexed by a symbolic key: the set of its entries, selected by the key
		var alts []AFunc
		for _, k := range keys {
			fv, ok := at(k).(AFunc)
			if !ok {
				return f.an.u.symbolic(f.key+name, t)
			}
			alts = append(alts, fv)
		}
		sel := f.an.u.sym(fmt.Sprintf("%ssel:%s@%s", f.key, tbl.g.Name(), name), 0, int64(len(keys))-1)
		f.assume(atomEQ(affSym(sel), key.a))
		return AFuncSet{key: f.key + name, alts: alts, sel: sel}
	}
	switch {
	case isBoolType(t):
		form := formConst(false)
		for _, k := range keys {
			if b, ok := at(k).(ABool); ok && b.f.kind == fConst {
				if b.f.b {
					form = formOr(form, formAtom(atomEQ(key.a, affConst(k))))
				}
			} else {
				return f.an.u.symbolic(f.key+name, t)
			}
		}
		return ABool{form}
	case isIntType(t):
		lo, hi := int64(0), int64(0)
		started := tbl.isMap // a missing map key yields 0
		for _, k := range keys {
			ai, ok := at(k).(AInt)
			if !ok || !ai.a.isConst() {
				return f.an.u.symbolic(f.key+name, t)
			}
			if !started {
				lo, hi, started = ai.a.c, ai.a.c, true
			}
			if ai.a.c < lo {
				lo = ai.a.c
			}
			if ai.a.c > hi {
				hi = ai.a.c
			}
		}
		if lo == hi {
			return AInt{a: affConst(lo)}
		}
		return AInt{a: affSym(f.an.u.sym(fmt.Sprintf("%stbl:%s%s@%s", f.key, tbl.g.Name(), path, name), lo, hi))}
	}
	return f.an.u.symbolic(f.key+name, t)
}
