package main

// Loop idioms the interpreter summarises instead of widening.
//
// Element-wise copy: `for i := 0; i < N; i++ { dst[i+a] = src[i+b] }` with N, a, b, dst, src
// loop-invariant is the builtin copy(dst[a:a+N], src[b:b+N]) when dst and src do not share a
// root (a forward element loop and memmove differ only for overlapping operands) and N >= 0.
// The loop is still interpreted (its index obligations are checked under the loop invariants);
// only the per-element write records are replaced by one copy record, emitted where the loop
// header is evaluated.

import (
	"go/token"
	"go/types"

	"golang.org/x/tools/go/ssa"
)

type copyLoop struct {
	store    *ssa.Store
	iv       *ssa.Phi
	dst, src ssa.Value
	a, b     ssa.Value // may be nil (offset 0)
	n        ssa.Value
}

// findCopyLoops matches the idiom on two-block natural loops (header + body).
func findCopyLoops(fn *ssa.Function) map[*ssa.Store]*copyLoop {
	out := map[*ssa.Store]*copyLoop{}
	for _, h := range fn.Blocks {
		if len(h.Preds) != 2 || len(h.Succs) != 2 {
			continue
		}
		var body *ssa.BasicBlock
		for _, p := range h.Preds {
			if isBackEdge(p, h) {
				body = p
			}
		}
		if body == nil || body == h || len(body.Preds) != 1 || body.Preds[0] != h || len(body.Succs) != 1 || h.Succs[0] != body {
			continue
		}
		// header: one phi, i < N, if
		var iv *ssa.Phi
		var cmp *ssa.BinOp
		okH := true
		for _, in := range h.Instrs {
			switch x := in.(type) {
			case *ssa.Phi:
				if iv != nil {
					okH = false
				}
				iv = x
			case *ssa.BinOp:
				if cmp != nil {
					okH = false
				}
				cmp = x
			case *ssa.If:
				if cmp == nil || x.Cond != ssa.Value(cmp) {
					okH = false
				}
			case *ssa.DebugRef, *ssa.Convert, *ssa.ChangeType:
			default:
				okH = false
			}
		}
		if !okH || iv == nil || cmp == nil || cmp.Op != token.LSS || cmp.X != ssa.Value(iv) {
			continue
		}
		var inLoop func(v ssa.Value) bool
		inLoop = func(v ssa.Value) bool {
			in, ok := v.(ssa.Instruction)
			if !ok || (in.Block() != h && in.Block() != body) {
				return false
			}
			// a slice header or field read inside the body from loop-invariant memory is itself
			// invariant: the only store of the loop writes one element of dst, which no such
			// read can alias (distinct types; no unsafe in the library)
			switch x := v.(type) {
			case *ssa.Field:
				return inLoop(x.X)
			case *ssa.FieldAddr:
				return inLoop(x.X)
			case *ssa.UnOp:
				if x.Op == token.MUL {
					if _, isElem := x.X.(*ssa.IndexAddr); !isElem {
						return inLoop(x.X)
					}
				}
			case *ssa.Slice:
				if x.Low == nil && x.High == nil {
					return inLoop(x.X)
				}
			case *ssa.Convert:
				return inLoop(x.X)
			case *ssa.ChangeType:
				return inLoop(x.X)
			}
			return true
		}
		if inLoop(cmp.Y) {
			continue
		}
		// induction: phi(0 from outside, i+1 from body)
		var next ssa.Value
		startOK := false
		for k, p := range h.Preds {
			if p == body {
				next = iv.Edges[k]
			} else if c, ok := iv.Edges[k].(*ssa.Const); ok && c.Value != nil && c.Int64() == 0 {
				startOK = true
			}
		}
		nb, ok := next.(*ssa.BinOp)
		if !startOK || !ok || nb.Op != token.ADD || nb.Block() != body {
			continue
		}
		one := func(v ssa.Value) bool {
			c, ok := v.(*ssa.Const)
			return ok && c.Value != nil && c.Int64() == 1
		}
		if !(nb.X == ssa.Value(iv) && one(nb.Y) || nb.Y == ssa.Value(iv) && one(nb.X)) {
			continue
		}
		// index = i, i+k or k+i with k loop-invariant
		index := func(v ssa.Value) (ssa.Value, bool) {
			if v == ssa.Value(iv) {
				return nil, true
			}
			if bo, ok := v.(*ssa.BinOp); ok && bo.Op == token.ADD && bo.Block() == body {
				if bo.X == ssa.Value(iv) && !inLoop(bo.Y) {
					return bo.Y, true
				}
				if bo.Y == ssa.Value(iv) && !inLoop(bo.X) {
					return bo.X, true
				}
			}
			return nil, false
		}
		var st *ssa.Store
		okB := true
		for _, in := range body.Instrs {
			switch x := in.(type) {
			case *ssa.Store:
				if st != nil {
					okB = false
				}
				st = x
			case *ssa.BinOp:
				if x.Op != token.ADD {
					okB = false
				}
			case *ssa.IndexAddr, *ssa.UnOp, *ssa.Jump, *ssa.DebugRef, *ssa.Field, *ssa.FieldAddr, *ssa.Convert, *ssa.ChangeType:
			case *ssa.Slice:
				if x.Low != nil || x.High != nil {
					okB = false
				}
			default:
				okB = false
			}
		}
		if !okB || st == nil {
			continue
		}
		da, ok1 := st.Addr.(*ssa.IndexAddr)
		ld, ok2 := st.Val.(*ssa.UnOp)
		if !ok1 || !ok2 || ld.Op != token.MUL || ld.Block() != body {
			continue
		}
		sa, ok3 := ld.X.(*ssa.IndexAddr)
		if !ok3 || inLoop(da.X) || inLoop(sa.X) {
			continue
		}
		a, okA := index(da.Index)
		b, okBi := index(sa.Index)
		if !okA || !okBi {
			continue
		}
		out[st] = &copyLoop{store: st, iv: iv, dst: da.X, src: sa.X, a: a, b: b, n: cmp.Y}
	}
	return out
}

// emitCopyLoop records the summary write (evaluated where the element store executes, so that
// everything the body computes from loop-invariant memory is available); returns whether it did.
func (f *Frame) emitCopyLoop(cl *copyLoop) bool {
	dst, ok1 := f.sliceOf(cl.dst)
	src, ok2 := f.sliceOf(cl.src)
	nv, ok3 := f.intVal(cl.n)
	if !ok1 || !ok2 || !ok3 || dst.isNil || src.isNil || dst.root == src.root || len(nv.conds) > 0 {
		if debugTrace {
			println("copyloop: operands", ok1, ok2, ok3, dst.isNil, src.isNil, dst.root == src.root, len(nv.conds))
		}
		return false
	}
	off := func(v ssa.Value) (Aff, bool) {
		if v == nil {
			return Aff{}, true
		}
		iv, ok := f.intVal(v)
		if !ok || len(iv.conds) > 0 {
			return Aff{}, false
		}
		return iv.a, true
	}
	a, okA := off(cl.a)
	b, okB := off(cl.b)
	if !okA || !okB || !f.state().entails(atomGE(nv.a, affConst(0))) {
		if debugTrace {
			println("copyloop: offsets/N", okA, okB, nv.a.String(), f.state().String())
		}
		return false
	}
	d := ASlice{root: dst.root, off: dst.off.add(a), ln: nv.a, elem: dst.elem}
	s := ASlice{root: src.root, off: src.off.add(b), ln: nv.a, elem: src.elem, nilSym: nil}
	// the state under which the copy happens: the body's state without the facts about the
	// induction variable (after the loop that variable has its exit value)
	ivSyms := map[*Sym]bool{}
	if ai, ok := f.vals[cl.iv].(AInt); ok {
		for _, t := range ai.a.terms {
			ivSyms[t.s] = true
		}
	}
	var st DNF
	for _, cj := range f.cur {
		var nc Conj
		for _, at := range cj {
			keep := true
			for _, t := range at.a.terms {
				if ivSyms[t.s] {
					keep = false
				}
			}
			if keep {
				nc = append(nc, at)
			}
		}
		st = append(st, nc.with(atomGE(nv.a, affConst(1))))
	}
	if debugTrace {
		println("copyloop: emitted", f.fn.Name(), f.an.quiet, d.off.String(), d.ln.String(), s.off.String(), st.String())
	}
	dst.root.addWrite(&Write{off: d.off, width: d.ln, kind: wCopy, val: s, pos: f.posStr(cl.store.Pos()), state: st, fn: f.fn})
	return true
}

// stalePointers: a pointer to an element of a slice (&s[i]) that is kept (stored, put into a map,
// carried round a loop) while the same slice variable can still be extended by append afterwards
// points into the old backing array once append reallocates: writes through it are lost. Reports
// the positions of such element addresses in fn.
func stalePointers(fn *ssa.Function) []ssa.Instruction {
	var out []ssa.Instruction
	kept := func(v ssa.Value) bool {
		seen := map[ssa.Value]bool{}
		var walk func(v ssa.Value, depth int) bool
		walk = func(v ssa.Value, depth int) bool {
			if seen[v] || depth > 4 {
				return false
			}
			seen[v] = true
			refs := v.Referrers()
			if refs == nil {
				return false
			}
			for _, r := range *refs {
				switch x := r.(type) {
				case *ssa.Store:
					if x.Val == v {
						return true
					}
				case *ssa.MapUpdate:
					if x.Value == v || x.Key == v {
						return true
					}
				case *ssa.Phi:
					if walk(x, depth+1) {
						return true
					}
				case *ssa.MakeInterface:
					if walk(x, depth+1) {
						return true
					}
				}
			}
			return false
		}
		return walk(v, 0)
	}
	for _, b := range fn.Blocks {
		for _, in := range b.Instrs {
			ia, ok := in.(*ssa.IndexAddr)
			if !ok {
				continue
			}
			if _, isSlice := ia.X.Type().Underlying().(*types.Slice); !isSlice || !kept(ia) {
				continue
			}
			// the web of values that are "the same slice variable"
			web := map[ssa.Value]bool{}
			var grow func(v ssa.Value, depth int)
			grow = func(v ssa.Value, depth int) {
				if v == nil || web[v] || depth > 8 {
					return
				}
				web[v] = true
				switch x := v.(type) {
				case *ssa.Phi:
					for _, e := range x.Edges {
						grow(e, depth+1)
					}
				case *ssa.Call:
					if bi, ok := x.Common().Value.(*ssa.Builtin); ok && bi.Name() == "append" && len(x.Common().Args) > 0 {
						grow(x.Common().Args[0], depth+1)
					}
				case *ssa.UnOp:
					if al, ok := x.X.(*ssa.Alloc); ok && x.Op == token.MUL && al.Referrers() != nil {
						for _, r := range *al.Referrers() {
							switch y := r.(type) {
							case *ssa.Store:
								if y.Addr == ssa.Value(al) {
									grow(y.Val, depth+1)
								}
							case *ssa.UnOp:
								grow(y, depth+1)
							}
						}
					}
				}
				if refs := v.Referrers(); refs != nil {
					for _, r := range *refs {
						switch y := r.(type) {
						case *ssa.Phi:
							grow(y, depth+1)
						case *ssa.Call:
							if bi, ok := y.Common().Value.(*ssa.Builtin); ok && bi.Name() == "append" && len(y.Common().Args) > 0 && y.Common().Args[0] == v {
								grow(y, depth+1)
							}
						case *ssa.Store:
							if al, ok := y.Addr.(*ssa.Alloc); ok && y.Val == v && al.Referrers() != nil {
								for _, r2 := range *al.Referrers() {
									if ld, ok := r2.(*ssa.UnOp); ok {
										grow(ld, depth+1)
									}
								}
							}
						}
					}
				}
			}
			grow(ia.X, 0)
			for v := range web {
				ap, ok := v.(*ssa.Call)
				if !ok {
					continue
				}
				if bi, ok := ap.Common().Value.(*ssa.Builtin); !ok || bi.Name() != "append" {
					continue
				}
				// can this append run after the element address was taken?
				if ap.Block() == ia.Block() && instrBefore(ia, ap) || blockReaches(ia.Block(), ap.Block()) {
					out = append(out, ia)
					break
				}
			}
		}
	}
	return out
}
