package main

// Affine forms over canonical symbols (DESIGN 1.2).

import (
	"fmt"
	"sort"
	"strings"
)

type symKind int

const (
	symPlain   symKind = iota
	symDiv             // floor(arg / c), arg >= 0
	symMod             // arg mod c, arg >= 0
	symCeilDiv         // ceil(arg / c), arg >= 0
)

// Sym is a canonical symbol: a quantity the analysed code reads but does not define
// arithmetically (parameter, length, input byte, field, phi, opaque value).
type Sym struct {
	id     int
	key    string
	lo, hi int64 // range implied by the Go type (or by construction)
	kind   symKind
	arg    *Aff // for Div/Mod/CeilDiv
	c      int64
	// isBool: symbol stands for a boolean (0/1)
	isBool bool
	// axioms: extra defining constraints (each >= 0), e.g. "a nil slice has length 0"
	axioms []Aff
}

func (s *Sym) String() string { return s.key }

// Universe interns symbols for one top-level analysis.
type Universe struct {
	syms map[string]*Sym
	list []*Sym
	ids  map[string]int64
}

func newUniverse() *Universe { return &Universe{syms: map[string]*Sym{}} }

func (u *Universe) sym(key string, lo, hi int64) *Sym {
	if s, ok := u.syms[key]; ok {
		// keep the tighter range
		if lo > s.lo {
			s.lo = lo
		}
		if hi < s.hi {
			s.hi = hi
		}
		return s
	}
	s := &Sym{id: len(u.list), key: key, lo: lo, hi: hi}
	u.syms[key] = s
	u.list = append(u.list, s)
	return s
}

func (u *Universe) boolSym(key string) *Sym {
	s := u.sym(key, 0, 1)
	s.isBool = true
	return s
}

const (
	maxInt31 = int64(1<<31 - 1)
	minInt31 = -int64(1 << 31)
	bigNum   = int64(1) << 40
)

type term struct {
	s *Sym
	k int64
}

// Aff is c + Σ k_i·s_i, terms sorted by symbol id, no zero coefficients.
type Aff struct {
	c     int64
	terms []term
}

func affConst(c int64) Aff { return Aff{c: c} }
func affSym(s *Sym) Aff    { return Aff{terms: []term{{s, 1}}} }

func (a Aff) isConst() bool { return len(a.terms) == 0 }

func (a Aff) add(b Aff) Aff { return a.addScaled(b, 1) }
func (a Aff) sub(b Aff) Aff { return a.addScaled(b, -1) }
func (a Aff) neg() Aff      { return Aff{}.addScaled(a, -1) }
func (a Aff) addc(c int64) Aff {
	r := Aff{c: a.c + c, terms: a.terms}
	return r
}

func (a Aff) scale(k int64) Aff {
	if k == 0 {
		return Aff{}
	}
	r := Aff{c: a.c * k, terms: make([]term, len(a.terms))}
	for i, t := range a.terms {
		r.terms[i] = term{t.s, t.k * k}
	}
	return r
}

func (a Aff) addScaled(b Aff, k int64) Aff {
	r := Aff{c: a.c + k*b.c}
	i, j := 0, 0
	for i < len(a.terms) || j < len(b.terms) {
		switch {
		case j >= len(b.terms) || (i < len(a.terms) && a.terms[i].s.id < b.terms[j].s.id):
			r.terms = append(r.terms, a.terms[i])
			i++
		case i >= len(a.terms) || b.terms[j].s.id < a.terms[i].s.id:
			r.terms = append(r.terms, term{b.terms[j].s, k * b.terms[j].k})
			j++
		default:
			if v := a.terms[i].k + k*b.terms[j].k; v != 0 {
				r.terms = append(r.terms, term{a.terms[i].s, v})
			}
			i++
			j++
		}
	}
	return r
}

func (a Aff) equal(b Aff) bool {
	if a.c != b.c || len(a.terms) != len(b.terms) {
		return false
	}
	for i := range a.terms {
		if a.terms[i] != b.terms[i] {
			return false
		}
	}
	return true
}

func (a Aff) coef(s *Sym) int64 {
	for _, t := range a.terms {
		if t.s == s {
			return t.k
		}
	}
	return 0
}

// subst replaces symbol s by expression e.
func (a Aff) subst(s *Sym, e Aff) Aff {
	k := a.coef(s)
	if k == 0 {
		return a
	}
	r := Aff{c: a.c}
	for _, t := range a.terms {
		if t.s != s {
			r.terms = append(r.terms, t)
		}
	}
	return r.addScaled(e, k)
}

// interval evaluates a using the symbols' own ranges.
func (a Aff) interval() (lo, hi int64) {
	lo, hi = a.c, a.c
	for _, t := range a.terms {
		l, h := t.s.lo, t.s.hi
		if t.k >= 0 {
			lo += satMul(t.k, l)
			hi += satMul(t.k, h)
		} else {
			lo += satMul(t.k, h)
			hi += satMul(t.k, l)
		}
	}
	return
}

func satMul(a, b int64) int64 {
	if a == 0 || b == 0 {
		return 0
	}
	r := a * b
	if r/b != a || r > bigNum*1024 || r < -bigNum*1024 {
		if (a > 0) == (b > 0) {
			return bigNum * 1024
		}
		return -bigNum * 1024
	}
	return r
}

func (a Aff) String() string {
	if len(a.terms) == 0 {
		return fmt.Sprint(a.c)
	}
	// order by key for stable, position-free output
	ts := append([]term(nil), a.terms...)
	sort.Slice(ts, func(i, j int) bool { return ts[i].s.key < ts[j].s.key })
	var sb strings.Builder
	for i, t := range ts {
		switch {
		case t.k == 1 && i == 0:
		case t.k == 1:
			sb.WriteString("+")
		case t.k == -1:
			sb.WriteString("-")
		case t.k < 0 || i == 0:
			fmt.Fprintf(&sb, "%d*", t.k)
		default:
			fmt.Fprintf(&sb, "+%d*", t.k)
		}
		sb.WriteString(t.s.key)
	}
	if a.c > 0 {
		fmt.Fprintf(&sb, "+%d", a.c)
	} else if a.c < 0 {
		fmt.Fprintf(&sb, "%d", a.c)
	}
	return sb.String()
}

func (a Aff) syms(into map[*Sym]bool) {
	for _, t := range a.terms {
		if !into[t.s] {
			into[t.s] = true
			if t.s.arg != nil {
				t.s.arg.syms(into)
			}
			for _, ax := range t.s.axioms {
				ax.syms(into)
			}
		}
	}
}

// ---- atoms and conjunctions ----

type atomOp int

const (
	opGE atomOp = iota // a >= 0
	opEQ               // a == 0
	opNE               // a != 0
)

type Atom struct {
	op atomOp
	a  Aff
}

func (t Atom) String() string {
	switch t.op {
	case opGE:
		return t.a.String() + " >= 0"
	case opEQ:
		return t.a.String() + " == 0"
	}
	return t.a.String() + " != 0"
}

func atomGE(a, b Aff) Atom { return Atom{opGE, a.sub(b)} }          // a >= b
func atomGT(a, b Aff) Atom { return Atom{opGE, a.sub(b).addc(-1)} } // a > b
func atomLE(a, b Aff) Atom { return atomGE(b, a) }
func atomLT(a, b Aff) Atom { return atomGT(b, a) }
func atomEQ(a, b Aff) Atom { return Atom{opEQ, a.sub(b)} }
func atomNE(a, b Aff) Atom { return Atom{opNE, a.sub(b)} }

// negate returns the negation of an atom as a disjunction of atoms (1 or 2).
func (t Atom) negate() []Atom {
	switch t.op {
	case opGE:
		return []Atom{{opGE, t.a.neg().addc(-1)}}
	case opEQ:
		return []Atom{{opNE, t.a}}
	}
	return []Atom{{opEQ, t.a}}
}

// Conj is a conjunction of atoms.
type Conj []Atom

func (c Conj) String() string {
	ss := make([]string, len(c))
	for i, a := range c {
		ss[i] = a.String()
	}
	sort.Strings(ss)
	return strings.Join(ss, " && ")
}

func (c Conj) with(a ...Atom) Conj {
	r := make(Conj, 0, len(c)+len(a))
	r = append(r, c...)
	for _, x := range a {
		if x.a.isConst() {
			// constant atom: drop when true, keep when false (marks the conjunction infeasible)
			v := x.a.c
			if (x.op == opGE && v >= 0) || (x.op == opEQ && v == 0) || (x.op == opNE && v != 0) {
				continue
			}
		}
		dup := false
		for _, y := range r {
			if y.op == x.op && y.a.equal(x.a) {
				dup = true
				break
			}
		}
		if !dup {
			r = append(r, x)
		}
	}
	return r
}

// DNF is a disjunction of conjunctions; nil/empty DNF = unreachable (false);
// a DNF with one empty Conj = true.
type DNF []Conj

func dnfTrue() DNF { return DNF{Conj{}} }

func (d DNF) String() string {
	if len(d) == 0 {
		return "false"
	}
	ss := make([]string, len(d))
	for i, c := range d {
		ss[i] = "(" + c.String() + ")"
	}
	sort.Strings(ss)
	return strings.Join(ss, " || ")
}
