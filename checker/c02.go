package main

// C02 — responses decode to exactly what was sent; exceptions become typed errors
// (DESIGN §3 C02).

import (
	"fmt"
	"go/types"
	"sort"
	"strings"

	"golang.org/x/tools/go/ssa"
)

func init() {
	register("C02", checkC02, "R2.1 symbolic round trip encode∘parse = id: each of the 20 response parsers is abstractly interpreted on a symbolic frame under the property's well-formedness premises (protocol id 0 and length field = len-6 for TCP, function-code byte = the dispatcher's case constant, legal 0x0000/0xFF00 coil value for FC5, specified length for the fixed-size responses; no bound on the byte count, so all values 0..255 are covered); the object it returns on success becomes the receiver of that type's Bytes(), whose recorded writes must tile a buffer of exactly len(frame) bytes and, segment by segment, store the very bytes frame[o:o+w] (for RTU: the body, with the trailer being the CRC of the body as in C03). The parsed fields are also compared with the specification's response layout (unit id, byte count, payload position). R2.2: parsers of byte-counted responses succeed only if len(frame) = fixed overhead + byte count. R2.3: the exception recognisers return a non-nil error exactly for frames of exception length whose function byte has bit 7 set, with unit id, function-0x80 and code taken from the frame; dispatchers consult them before dispatching and can return a response only when bit 7 of the function byte is clear. R2.4: every dispatcher case calls the parser whose result type reports that case's function code and framing. Not decided: nothing beyond the stated premises; FC17's device-specific content is treated as opaque bytes. R2.3 also covers the recognisers the client constructors actually install (CRC-aware for RTU; a constructor installing a library parser next to a recogniser of unknown origin fails). R2.5 the clients hand the recogniser received[0:total] in every iteration (C07 R7.3). R2.6 acceptance: under the complete well-formedness premise (every legal byte count, exact length, even counts for register replies) no rejecting return of a reply parser is reachable. R2.7 every return of the reply dispatchers pairs a nil response with a non-nil error (C10 R10.3 on the four dispatchers). Inside R2.3 a constructor that can leave library functions of both framings installed (may-analysis of the stores to the two function fields) fails. R2.6 also on the dispatchers: a frame of a supported function with a length between its smallest reply and the ADU size reaches the per-function parser (no return of the dispatcher's own is reachable). R2.8 = shared-state rule from reply parsers, recognisers, reply encoders and CRC16. R2.4 also: each per-function parser is handed the dispatcher's whole input (all but the checked trailer for a verifying dispatcher). R2.9 = C12 R12.5: Do hands do's result to the parser unchanged. R2.3 is also stated on every reply dispatcher: an exception-length frame with bit 7 set comes back as the typed exception of its framing (or the CRC failure from a verifying entry), never as another error. R2.10 = C13 R13.4 on all reply types and Registers (no method writes the payload of the value the caller keeps). R2.11 acceptance: for the ten response parsers whose reply starts with a byte count (FC1-4, 23; TCP and RTU), under the well-formedness premises plus 'length agrees with the byte-count field' and a byte count of at least the smallest legal payload, no error return is feasible for any byte count up to 255 (a plausibility limit on the byte count refuses well-formed frames).")
}

type parserInfo struct {
	fn    *ssa.Function
	tn    *types.Named
	bytes *ssa.Function
	tcp   bool
	fc    int64
}

// packetParsers: exported functions (data []byte) (*T, error) of the package where T has
// a Bytes() method; wantReq selects request types (have ExpectedResponseLength).
func packetParsers(c *Ctx, pkgRel string, wantReq bool) []parserInfo {
	reqs := requestTypes(c, pkgRel)
	crc := c.fnOpt(pkgRel, "CRC16")
	var out []parserInfo
	for _, fn := range parseEntryPoints(c, pkgRel) {
		sig := fn.Signature
		if sig.Params().Len() != 1 || sig.Results().Len() != 2 || !isErrorType(sig.Results().At(1).Type()) {
			continue
		}
		pt, ok := sig.Results().At(0).Type().(*types.Pointer)
		if !ok {
			continue
		}
		tn, ok := pt.Elem().(*types.Named)
		if !ok {
			continue
		}
		if _, isStruct := tn.Underlying().(*types.Struct); !isStruct {
			continue
		}
		if reqs[tn] != wantReq {
			continue
		}
		var bm *ssa.Function
		ms := c.prog.MethodSets.MethodSet(tn)
		for i := 0; i < ms.Len(); i++ {
			if ms.At(i).Obj().Name() == "Bytes" {
				bm = c.prog.MethodValue(ms.At(i))
			}
		}
		if bm == nil || bm.Synthetic != "" {
			continue
		}
		fc, ok := functionCodeOf(c, tn)
		if !ok {
			continue
		}
		tcp := hasMBAP(tn)
		if !tcp && (crc == nil || !callsDirect(bm, crc)) {
			continue
		}
		out = append(out, parserInfo{fn: fn, tn: tn, bytes: bm, tcp: tcp, fc: fc})
	}
	sort.Slice(out, func(i, j int) bool { return out[i].fn.Name() < out[j].fn.Name() })
	return out
}

// framePremises: the property's notion of a well-formed frame for function fc.
func framePremises(fr *Frame, data ASlice, tcp bool, fc int64, isResponse bool) DNF {
	fcOff := int64(1)
	max := int64(maxRTUADU)
	var c Conj
	if tcp {
		fcOff, max = 7, maxTCPADU
		c = append(c, atomEQ(fr.frameBytes(data, affConst(2), 1, true), affConst(0)), atomEQ(fr.frameBytes(data, affConst(3), 1, true), affConst(0)),
			atomEQ(fr.frameBytes(data, affConst(4), 2, true), data.ln.addc(-6)))
	}
	// no ADU-size premise in general (the property covers every byte count 0..255); only
	// FC17, whose reply has no overall byte count, is bounded by the ADU size
	if fc == 17 {
		c = append(c, atomLE(data.ln, affConst(max)))
	}
	c = append(c, atomEQ(fr.frameBytes(data, affConst(fcOff), 1, true), affConst(fc)))
	if sp := specFor(fc); sp != nil && isResponse {
		// responses without a variable part have exactly their specified length
		fixed := true
		for _, sg := range sp.resp {
			if sg.kind == sBytes && sg.field != "Data" || sg.kind == sByteCount || sg.kind == sCountByte {
				fixed = false
			}
		}
		if fixed {
			n := int64(2)
			for _, sg := range sp.resp {
				switch sg.kind {
				case sBE16, sCoil, sBytes:
					n += 2
				case sByte:
					n++
				}
			}
			if tcp {
				n += 6
			} else {
				n += 2
			}
			c = append(c, atomEQ(data.ln, affConst(n)))
		}
	}
	d := DNF{c}
	if fc == 5 {
		v := fr.frameBytes(data, affConst(fcOff+3), 2, true)
		d = DNF{c.with(atomEQ(v, affConst(0))), c.with(atomEQ(v, affConst(0xFF00)))}
	}
	return d
}

func checkC02(c *Ctx, r *Report) {
	// R2.10: "re-encoding the result reproduces the frame" holds for the value the caller keeps: no
	// method of a reply type or of the Registers view sharing its payload writes the payload (an
	// accessor that swaps bytes in place and forgets to swap back on one exit) (C13 R13.1/R13.4)
	r.instance("R2.10", packetValuesImmutable(c, r, "R2.10", "packet", responseFamily(c, "packet"), nil))
	r.floor("R2.10", 60)
	r.floor("R2.1", 20)
	r.floor("R2.11", 10)
	r.floor("R2.2", 10)
	r.floor("R2.3", 5)
	r.floor("R2.4", 20)
	r.floor("R2.5", 2)
	r.floor("R2.6", 18)
	crc := c.fnMust("packet", "CRC16")
	// R2.8: decoding and re-encoding a reply depends on the frame alone (no package-level state)
	sharedStateRule(c, r, "R2.8", "packet response parsers", "response parsing, exception recognition and re-encoding", append(codecRoots(c, "packet", false), crc))
	r.floor("R2.8", 40)
	for _, pi := range packetParsers(c, "packet", false) {
		c02RoundTrip(c, r, pi, crc, false)
	}
	for _, name := range []string{"AsTCPErrorPacket", "AsRTUErrorPacket"} {
		c02Recogniser(c, r, c.fnMust("packet", name), name == "AsTCPErrorPacket", false)
	}
	// the recognisers the client constructors actually install (CRC-aware ones may also answer
	// nil on a CRC mismatch)
	installedRecognisers(c, r, "R2.3", crc, map[string]bool{c.fnMust("packet", "AsTCPErrorPacket").String() + "/false": true, c.fnMust("packet", "AsRTUErrorPacket").String() + "/true": true})
	// R2.7: a reply is reported either as a response or as an error, never as neither: every
	// return of the reply dispatchers pairs a nil response with a non-nil error (C10 R10.3)
	c02NeverNeither(c, r, "R2.7")
	r.floor("R2.7", 6)
	for _, name := range []string{"ParseTCPResponse", "ParseRTUResponse"} {
		c02Dispatcher(c, r, c.fnMust("packet", name), name == "ParseTCPResponse", false)
	}
	// R2.3 on every reply dispatcher (also the CRC-verifying one): a frame of exception length whose
	// function byte has bit 7 set comes back as the typed exception of its framing (or, from the
	// verifying dispatcher, as the CRC failure) — never as some other error that loses unit id,
	// function and exception code
	for _, name := range []string{"ParseTCPResponse", "ParseRTUResponse", "ParseRTUResponseWithCRC"} {
		c02ExceptionTyped(c, r, c.fnMust("packet", name), name == "ParseTCPResponse", crc)
	}
	// R2.9: what the client parses is what the device sent: Do hands do()'s result to the parser
	// unchanged (C19 R19.3 / C12 R12.5)
	for _, spec := range []struct {
		name   string
		serial bool
	}{{"Client", false}, {"SerialClient", true}} {
		ci := analyseClient(c, spec.name, spec.serial)
		tmp := newReport(r.Prop, r.Tier)
		c19Client(c, tmp, ci, false)
		r.instance("R2.9", copyItems(tmp, r, "R19.3", "R2.9", "the parsed frame is do()'s result"))
	}
	r.floor("R2.9", 2)
	// R2.5: an exception frame can only become a typed error if the clients hand the recogniser
	// everything received so far (a fragmented exception reply must still be recognised)
	clientLoopItems(c, r, "R7.3", "R2.5", "the recogniser sees received[0:total]", "runs in every iteration", "returned as *ClientError wrapping")
	r.assumption("well-formed response frame: (TCP) protocol id 0 and MBAP length = len-6; function-code byte = the constant of the dispatcher case; FC5 value is 0x0000 or 0xFF00; fixed-size responses (FC5, 6, 15, 16) have their specified length; FC17 replies (no overall byte count) are at most one ADU (260/256 bytes) long")
	r.assumption("RTU: the frame's trailer is the CRC of its body (checked by ParseRTUResponseWithCRC, C03 R3.2); CRC16 uninterpreted, equal on equal bytes")
	r.assumption("slice lengths are below 2^31; int is 64 bits wide")
}

// c02RoundTrip: R2.1 and R2.2 for one response parser.
func c02RoundTrip(c *Ctx, r *Report, pi parserInfo, crc *ssa.Function, control bool) map[string]bool {
	fired := map[string]bool{}
	id := fnID(pi.fn)
	pos := c.pos(pi.fn.Pos())
	rep := func(rule string, ok bool, what, detail, sig string) {
		if !ok {
			fired[rule+":"+sig] = true
		}
		if control {
			return
		}
		if ok {
			r.ok(rule, id, what, pos, true)
		} else {
			r.fail(rule, id, what, pos, detail, sig)
		}
	}
	an := &Analysis{ctx: c, u: newUniverse(), top: pi.fn}
	if crc != nil {
		an.uninterp = map[*ssa.Function]string{crc: "crc16"}
	}
	pf := an.newFrame(pi.fn, nil, nil)
	data, ok := pf.vals[pi.fn.Params[0]].(ASlice)
	if !ok {
		return fired
	}
	if !control {
		r.instance("R2.1", 1)
		r.funcs[id] = true
	}
	prem := framePremises(pf, data, pi.tcp, pi.fc, true)
	// R2.11: a frame whose length agrees with its own byte-count field is accepted for every
	// byte-count value 0..255 (the property's quantifier): under that extra premise no error return
	// of the parser is feasible. (A plausibility limit on the byte count refuses well-formed frames.)
	if sp := specFor(pi.fc); sp != nil && !control && len(sp.resp) > 0 && (sp.resp[0].kind == sByteCount || sp.resp[0].kind == sCountByte) && pi.fc != 17 {
		an2 := &Analysis{ctx: c, u: newUniverse(), top: pi.fn}
		if crc != nil {
			an2.uninterp = map[*ssa.Function]string{crc: "crc16"}
		}
		f2 := an2.newFrame(pi.fn, nil, nil)
		if d2, ok := f2.vals[pi.fn.Params[0]].(ASlice); ok {
			off, trailer := int64(8), int64(0)
			if !pi.tcp {
				off, trailer = 2, 2
			}
			bc := f2.frameBytes(d2, affConst(off), 1, true)
			var p2 DNF
			// smallest payload the specification allows (quantity >= 1): one byte of coils, one register
			minBC := int64(1)
			if pi.fc == 3 || pi.fc == 4 || pi.fc == 23 {
				minBC = 2
			}
			for _, cj := range framePremises(f2, d2, pi.tcp, pi.fc, true) {
				p2 = append(p2, cj.with(atomGE(d2.ln, affConst(off+1))).with(atomEQ(d2.ln, bc.addc(off+1+trailer))).with(atomGE(bc, affConst(minBC))))
			}
			f2.run(p2)
			r.instance("R2.11", 1)
			bad := ""
			for _, rs := range f2.returns {
				if len(rs.state) == 0 {
					continue
				}
				nf := f2.nilness(rs.vals[1])
				if nf.kind == fConst && nf.b {
					continue
				}
				bad = c.pos(rs.instr.Pos()) + ": " + truncate(rs.state.String(), 200)
			}
			if bad == "" {
				r.ok("R2.11", id, "a frame whose length agrees with its byte-count field is accepted for every byte count from the smallest legal payload up to 255", pos, true)
			} else {
				r.fail("R2.11", id, "a well-formed frame (length agrees with its own byte-count field) can be refused", pos, bad, "wellformed-refused")
			}
		}
	}
	pf.run(prem)
	var site *ReturnSite
	n := 0
	for i := range pf.returns {
		rs := &pf.returns[i]
		nf := pf.nilness(rs.vals[1])
		if nf.kind == fConst && nf.b && len(rs.state) > 0 {
			site = rs
			n++
		}
	}
	if n != 1 {
		rep("R2.1", false, fmt.Sprintf("parser has %d feasible success returns for a well-formed frame (want 1)", n), "", "success-sites")
		return fired
	}
	// R2.6 acceptance: no rejecting return is reachable for a frame the specification allows
	if sp := specFor(pi.fc); sp != nil && pi.fc != 17 {
		hdr := int64(2) // unit id + function code
		trailer := int64(2)
		if pi.tcp {
			hdr, trailer = 8, 0
		}
		var wf Conj
		variable := len(sp.resp) >= 1 && (sp.resp[0].kind == sByteCount || sp.resp[0].kind == sCountByte)
		if variable {
			bc := pf.frameBytes(data, affConst(hdr), 1, true)
			wf = append(wf, atomEQ(data.ln, bc.addc(hdr+1+trailer)), atomGE(bc, affConst(1)), atomLE(bc, affConst(250)))
			if pi.fc == 3 || pi.fc == 4 || pi.fc == 23 {
				wf = append(wf, atomEQ(pf.modAff(bc, 2), affConst(0)), atomGE(bc, affConst(2)))
			}
		}
		if !control {
			r.instance("R2.6", 1)
		}
		bad := ""
		for i := range pf.returns {
			rs := &pf.returns[i]
			nf := pf.nilness(rs.vals[1])
			if nf.kind == fConst && nf.b {
				continue
			}
			for _, cj := range dnfAnd(rs.state, nf.dnf(true)) {
				if !infeasible(cj.with(wf...)) {
					bad = fmt.Sprintf("rejecting return at %s reachable with %s", c.pos(rs.instr.Pos()), truncate(cj.String(), 200))
				}
			}
		}
		rep("R2.6", bad == "", "every frame of the specified shape (all legal byte counts, exact length) is accepted: no rejecting return is reachable", bad, "rejects-wellformed")
	}
	p, isP := site.vals[0].(APtr)
	if !isP || p.obj == nil {
		rep("R2.1", false, "parser does not return an allocated object", "", "no-object")
		return fired
	}
	recv := pf.loadPath(p.obj, "", p.obj.typ, site.instr)
	sp := specFor(pi.fc)
	// byte-count enforcement (R2.2) for layouts whose byte count covers all that follows
	bcOff, over := int64(2), int64(5)
	if pi.tcp {
		bcOff, over = 8, 9
	}
	if sp != nil && len(sp.resp) == 2 && (sp.resp[0].kind == sByteCount || sp.resp[0].kind == sCountByte) {
		if !control {
			r.instance("R2.2", 1)
		}
		bc := pf.frameBytes(data, affConst(bcOff), 1, true)
		rep("R2.2", site.state.entails(atomEQ(data.ln, bc.addc(over))),
			fmt.Sprintf("success implies len(frame) = %d + byte count", over),
			"state: "+truncate(site.state.String(), 300), "bytecount-not-enforced")
	}
	// specification read map: unit id, (tid), byte count, payload position
	if sp != nil {
		unitOff := int64(0)
		if pi.tcp {
			unitOff = 6
		}
		if uv, _, ok := findField(an.u, recv, pi.tn, "UnitID", 0); ok {
			ai, isI := uv.(AInt)
			rep("R2.1", isI && site.state.entails(atomEQ(pf.useIn(ai, site.state, "unit"), pf.frameBytes(data, affConst(unitOff), 1, true))),
				fmt.Sprintf("UnitID is taken from frame[%d]", unitOff), describeAV(uv), "read:unit")
		}
		if pi.tcp {
			if tv, _, ok := findField(an.u, recv, pi.tn, "TransactionID", 0); ok {
				ai, isI := tv.(AInt)
				rep("R2.1", isI && site.state.entails(atomEQ(pf.useIn(ai, site.state, "tid"), pf.frameBytes(data, affConst(0), 2, true))),
					"TransactionID is the big-endian value of frame[0:2]", describeAV(tv), "read:tid")
			}
		}
	}
	// encode the parsed value
	an.obligs, an.wraps, an.ucalls = nil, nil, nil
	bf := runMethod(an, pi.bytes, recv, site.state)
	if len(bf.returns) != 1 {
		rep("R2.1", false, "encoder does not have exactly one return", "", "encoder-returns")
		return fired
	}
	res, isS := bf.returns[0].vals[0].(ASlice)
	if !isS || res.root == nil || !res.root.fresh {
		rep("R2.1", false, "encoder does not return a buffer it allocated", "", "encoder-buffer")
		return fired
	}
	rst := bf.returns[0].state
	L := res.root.ln
	if !rst.entails(atomEQ(res.ln, L)) || !rst.entails(atomEQ(res.off, affConst(0))) {
		rep("R2.1", false, "encoder returns a part of its buffer", "", "encoder-partial")
		return fired
	}
	if !rst.entails(atomEQ(L, data.ln)) {
		rep("R2.1", false, "re-encoded frame does not have the length of the parsed frame", fmt.Sprintf("encoded length %s, frame length %s", L.String(), data.ln.String()), "length:"+L.String())
		return fired
	}
	bodyEnd := L
	if !pi.tcp {
		bodyEnd = L.addc(-2)
	}
	ok = true
	for _, cj := range rst {
		segs, widths, why := tile(cj, res.root, L)
		if why != "" {
			rep("R2.1", false, "re-encoded buffer is not written as one gap-free sequence", why, "tiling")
			ok = false
			break
		}
		for i, w := range segs {
			if cj.entails(atomGE(w.off, bodyEnd)) {
				continue // CRC trailer: C03 R3.1
			}
			good := false
			switch w.kind {
			case wByte:
				if ai, isI := w.val.(AInt); isI {
					good = cj.entails(atomEQ(bf.useIn(ai, DNF{cj}, "roundtrip"), bf.frameBytes(data, w.off, 1, true)))
				}
			case wBEn, wLEn:
				if ai, isI := w.val.(AInt); isI {
					good = cj.entails(atomEQ(bf.useIn(ai, DNF{cj}, "roundtrip"), bf.frameBytes(data, w.off, w.n, w.kind == wBEn)))
				} else if w.n == 2 {
					// FC5: value selected by the parsed bool
					if _, isB := w.val.(AInt); !isB {
						good = false
					}
				}
			case wCopy:
				src := w.val.(ASlice)
				got := ASlice{root: src.root, off: src.off, ln: widths[i]}
				want := ASlice{root: data.root, off: data.off.add(w.off), ln: widths[i]}
				good = sameBytes(cj, got, want)
				if !good && widths[i].isConst() && widths[i].c <= 8 && src.root != nil && src.root.fresh {
					// source is a small local array filled byte by byte: compare element-wise
					save := bf.cur
					bf.cur = DNF{cj}
					good = true
					for k := int64(0); k < widths[i].c; k++ {
						v, ok := bf.readFresh(src.root, src.off.addc(k), 1, true)
						ai, isI := v.(AInt)
						if !ok || !isI || !cj.entails(atomEQ(bf.useIn(ai, DNF{cj}, "roundtrip"), bf.frameBytes(data, w.off.addc(k), 1, true))) {
							good = false
						}
					}
					bf.cur = save
				}
			}
			if !good {
				rep("R2.1", false, "re-encoding does not reproduce the frame", fmt.Sprintf("segment at offset %s (%s) stores %s, not frame[%s:+%s]", w.off.String(), w.pos, describeAV(w.val), w.off.String(), widths[i].String()),
					"segment@"+w.off.String())
				ok = false
				break
			}
		}
		if !ok {
			break
		}
	}
	if ok {
		rep("R2.1", true, fmt.Sprintf("encode(parse(frame)) = frame for every well-formed FC%d %s response (all header values, byte counts, payloads)", pi.fc, map[bool]string{true: "TCP", false: "RTU"}[pi.tcp]), "", "")
	}
	return fired
}

// c02Recogniser: R2.3 for As{TCP,RTU}ErrorPacket.
func c02Recogniser(c *Ctx, r *Report, fn *ssa.Function, tcp, control bool) map[string]bool {
	return c02RecogniserCRC(c, r, "R2.3", fn, nil, tcp, control)
}

// c02RecogniserCRC: with crc != nil the recogniser may also answer nil when the trailer does not
// equal CRC16 of the first three bytes (CRC16 uninterpreted).
func c02RecogniserCRC(c *Ctx, r *Report, rule string, fn, crc *ssa.Function, tcp, control bool) map[string]bool {
	fired := map[string]bool{}
	id := fnID(fn)
	rep := func(ok bool, what, detail, sig, pos string) {
		if !ok {
			fired[sig] = true
		}
		if control {
			return
		}
		if ok {
			r.ok(rule, id, what, pos, true)
		} else {
			r.fail(rule, id, what, pos, detail, sig)
		}
	}
	an := &Analysis{ctx: c, u: newUniverse(), top: fn}
	if crc != nil {
		an.uninterp = map[*ssa.Function]string{crc: "crc16"}
	}
	fr := an.newFrame(fn, nil, nil)
	fr.run(dnfTrue())
	if !control {
		r.instance(rule, 1)
		r.funcs[id] = true
	}
	data, ok := fr.vals[fn.Params[0]].(ASlice)
	if !ok {
		return fired
	}
	excLen, fcOff := int64(5), int64(1)
	if tcp {
		excLen, fcOff = 9, 7
	}
	fcb := fr.frameBytes(data, affConst(fcOff), 1, true)
	isExc := Conj{atomEQ(data.ln, affConst(excLen)), atomGE(fcb, affConst(128))}
	missPremise := isExc
	if crc != nil {
		// an exception frame whose trailer matches: LE16(data[3:5]) == CRC16(data[0:3])
		found := false
		for _, uc := range an.ucalls {
			a, isS := uc.args[0].(ASlice)
			v, isI := uc.res.(AInt)
			if isS && isI && a.root == data.root && a.off.isConst() && a.off.c == 0 && a.ln.isConst() && a.ln.c == excLen-2 {
				missPremise = isExc.with(atomEQ(fr.frameBytes(data, a.ln, 2, false), v.a))
				found = true
			}
		}
		if !found {
			rep(false, "no CRC16 call on the exception body data[0:3]", "", "no-crc-call", c.pos(fn.Pos()))
		}
	}
	var rets []ReturnSite
	for _, rs := range fr.returns {
		nf := fr.nilness(rs.vals[0])
		ref, isRef := rs.vals[0].(ARef)
		if nf.kind == fConst || !isRef || ref.inner == nil {
			rets = append(rets, rs)
			continue
		}
		// merged result of an inlined recogniser: examine its nil and non-nil parts separately
		nilPart, valPart := rs, rs
		nilPart.state = dnfAnd(rs.state, nf.dnf(false))
		nilPart.vals = []AV{ANil{}}
		valPart.state = dnfAnd(rs.state, nf.dnf(true))
		valPart.vals = []AV{ref.inner}
		rets = append(rets, nilPart, valPart)
	}
	for _, rs := range rets {
		pos := c.pos(rs.instr.Pos())
		nf := fr.nilness(rs.vals[0])
		if nf.kind == fConst && nf.b {
			// nil result: must not be an exception frame
			feas := false
			for _, cj := range dnfAnd(rs.state, DNF{missPremise}) {
				if !infeasible(cj) {
					feas = true
				}
			}
			rep(!feas, "returns nil only for frames that are not exception frames", truncate(rs.state.String(), 300), "misses-exception", pos)
			continue
		}
		// non-nil: state entails exception shape and the fields come from the frame
		shape := rs.state.entails(isExc[0]) && rs.state.entails(isExc[1])
		rep(shape, fmt.Sprintf("a non-nil result implies len = %d and bit 7 of the function byte set", excLen), truncate(rs.state.String(), 300), "false-exception", pos)
		var obj *Obj
		if ifc, ok := rs.vals[0].(AIface); ok {
			if p, ok := ifc.val.(APtr); ok {
				obj = p.obj
			}
		}
		if obj == nil {
			rep(false, "exception error is not a freshly built packet", describeAV(rs.vals[0]), "no-object", pos)
			continue
		}
		tn, _ := obj.typ.(*types.Named)
		val := fr.loadPath(obj, "", obj.typ, rs.instr)
		check := func(field string, want Aff) {
			fv, _, ok := findField(fr.an.u, val, tn, field, 0)
			ai, isI := fv.(AInt)
			rep(ok && isI && rs.state.entails(atomEQ(fr.useIn(ai, rs.state, field), want)), field+" of the error is "+want.String(), describeAV(fv), "field:"+field, pos)
		}
		unitOff := int64(0)
		if tcp {
			unitOff = 6
			check("TransactionID", fr.frameBytes(data, affConst(0), 2, true))
		}
		check("UnitID", fr.frameBytes(data, affConst(unitOff), 1, true))
		check("Function", fcb.addc(-128))
		check("Code", fr.frameBytes(data, affConst(fcOff+1), 1, true))
	}
	return fired
}

// c02Dispatcher: R2.3 (exceptions never surface as responses) and R2.4 (dispatch agreement).
func c02Dispatcher(c *Ctx, r *Report, fn *ssa.Function, tcp, control bool) map[string]bool {
	fired := map[string]bool{}
	id := fnID(fn)
	rep := func(rule string, ok bool, what, detail, sig, pos string) {
		if !ok {
			fired[rule+":"+sig] = true
		}
		if control {
			return
		}
		if ok {
			r.ok(rule, id, what, pos, true)
		} else {
			r.fail(rule, id, what, pos, detail, sig)
		}
	}
	an := &Analysis{ctx: c, u: newUniverse(), top: fn}
	type callRec struct {
		callee *ssa.Function
		state  DNF
		pos    string
		arg0   AV
	}
	var calls []callRec
	// calls made by the dispatcher itself or by an unexported helper it delegates to (a shared
	// body taking a flag), but not calls made inside the per-function parsers
	perFn := map[*ssa.Function]bool{}
	for _, pi := range packetParsers(c, pkgRelOf(c, fn), false) {
		perFn[pi.fn] = true
	}
	for _, pi := range packetParsers(c, pkgRelOf(c, fn), true) {
		perFn[pi.fn] = true
	}
	an.onCall = func(f *Frame, ci ssa.CallInstruction, callee *ssa.Function, args []AV) {
		if f.depth > 2 {
			return
		}
		for x := f; x != nil; x = x.parent {
			if x.depth > 0 && (perFn[x.fn] || (x.fn.Object() != nil && x.fn.Object().Exported())) {
				return
			}
		}
		var a0 AV
		if len(args) > 0 {
			a0 = args[0]
		}
		calls = append(calls, callRec{callee, f.cur, c.pos(ci.Pos()), a0})
	}
	fr := an.newFrame(fn, nil, nil)
	fr.run(dnfTrue())
	if !control {
		r.instance("R2.3", 1)
		r.funcs[id] = true
	}
	data, ok := fr.vals[fn.Params[0]].(ASlice)
	if !ok {
		return fired
	}
	fcOff := int64(1)
	if tcp {
		fcOff = 7
	}
	fcb := fr.frameBytes(data, affConst(fcOff), 1, true)
	for _, site := range expandedReturns(fr, 0) {
		rs := site.rs
		vn := site.fr.nilOrNilPtr(rs.vals[0])
		if vn.kind == fConst && vn.b {
			continue
		}
		st := dnfAnd(rs.state, vn.dnf(true))
		okk := true
		for _, cj := range st {
			if !infeasible(cj) && !cj.entails(atomLE(fcb, affConst(127))) {
				// a response may be returned: only acceptable when the function byte has bit 7 clear,
				// or the frame is not of exception length (then it is a malformed frame, handled by the parser)
				okk = false
			}
		}
		rep("R2.3", okk, "a response value can only be returned when bit 7 of the function byte is clear", truncate(rs.state.String(), 300), "exception-as-response", c.pos(rs.instr.Pos()))
	}
	// R2.6 on the dispatcher: a frame of a supported function code whose length lies between
	// the smallest reply of that function and the ADU size (260 TCP / 256 RTU) reaches that
	// function's parser: every return the dispatcher (or a helper of it) makes on its own — not
	// forwarded from a per-function parser — is unreachable for such a frame.
	isResp := strings.Contains(fn.Signature.Results().At(0).Type().String(), "Response")
	if isResp {
		minPDU := map[int64]int64{1: 3, 2: 3, 3: 4, 4: 4, 5: 5, 6: 5, 15: 5, 16: 5, 17: 4, 23: 4}
		for _, sp := range specTable {
			lo, hi := 7+minPDU[sp.fc], int64(260)
			if !tcp {
				lo, hi = 1+minPDU[sp.fc]+2, 256
			}
			prem := Conj{atomEQ(fcb, affConst(sp.fc)), atomGE(data.ln, affConst(lo)), atomLE(data.ln, affConst(hi))}
			if tcp {
				// well-formed MBAP header
				prem = append(prem, atomEQ(fr.frameBytes(data, affConst(2), 2, true), affConst(0)),
					atomEQ(fr.frameBytes(data, affConst(4), 2, true), data.ln.addc(-6)))
			}
			bad := ""
			for _, site := range expandedReturns(fr, 0) {
				if perFn[site.fr.fn] {
					continue
				}
				// a return that follows a call of a per-function parser hands on that parser's verdict
				after := false
				for _, b := range site.fr.fn.Blocks {
					for _, in := range b.Instrs {
						if cl, ok := in.(*ssa.Call); ok && perFn[cl.Common().StaticCallee()] && instrBefore(cl, site.rs.instr) {
							after = true
						}
					}
				}
				if after {
					continue
				}
				for _, cj := range site.rs.state {
					if !infeasible(cj.with(prem...)) {
						bad = fmt.Sprintf("return at %s reachable with %s", c.pos(site.rs.instr.Pos()), truncate(cj.String(), 200))
					}
				}
			}
			if !control {
				r.instance("R2.6", 1)
			}
			rep("R2.6", bad == "", fmt.Sprintf("a reply of function %d with a length between %d and %d bytes is handed to that function's parser (the dispatcher itself refuses none)", sp.fc, lo, hi), bad, fmt.Sprintf("dispatcher-refuses:%d", sp.fc), c.pos(fn.Pos()))
		}
	}
	parsers := map[*ssa.Function]parserInfo{}
	for _, pi := range packetParsers(c, pkgRelOf(c, fn), false) {
		parsers[pi.fn] = pi
	}
	for _, pi := range packetParsers(c, pkgRelOf(c, fn), true) {
		parsers[pi.fn] = pi
	}
	seenFC := map[int64]bool{}
	for _, cl := range calls {
		pi, isParser := parsers[cl.callee]
		if !isParser {
			continue
		}
		if !control {
			r.instance("R2.4", 1)
		}
		// the per-function parser is shown everything the dispatcher was given (for a verifying
		// dispatcher: everything but the checked trailer): a dispatcher that trims its input hides
		// surplus or missing bytes from the parser's own length checks
		if s, ok := cl.arg0.(ASlice); ok {
			whole := s.root == data.root && cl.state.entails(atomEQ(s.off, data.off)) &&
				(cl.state.entails(atomEQ(s.ln, data.ln)) || cl.state.entails(atomEQ(s.ln, data.ln.addc(-2))))
			rep("R2.4", whole, fmt.Sprintf("%s is handed the dispatcher's whole input", cl.callee.Name()), describeAV(cl.arg0), "dispatcher-trims-input:"+cl.callee.Name(), cl.pos)
		}
		okFC := cl.state.entails(atomEQ(fcb, affConst(pi.fc)))
		rep("R2.4", okFC && pi.tcp == tcp, fmt.Sprintf("case for function code %d calls %s (type reports FC %d, %s framing)", pi.fc, cl.callee.Name(), pi.fc, map[bool]string{true: "TCP", false: "RTU"}[pi.tcp]),
			"state at call: "+truncate(cl.state.String(), 200), fmt.Sprintf("dispatch:%s", cl.callee.Name()), cl.pos)
		seenFC[pi.fc] = true
	}
	for _, sp := range specTable {
		if !seenFC[sp.fc] {
			rep("R2.4", false, fmt.Sprintf("no case dispatches function code %d", sp.fc), "", fmt.Sprintf("missing-fc:%d", sp.fc), c.pos(fn.Pos()))
		}
	}
	return fired
}

func pkgRelOf(c *Ctx, fn *ssa.Function) string {
	p := fn.Pkg.Pkg.Path()
	p = strings.TrimPrefix(p, c.modRoot)
	return strings.TrimPrefix(p, "/")
}

func init() {
	controls["C02"] = func(c *Ctx, r *Report) {
		byName := map[string]parserInfo{}
		for _, pi := range packetParsers(c, "c02", false) {
			byName[pi.fn.Name()] = pi
		}
		has := func(m map[string]bool, prefix string) bool {
			for k := range m {
				if strings.HasPrefix(k, prefix) {
					return true
				}
			}
			return false
		}
		if pi, ok := byName["ParseGoodTCP"]; ok {
			if len(c02RoundTrip(c, r, pi, nil, true)) != 0 {
				r.controls["C02/negative-control-silent"] = false
			}
		} else {
			r.controls["C02/negative-control-present"] = false
		}
		r.controls["C02/R2.1-shifted-payload"] = has(c02RoundTrip(c, r, byName["ParseShiftedTCP"], nil, true), "R2.1:")
		r.controls["C02/R2.2-bytecount"] = has(c02RoundTrip(c, r, byName["ParseLooseTCP"], nil, true), "R2.2:bytecount-not-enforced")
		r.controls["C02/R2.3-wrong-unit"] = has(c02Recogniser(c, r, c.fnMust("c02", "AsErrWrongUnit"), true, true), "field:UnitID")
		r.controls["C02/R2.3-misses-0x80"] = has(c02Recogniser(c, r, c.fnMust("c02", "AsErrMisses0x80"), true, true), "misses-exception")
		d := c02Dispatcher(c, r, c.fnMust("c02", "DispatchCrossed"), true, true)
		r.controls["C02/R2.4-crossed-dispatch"] = has(d, "R2.4:dispatch:")
		r.controls["C02/R2.3-exception-as-response"] = has(d, "R2.3:exception-as-response")
	}
}

func crcIf(crc *ssa.Function, rtu bool) *ssa.Function {
	if rtu {
		return crc
	}
	return nil
}

// c02NeverNeither copies the C10 R10.3 items of the reply dispatchers (value nil <=> error
// non-nil on every return) under the given rule id.
func c02NeverNeither(c *Ctx, r *Report, rule string) {
	tmp := newReport(r.Prop, r.Tier)
	runC10On(c, tmp, "packet", nil, false)
	n := 0
	for _, it := range tmp.items {
		if it.Rule == "R10.3" && strings.Contains(it.Construct, "Response") && !strings.Contains(it.Construct, "Request") && strings.Contains(it.Construct, "packet.Parse") && (strings.HasSuffix(it.Construct, "TCPResponse") || strings.HasSuffix(it.Construct, "RTUResponse") || strings.HasSuffix(it.Construct, "ResponseWithCRC")) {
			it.Rule = rule
			r.add(it)
			n++
		}
	}
	r.instance(rule, n)
}

// c02ExceptionTyped: see the call site.
func c02ExceptionTyped(c *Ctx, r *Report, fn *ssa.Function, tcp bool, crc *ssa.Function) {
	id := fnID(fn)
	r.instance("R2.3", 1)
	an := &Analysis{ctx: c, u: newUniverse(), top: fn, uninterp: map[*ssa.Function]string{crc: "crc16"}}
	fr := an.newFrame(fn, nil, nil)
	data, ok := fr.vals[fn.Params[0]].(ASlice)
	if !ok {
		r.undecided("R2.3", id, "first parameter is not a byte slice", c.pos(fn.Pos()))
		return
	}
	ln, fcOff := int64(5), int64(1)
	prem := Conj{}
	if tcp {
		ln, fcOff = 9, 7
		prem = append(prem, atomEQ(fr.frameBytes(data, affConst(2), 2, true), affConst(0)), atomEQ(fr.frameBytes(data, affConst(4), 2, true), affConst(3)))
	}
	prem = append(prem, atomEQ(data.ln, affConst(ln)), atomGE(fr.frameBytes(data, affConst(fcOff), 1, true), affConst(128)))
	fr.run(DNF{prem})
	bad := ""
	for _, site := range expandedReturns(fr, 0) {
		rs := site.rs
		if len(rs.state) == 0 {
			continue
		}
		feasible := false
		for _, cj := range rs.state {
			if !infeasible(cj) {
				feasible = true
			}
		}
		if !feasible {
			continue
		}
		// a single exit that merges several paths is judged path by path (the phi's incoming values
		// under the states of their edges)
		type alt struct {
			ev AV
			st DNF
		}
		alts := []alt{{rs.vals[len(rs.vals)-1], rs.state}}
		if nres := len(rs.instr.Results); nres > 0 {
			if ph, isPhi := rs.instr.Results[nres-1].(*ssa.Phi); isPhi && ph.Block() == rs.instr.Block() {
				alts = nil
				for i, e := range ph.Edges {
					pred := ph.Block().Preds[i]
					st := site.fr.edge[[2]int{pred.Index, ph.Block().Index}]
					feas := false
					for _, cj := range st {
						if !infeasible(cj.with(an.global...)) {
							feas = true
						}
					}
					if !feas {
						continue
					}
					// the result of a parser of the module called on this path: that parser's returns
					if ex, isEx := e.(*ssa.Extract); isEx {
						if call, isCall := ex.Tuple.(*ssa.Call); isCall {
							if ch := site.fr.child[call]; ch != nil && c.inModule(ch.fn) {
								n0 := len(alts)
								for _, s2 := range expandedReturns(ch, 1) {
									if len(s2.rs.state) > 0 && ex.Index < len(s2.rs.vals) {
										alts = append(alts, alt{s2.rs.vals[ex.Index], s2.rs.state})
									}
								}
								if len(alts) > n0 {
									continue
								}
							}
						}
					}
					alts = append(alts, alt{site.fr.val(e), st})
				}
			}
		}
		for _, al := range alts {
			ev := al.ev
			if g, isG := ev.(AGlobalVal); isG && strings.Contains(g.g.Name(), "CRC") {
				continue // the verifying dispatcher's CRC failure
			}
			if ai, isI := ev.(AIface); isI {
				if g, isG := ai.val.(AGlobalVal); isG && strings.Contains(g.g.Name(), "CRC") {
					continue
				}
			}
			ts, unknown := dynTypesOf(ev)
			okT := !unknown && len(ts) == 1
			if okT {
				nt, isN := deref(ts[0]).(*types.Named)
				okT = isN && strings.HasPrefix(nt.Obj().Name(), "ErrorResponse")
			}
			nf := site.fr.nilness(ev)
			if !okT || !(nf.kind == fConst && !nf.b) && !al.st.entailsForm(formNot(nf)) {
				bad = fmt.Sprintf("return at %s yields %s (dynamic types %v, unknown=%v, nilness %v)", c.pos(rs.instr.Pos()), describeAV(ev), ts, unknown, nf.kind)
			}
		}
	}
	if bad == "" {
		r.ok("R2.3", id, "every frame of exception length with bit 7 set in the function byte comes back as the typed exception of this framing (or as the CRC failure)", c.pos(fn.Pos()), true)
	} else {
		r.fail("R2.3", id, "a frame of exception length with bit 7 set in the function byte can come back as something other than the typed exception", c.pos(fn.Pos()), bad, "exception-not-typed")
	}
}
