package main

// C16 — every server reply is a well-formed ADU addressed to the request it answers
// (DESIGN §3 C16).

import (
	"fmt"
	"go/token"
	"go/types"
	"strings"

	"golang.org/x/tools/go/ssa"
)

func init() {
	register("C16", checkC16, "R16.1 the two unchecked type assertions of the assembler are discharged by the abstract interpreter: every error that can reach them has dynamic type *ErrorParseTCP and is non-nil (set of dynamic types merged over all return sites of the classifier, ParseTCPRequest and ParseMBAPHeader). R16.2 the request dispatcher is interpreted under the facts the assembler has established when it calls it (classifier accepted: protocol id 0, length field >= 3, function byte in the supported table; complete frame: len = 6 + length field): every feasible rejecting return carries an exception whose transaction id, unit id and function are the frame's own bytes and whose code is 3; unaddressed errors (header parser, unknown function) are infeasible there (R16.2b). R16.3 ErrorResponseTCP.Bytes() writes exactly 9 bytes: transaction id, protocol 0, length 3, unit id, function+0x80 (function <= 127), code. R16.4 every reply the assembler builds itself takes transaction id and unit id from the consumed frame and the function code from the parsed request; the other replies are the classifier's addressed exception, the parser's exception (R16.2), the handler's own typed error or the handler's response. R16.5 every go statement of package server starts by deferring a function that recovers, and nothing in that deferred function can panic on a nil callback (C17 R17.1). What handlers put into their own responses is outside the property. R16.0 = C15 R15.1/R15.2. R16.6 no function reachable from the per-connection path stores to package-level state, directly or through a pointer loaded from a package-level variable. R16.7 = C15 R15.3 (the assembler loop: persistence of buffered bytes, every buffered request answered in turn). R16.9 after a failed reply Write the connection loop cannot reach the next Read. R16.5 also: every bounds/nil/assertion obligation of what the deferred recovery reaches is discharged and the recovered value is not asserted unchecked. R16.10 = C15 R15.5 (one freshly allocated assembler per accepted connection). R16.11 for every function code with a quantity limit, each accepting return of the dispatcher (under the same facts as R16.2) entails that the 16-bit field at the specification's frame offset lies in the specification's range, so an out-of-range quantity cannot reach the handler.")
}

func checkC16(c *Ctx, r *Report) {
	r.floor("R16.0", 1)
	r.floor("R16.1", 2)
	r.floor("R16.2", 10)
	r.floor("R16.11", 8)
	r.floor("R16.3", 1)
	r.floor("R16.4", 1)
	r.floor("R16.5", 1)
	// R16.0: replies can only be addressed to "the request" if the assembler answers complete
	// frames and consumes exactly them (the C15 R15.1/R15.2 analysis, re-run here)
	{
		cls := c.fnMust("packet", "LooksLikeModbusTCP")
		if node := c.callGraph().Nodes[cls]; node != nil {
			for _, e := range node.In {
				if e.Caller.Func.Pkg == c.pkg("server") {
					tmp := newReport(r.Prop, r.Tier)
					c15Step(c, tmp, nil, e.Caller.Func)
					for _, it := range tmp.items {
						it.Rule = "R16.0"
						r.add(it)
					}
					r.instance("R16.0", 1)
				}
			}
		}
	}
	// R16.7: a reply can only be addressed to "its" request if the bytes of a request split over
	// several reads are still there when the rest arrives and every buffered request is answered
	// in turn: the assembler loop rules of C15 (R15.3)
	{
		cls := c.fnMust("packet", "LooksLikeModbusTCP")
		var step *ssa.Function
		if node := c.callGraph().Nodes[cls]; node != nil {
			for _, e := range node.In {
				if e.Caller.Func.Pkg == c.pkg("server") {
					step = e.Caller.Func
				}
			}
		}
		if step != nil {
			tmp := newReport(r.Prop, r.Tier)
			c15Loop(c, tmp, assemblerReceiveRead(c), step)
			r.instance("R16.7", copyItems(tmp, r, "R15.3", "R16.7"))
		}
		r.floor("R16.7", 4)
	}
	// R16.10: a reply carries the ids of its own request only if no other connection can write into
	// the bytes being reassembled: one freshly allocated assembler per accepted connection (C15 R15.5)
	{
		tmp := newReport(r.Prop, r.Tier)
		c15Factory(c, tmp)
		r.instance("R16.10", copyItems(tmp, r, "R15.5", "R16.10"))
		r.floor("R16.10", 2)
	}
	c16Assembler(c, r)
	c16Dispatcher(c, r)
	c16ExceptionLayout(c, r)
	c16Isolation(c, r)
	r.floor("R16.6", 20)
	c16SharedState(c, r)
	c16WriteFailure(c, r)
	r.floor("R16.9", 1)
	r.assumption("handler-built responses and handler-typed errors are outside the property; function codes are 1..127")
	r.assumption("the assembler calls the dispatcher only with a frame the classifier accepted and that is completely buffered (C15 R15.1)")
}

// c16Assembler: R16.1 and R16.4 on the function that calls the classifier.
func c16Assembler(c *Ctx, r *Report) {
	cls := c.fnMust("packet", "LooksLikeModbusTCP")
	var step *ssa.Function
	if node := c.callGraph().Nodes[cls]; node != nil {
		for _, e := range node.In {
			if e.Caller.Func.Pkg == c.pkg("server") {
				step = e.Caller.Func
			}
		}
	}
	if step == nil {
		r.instance("R16.1", 1)
		r.fail("R16.1", "server", "no function of package server calls the stream classifier", "-", "", "no-classifier-caller")
		return
	}
	id := fnID(step)
	r.funcs[id] = true
	an := &Analysis{ctx: c, u: newUniverse(), top: step, logCalls: true}
	fr := an.newFrame(step, nil, nil)
	fr.run(dnfTrue())
	nAssert := 0
	for _, o := range an.obligs {
		if o.kind != "assert" || o.fn != step {
			continue
		}
		nAssert++
		r.instance("R16.1", 1)
		if o.ok {
			r.ok("R16.1", id, o.desc+": every error reaching it is a non-nil *ErrorParseTCP", c.pos(o.pos), true)
		} else {
			r.fail("R16.1", id, o.desc, c.pos(o.pos), o.facts, "assert:"+c.exprAt(o.pos, o.fn))
		}
	}
	for _, o := range an.obligs {
		if o.kind != "assert" && !o.ok && o.fn == step {
			r.instance("R16.1", 1)
			r.fail("R16.1", id, "assembler may panic: "+o.desc, c.pos(o.pos), o.facts, o.kind+":"+c.exprAt(o.pos, o.fn))
		}
	}
	// ---- R16.4: origin of every reply ----
	var frame *ASlice
	for _, cr := range an.calls {
		if cr.frame == fr && cr.callee != nil && cr.callee.String() == "(*bytes.Buffer).Next" {
			if s, ok := cr.res.(ASlice); ok {
				frame = &s
			}
		}
	}
	for _, cr := range an.calls {
		if cr.frame != fr {
			continue
		}
		isBytes := (cr.method == "Bytes") || (cr.callee != nil && cr.callee.Name() == "Bytes" && c.inModule(cr.callee))
		if !isBytes || len(cr.state) == 0 {
			continue
		}
		pos := posOfCall(c, cr)
		r.instance("R16.4", 1)
		if cr.method == "Bytes" {
			r.ok("R16.4", id, "reply is the handler's own response", pos, false)
			continue
		}
		// static (ErrorParseTCP).Bytes(value): where does the value come from?
		val := cr.args[0]
		lit, isLit := val.(AStructLit)
		origin := "unknown"
		switch v := val.(type) {
		case AStruct:
			origin = "symbolic:" + v.key
		case AStructLit:
			_ = v
			origin = "built"
		}
		if isLit {
			// fields of Packet
			pk, pt, ok := findField(an.u, lit, lit.typ, "Packet", 0)
			tid, _, ok1 := findField(an.u, pk, pt, "TransactionID", 0)
			uid, _, ok2 := findField(an.u, pk, pt, "UnitID", 0)
			fcv, _, ok3 := findField(an.u, pk, pt, "Function", 0)
			if ok && ok1 && ok2 && ok3 && frame != nil {
				ti, isT := tid.(AInt)
				ui, isU := uid.(AInt)
				okT := isT && cr.state.entails(atomEQ(fr.useIn(ti, cr.state, "tid"), fr.frameBytes(*frame, affConst(0), 2, true)))
				okU := isU && cr.state.entails(atomEQ(fr.useIn(ui, cr.state, "unit"), fr.frameBytes(*frame, affConst(6), 1, true)))
				// function: the frame's function byte, or FunctionCode() of the parsed request
				okF := false
				if fi, isF := fcv.(AInt); isF {
					if cr.state.entails(atomEQ(fr.useIn(fi, cr.state, "fc"), fr.frameBytes(*frame, affConst(7), 1, true))) {
						okF = true
					}
					for _, c2 := range an.calls {
						if c2.frame.within(fr) && c2.method == "FunctionCode" {
							if ri, ok := c2.res.(AInt); ok && ri.a.equal(fi.a) {
								okF = true
							}
						}
					}
				}
				if okT && okU && okF {
					r.ok("R16.4", id, "exception built by the assembler takes transaction id and unit id from the consumed frame and the function code from the parsed request", pos, true)
				} else {
					r.fail("R16.4", id, "exception built by the assembler is not addressed to the request it answers", pos,
						fmt.Sprintf("tid ok=%v unit ok=%v function ok=%v (tid=%s unit=%s fc=%s)", okT, okU, okF, describeAV(tid), describeAV(uid), describeAV(fcv)),
						fmt.Sprintf("unaddressed:tid=%v,unit=%v,fc=%v", okT, okU, okF))
				}
				continue
			}
		}
		// value loaded through a pointer: classifier/parser error (asserted), handler's typed error, or a package-level error value
		src := describeOrigin(cr, an, fr)
		switch {
		case strings.HasPrefix(src, "assert"):
			r.ok("R16.4", id, "reply is the exception carried by the classifier's / dispatcher's error (addressed: R16.2, C18 R18.4)", pos, true)
		case src == "errors.As-target":
			r.ok("R16.4", id, "reply is the handler's own typed error", pos, false)
		case strings.HasPrefix(src, "global:"):
			// a constant error value has transaction id 0: acceptable only when the connection is closed and the stream was not Modbus
			closing := false
			roles := c15ResultRoles(nil, fr.fn)
			for _, rs := range fr.returns {
				if rs.instr.Block() == cr.instr.Block() && roles.closeC >= 0 {
					cv := AV(nil)
					if roles.strct {
						cv = an.u.fieldOf(rs.vals[0], roles.closeC)
					} else {
						cv = rs.vals[roles.closeC]
					}
					if b, ok := cv.(ABool); ok && b.f.kind == fConst && b.f.b {
						closing = true
					}
				}
			}
			if closing {
				r.info("R16.4", id, "a stream that is not Modbus TCP is answered with the constant "+strings.TrimPrefix(src, "global:")+" and the connection is closed (not a request; outside the property)", pos)
			} else {
				r.fail("R16.4", id, "a constant (unaddressed) error value is sent as a reply while the connection stays open", pos, src, "constant-reply:"+src)
			}
		default:
			r.fail("R16.4", id, "reply bytes of unknown origin ("+origin+")", pos, src, "origin:"+src)
		}
	}
}

// describeOrigin classifies the struct value passed to (ErrorParseTCP).Bytes by looking at
// the SSA value it was loaded from.
func describeOrigin(cr *CallRec, an *Analysis, fr *Frame) string {
	arg := cr.instr.Common().Args[0]
	ld, ok := arg.(*ssa.UnOp)
	if !ok {
		return "value"
	}
	switch p := ld.X.(type) {
	case *ssa.TypeAssert:
		return "assert:" + p.X.Name()
	case *ssa.UnOp:
		// *(*target) or *global
		if g, ok := p.X.(*ssa.Global); ok {
			return "global:" + g.Name()
		}
		if al, ok := p.X.(*ssa.Alloc); ok {
			// target of errors.As
			if refs := al.Referrers(); refs != nil {
				for _, rf := range *refs {
					if mi, ok := rf.(*ssa.MakeInterface); ok {
						if r2 := mi.Referrers(); r2 != nil {
							for _, u := range *r2 {
								if call, ok := u.(*ssa.Call); ok && call.Common().StaticCallee() != nil && call.Common().StaticCallee().String() == "errors.As" {
									return "errors.As-target"
								}
							}
						}
					}
				}
			}
		}
	case *ssa.Call:
		return "call:" + p.Name()
	}
	return "load"
}

// c16Dispatcher: R16.2 / R16.2b.
func c16Dispatcher(c *Ctx, r *Report) {
	disp := c.fnMust("packet", "ParseTCPRequest")
	id := fnID(disp)
	r.funcs[id] = true
	table, _ := globalArrayConsts(c, "packet", "supportedFunctionCodes")
	for _, fc := range table {
		an := &Analysis{ctx: c, u: newUniverse(), top: disp}
		pf := an.newFrame(disp, nil, nil)
		d, _ := pf.vals[disp.Params[0]].(ASlice)
		lf := pf.frameBytes(d, affConst(4), 2, true)
		fcb := pf.frameBytes(d, affConst(7), 1, true)
		prem := Conj{atomGE(d.ln, affConst(8)), atomEQ(pf.frameBytes(d, affConst(2), 1, true), affConst(0)), atomEQ(pf.frameBytes(d, affConst(3), 1, true), affConst(0)),
			atomGE(lf, affConst(3)), atomEQ(fcb, affConst(fc)), atomEQ(d.ln, lf.addc(6))}
		pf.run(DNF{prem})
		r.instance("R16.2", 1)
		nrej, bad := 0, 0
		for _, rs := range pf.returns {
			if len(rs.state) == 0 {
				continue
			}
			nf := pf.nilness(rs.vals[1])
			if nf.kind == fConst && nf.b {
				continue
			}
			nrej++
			pos := c.pos(rs.instr.Pos())
			// find the exception object: through merged refs the inner value is the iface of the pointer
			obj := excObjOf(rs.vals[1])
			if obj == nil {
				// merged over several rejecting sites of the callee: check each of the callee's sites
				okAll, why := c16CalleeSites(c, pf, rs, d, fc)
				if !okAll {
					bad++
					r.fail("R16.2", id, fmt.Sprintf("FC%d: a rejecting path returns an exception that is not addressed to the request", fc), pos, why, fmt.Sprintf("fc%d:%s", fc, why))
				}
				continue
			}
			if why := c16CheckExc(pf, rs.state, rs.instr, obj, d, fc); why != "" {
				bad++
				r.fail("R16.2", id, fmt.Sprintf("FC%d: a rejecting path returns an exception that is not addressed to the request", fc), pos, why, fmt.Sprintf("fc%d:%s", fc, why))
			}
		}
		// R16.11: the quantity test looks at the quantity field: on every accepting return the 16-bit
		// field at the specification's offset of the frame is inside the specification's range (a
		// test applied to other bytes of the frame lets an out-of-range request through to the
		// handler instead of answering it with code 3)
		if sp := specFor(fc); sp != nil {
			off := int64(8)
			fieldOff := map[string]int64{}
			for _, sg := range sp.req {
				switch sg.kind {
				case sBE16, sCoil:
					fieldOff[sg.field] = off
					off += 2
				case sByteCount, sCountByte, sByte:
					off++
				default:
					off = -1 << 40 // variable part: later offsets are not constant
				}
				if off < 0 {
					break
				}
			}
			for _, lim := range sp.lim {
				fo, has := fieldOff[lim.field]
				if !has {
					continue
				}
				r.instance("R16.11", 1)
				q := pf.frameBytes(d, affConst(fo), 2, true)
				nacc, nbad := 0, 0
				where := ""
				judge := func(st DNF, at ssa.Instruction) {
					nacc++
					if !st.entails(atomGE(q, affConst(lim.lo))) || !st.entails(atomLE(q, affConst(lim.hi))) {
						nbad++
						where = c.pos(at.Pos())
					}
				}
				for _, rs := range pf.returns {
					if len(rs.state) == 0 {
						continue
					}
					nf := pf.nilness(rs.vals[1])
					if nf.kind == fConst {
						if nf.b {
							judge(rs.state, rs.instr)
						}
						continue
					}
					// (value, error) forwarded from the per-function parser called in the returning
					// block: its own accepting returns
					inBlock := 0
					for call := range pf.child {
						if call.Block() == rs.instr.Block() {
							inBlock++
						}
					}
					for call, ch := range pf.child {
						// the callee called in the returning block; when the result travels through a
						// variable to a common exit, every callee frame is looked at
						if inBlock > 0 && call.Block() != rs.instr.Block() {
							continue
						}
						if ch.fn == nil || ch.fn.Signature.Results().Len() != 2 || !types.Identical(ch.fn.Signature.Results().At(1).Type(), disp.Signature.Results().At(1).Type()) ||
							!types.AssignableTo(ch.fn.Signature.Results().At(0).Type(), disp.Signature.Results().At(0).Type()) {
							continue
						}
						for _, crs := range ch.returns {
							if len(crs.state) == 0 {
								continue
							}
							cn := ch.nilness(crs.vals[len(crs.vals)-1])
							if cn.kind == fConst && cn.b {
								judge(crs.state, crs.instr)
							} else if cn.kind != fConst {
								nbad++
								where = c.pos(crs.instr.Pos()) + " (error result neither nil nor non-nil)"
							}
						}
					}
				}
				switch {
				case nacc == 0:
					r.undecided("R16.11", id, fmt.Sprintf("FC%d: no accepting return found", fc), c.pos(disp.Pos()))
				case nbad > 0:
					r.fail("R16.11", id, fmt.Sprintf("FC%d: a classifier-accepted complete frame whose %s field (frame bytes %d..%d) is outside %d..%d can be accepted and handed to the handler instead of being answered with exception code 3", fc, lim.field, fo, fo+1, lim.lo, lim.hi), where, "", fmt.Sprintf("fc%d:quantity-not-tested:%s", fc, lim.field))
				default:
					r.ok("R16.11", id, fmt.Sprintf("FC%d: every accepting return entails %d <= %s <= %d for the field at frame bytes %d..%d", fc, lim.lo, lim.field, lim.hi, fo, fo+1), c.pos(disp.Pos()), true)
				}
			}
		}
		for _, o := range an.obligs {
			if !o.ok {
				bad++
				r.fail("R16.2", id, fmt.Sprintf("FC%d: a classifier-accepted frame with a truncated body can make the parser panic instead of producing an exception reply: %s in %s", fc, o.desc, o.chain), c.pos(o.pos), o.facts,
					fmt.Sprintf("fc%d:panic:%s", fc, c.exprAt(o.pos, o.fn)))
			}
		}
		if bad == 0 {
			r.ok("R16.2", id, fmt.Sprintf("FC%d: every feasible rejection of a classifier-accepted complete frame carries transaction id, unit id and function of the frame and code 3; unaddressed header/unknown-function errors are infeasible", fc), c.pos(disp.Pos()), true)
		}
	}
}

func excObjOf(v AV) *Obj {
	switch x := v.(type) {
	case AIface:
		if p, ok := x.val.(APtr); ok && p.obj != nil && !p.obj.symbolic {
			return p.obj
		}
	case ARef:
		if x.inner != nil {
			return excObjOf(x.inner)
		}
	}
	return nil
}

// c16CalleeSites: the dispatcher forwards its callee's (value, error); check every feasible
// rejecting return site of the callee frames.
func c16CalleeSites(c *Ctx, pf *Frame, rs ReturnSite, d ASlice, fc int64) (bool, string) {
	ok := true
	why := ""
	any := false
	for _, ch := range pf.child {
		// only the callee whose call is in the returning block
		found := false
		for call := range pf.child {
			if pf.child[call] == ch && call.Block() == rs.instr.Block() {
				found = true
			}
		}
		if !found {
			continue
		}
		for _, crs := range ch.returns {
			if len(crs.state) == 0 {
				continue
			}
			n := len(crs.vals)
			nf := ch.nilness(crs.vals[n-1])
			if nf.kind == fConst && nf.b {
				continue
			}
			any = true
			obj := excObjOf(crs.vals[n-1])
			if obj == nil {
				// forwarded from a deeper callee (header parser): such a return must be infeasible
				ok = false
				why = "unaddressed error forwarded from " + c.pos(crs.instr.Pos())
				continue
			}
			if w := c16CheckExc(ch, crs.state, crs.instr, obj, d, fc); w != "" {
				ok = false
				why = w + " at " + c.pos(crs.instr.Pos())
			}
		}
	}
	if !any {
		return true, ""
	}
	return ok, why
}

func c16CheckExc(f *Frame, st DNF, at ssa.Instruction, obj *Obj, d ASlice, fc int64) string {
	tn, _ := obj.typ.(*types.Named)
	if tn == nil || tn.Obj().Name() != "ErrorParseTCP" {
		return "error is not *ErrorParseTCP"
	}
	val := f.loadPath(obj, "", obj.typ, at)
	pk, pt, ok := findField(f.an.u, val, tn, "Packet", 0)
	if !ok {
		return "no Packet field"
	}
	chk := func(field string, want Aff) string {
		fv, _, ok := findField(f.an.u, pk, pt, field, 0)
		ai, isI := fv.(AInt)
		if !ok || !isI || !st.entails(atomEQ(f.useIn(ai, st, field), want)) {
			return fmt.Sprintf("%s=%s want %s", field, describeAV(fv), want.String())
		}
		return ""
	}
	for _, w := range []string{
		chk("TransactionID", f.frameBytes(d, affConst(0), 2, true)),
		chk("UnitID", f.frameBytes(d, affConst(6), 1, true)),
		chk("Function", affConst(fc)),
		chk("Code", affConst(3)),
	} {
		if w != "" {
			return w
		}
	}
	return ""
}

// c16ExceptionLayout: R16.3.
func c16ExceptionLayout(c *Ctx, r *Report) {
	m := c.fnMust("packet", "ErrorResponseTCP.Bytes")
	id := fnID(m)
	r.funcs[id] = true
	r.instance("R16.3", 1)
	an := &Analysis{ctx: c, u: newUniverse(), top: m}
	tn := m.Signature.Recv().Type().(*types.Named)
	recv := an.u.symbolic("re", tn)
	fnv, _, _ := findField(an.u, recv, tn, "Function", 0)
	fi, _ := fnv.(AInt)
	fr := runMethod(an, m, recv, DNF{Conj{atomLE(fi.a, affConst(127))}})
	pos := c.pos(m.Pos())
	if len(fr.returns) != 1 {
		r.undecided("R16.3", id, "encoder has more than one return", pos)
		return
	}
	res, ok := fr.returns[0].vals[0].(ASlice)
	if !ok || res.root == nil || !res.root.fresh {
		r.undecided("R16.3", id, "encoder does not return a buffer it allocated", pos)
		return
	}
	rst := fr.returns[0].state
	if !rst.entails(atomEQ(res.root.ln, affConst(9))) || !rst.entails(atomEQ(res.ln, affConst(9))) {
		r.fail("R16.3", id, "exception ADU is not 9 bytes long", pos, res.root.ln.String(), "length:"+res.root.ln.String())
		return
	}
	get := func(name string) Aff {
		fv, _, _ := findField(an.u, recv, tn, name, 0)
		ai, _ := fv.(AInt)
		return ai.a
	}
	zero, three := affConst(0), affConst(3)
	tid, unit, code := get("TransactionID"), get("UnitID"), get("Code")
	fcv := fi.a.addc(128)
	exp := []expSeg{{what: "transaction id", n: 2, val: &tid}, {what: "protocol id 0", n: 2, val: &zero}, {what: "length 3", n: 2, val: &three},
		{what: "unit id", n: 1, val: &unit}, {what: "function + 0x80", n: 1, val: &fcv}, {what: "exception code", n: 1, val: &code}}
	for _, cj := range rst {
		segs, widths, why := tile(cj, res.root, affConst(9))
		if why != "" {
			r.fail("R16.3", id, "exception ADU is not written as one gap-free sequence", pos, why, "tiling")
			return
		}
		if ok, why := matchLayout(fr, cj, segs, widths, exp, 0); !ok {
			r.fail("R16.3", id, "exception ADU differs from the specified layout", pos, why, "layout:"+why)
			return
		}
	}
	for _, w := range an.wraps {
		r.fail("R16.3", id, "narrow arithmetic may wrap: "+w.what, w.pos, "", "wrap:"+w.what)
		return
	}
	r.ok("R16.3", id, "9 bytes: transaction id, protocol 0, length 3, unit id, function+0x80, code (function <= 127)", pos, true)
}

// c16Isolation: R16.5.
func c16Isolation(c *Ctx, r *Report) {
	for _, fn := range c.allFuncs("server") {
		for _, b := range fn.Blocks {
			for _, in := range b.Instrs {
				g, ok := in.(*ssa.Go)
				if !ok {
					continue
				}
				r.instance("R16.5", 1)
				id := fnID(fn)
				r.funcs[id] = true
				pos := c.pos(g.Pos())
				var gofn *ssa.Function
				switch v := g.Common().Value.(type) {
				case *ssa.MakeClosure:
					gofn = v.Fn.(*ssa.Function)
				case *ssa.Function:
					gofn = v
				}
				okRec := false
				if gofn != nil && len(gofn.Blocks) > 0 {
					for _, gi := range gofn.Blocks[0].Instrs {
						d, ok := gi.(*ssa.Defer)
						if !ok {
							continue
						}
						if mc, ok := d.Common().Value.(*ssa.MakeClosure); ok {
							df := mc.Fn.(*ssa.Function)
							for _, di := range df.Blocks[0].Instrs {
								if call, ok := di.(*ssa.Call); ok {
									if bi, ok := call.Common().Value.(*ssa.Builtin); ok && bi.Name() == "recover" {
										okRec = true
									}
									break
								}
							}
						}
						break
					}
				}
				if okRec {
					r.ok("R16.5", id, "the goroutine starts by deferring a function whose first action is recover(): a panicking handler or parser cannot terminate the process", pos, true)
				} else {
					r.fail("R16.5", id, "a goroutine of package server is not protected by a deferred recover", pos, "", "go-without-recover")
				}
			}
		}
	}
	// ... nor anything the cleanup calls: every index/slice/assertion obligation reachable from a
	// deferred cleanup closure of a goroutine (helpers of the module inlined) holds
	for _, fn := range c.allFuncs("server") {
		if fn.Parent() == nil {
			continue
		}
		isCleanup := false
		for _, pb := range fn.Parent().Blocks {
			for _, pi := range pb.Instrs {
				if d, ok := pi.(*ssa.Defer); ok {
					if mc, ok := d.Common().Value.(*ssa.MakeClosure); ok && mc.Fn == ssa.Value(fn) {
						isCleanup = true
					}
				}
			}
		}
		recovers := false
		for _, b := range fn.Blocks {
			for _, in := range b.Instrs {
				if call, ok := in.(*ssa.Call); ok {
					if bi, ok := call.Common().Value.(*ssa.Builtin); ok && bi.Name() == "recover" {
						recovers = true
					}
				}
			}
		}
		if !isCleanup || !recovers {
			continue
		}
		an, _ := analyse(c, fn)
		for _, o := range an.obligs {
			if !o.ok && o.fn != fn {
				r.instance("R16.5", 1)
				r.fail("R16.5", fnID(fn), "the recovery path can itself panic ("+o.desc+" in "+o.chain+"): the second panic is not recovered and terminates the process", c.pos(o.pos), o.facts, "panic-in-recovery:"+o.kind)
			}
		}
	}
	// the recover path must not itself panic: unchecked type assertions in deferred closures
	for _, fn := range c.allFuncs("server") {
		if fn.Parent() == nil {
			continue
		}
		for _, b := range fn.Blocks {
			for _, in := range b.Instrs {
				if ta, ok := in.(*ssa.TypeAssert); ok && !ta.CommaOk {
					// inside a deferred cleanup closure?
					isCleanup := false
					for _, pb := range fn.Parent().Blocks {
						for _, pi := range pb.Instrs {
							if d, ok := pi.(*ssa.Defer); ok {
								if mc, ok := d.Common().Value.(*ssa.MakeClosure); ok && mc.Fn == fn {
									isCleanup = true
								}
							}
						}
					}
					if isCleanup {
						r.instance("R16.5", 1)
						r.fail("R16.5", fnID(fn), "unchecked type assertion inside a deferred cleanup: a panic there escapes the recover", c.pos(ta.Pos()), "", "assert-in-cleanup")
					}
				}
			}
		}
	}
}

// globalBase reports whether the address is (derived from) a package-level variable: the
// variable itself, a field/element of it, or memory reached through a pointer loaded from it.
func globalBase(v ssa.Value, depth int, seen map[ssa.Value]bool) *ssa.Global {
	if v == nil || depth > 12 || seen[v] {
		return nil
	}
	seen[v] = true
	switch x := v.(type) {
	case *ssa.Global:
		return x
	case *ssa.FieldAddr:
		return globalBase(x.X, depth+1, seen)
	case *ssa.IndexAddr:
		return globalBase(x.X, depth+1, seen)
	case *ssa.UnOp:
		if x.Op == token.MUL {
			return globalBase(x.X, depth+1, seen)
		}
	case *ssa.Slice:
		return globalBase(x.X, depth+1, seen)
	case *ssa.ChangeType:
		return globalBase(x.X, depth+1, seen)
	case *ssa.Phi:
		for _, e := range x.Edges {
			if g := globalBase(e, depth+1, seen); g != nil {
				return g
			}
		}
	}
	return nil
}

// c16SharedState: R16.6 — the reply to one request is a function of that request only: nothing
// reachable from the per-connection path (connection handler, assembler, classifier,
// dispatcher, reply encoders) writes package-level state, directly or through a pointer loaded
// from a package-level variable (a shared error value patched per request is visible to every
// other connection).
// c16WriteFailure: R16.9 — a reply whose write failed may have reached the client in part; the
// connection must not be used for further replies (the next reply would follow the torn prefix
// and the client could no longer frame either). Decided on the connection loop's CFG: from the
// branch taken when the reply Write returned an error, the transport Read is not reachable.
func c16WriteFailure(c *Ctx, r *Report) {
	h := c.fnMust("server", "*connection.handle")
	id := fnID(h)
	r.instance("R16.9", 1)
	var write, read *ssa.Call
	for _, b := range h.Blocks {
		for _, in := range b.Instrs {
			if call, ok := in.(*ssa.Call); ok && call.Common().IsInvoke() && len(call.Common().Args) == 1 {
				switch call.Common().Method.Name() {
				case "Write":
					write = call
				case "Read":
					read = call
				}
			}
		}
	}
	if write == nil || read == nil {
		r.undecided("R16.9", id, "connection loop lacks the transport Read / reply Write calls", c.pos(h.Pos()))
		return
	}
	var werr ssa.Value
	if refs := write.Referrers(); refs != nil {
		for _, rf := range *refs {
			if e, ok := rf.(*ssa.Extract); ok && e.Index == 1 {
				werr = e
			}
		}
	}
	okEnds, found := true, false
	for _, b := range h.Blocks {
		iff, ok := b.Instrs[len(b.Instrs)-1].(*ssa.If)
		if !ok {
			continue
		}
		cmp, ok := iff.Cond.(*ssa.BinOp)
		if !ok || (cmp.X != werr && cmp.Y != werr) || werr == nil {
			continue
		}
		failed := b.Succs[0] // err != nil
		if cmp.Op == token.EQL {
			failed = b.Succs[1]
		}
		found = true
		if failed == read.Block() || blockReaches(failed, read.Block()) {
			okEnds = false
		}
	}
	if !found {
		r.fail("R16.9", id, "the error of the reply Write is not tested", c.pos(write.Pos()), "", "write-error-ignored")
		return
	}
	if okEnds {
		r.ok("R16.9", id, "after a failed reply write the connection loop ends (no further reply can follow a possibly torn one)", c.pos(write.Pos()), true)
	} else {
		r.fail("R16.9", id, "after a failed reply write the connection loop can go on reading and replying: the next reply would follow a possibly torn one", c.pos(write.Pos()), "", "continues-after-write-error")
	}
}

func c16SharedState(c *Ctx, r *Report) {
	var roots []*ssa.Function
	for _, fn := range c.allFuncs("server") {
		if fn.Signature.Recv() != nil && fn.Parent() == nil && (fn.Name() == "handle" || fn.Name() == "ReceiveRead") {
			roots = append(roots, fn)
		}
	}
	roots = append(roots, c.fnMust("packet", "LooksLikeModbusTCP"), c.fnMust("packet", "ParseTCPRequest"))
	sharedStateRule(c, r, "R16.6", "server.(*connection).handle", "the per-connection path", roots)
}
