package main

// C04 — typed register access (DESIGN §3 C04).

import (
	"fmt"
	"go/token"
	"go/types"
	"sort"
	"strings"

	"golang.org/x/tools/go/ssa"
)

func init() {
	register("C04", checkC04, "Every method of packet.Registers is abstractly interpreted under the struct invariant that its only constructor NewRegisters establishes (the constructor's success state and field values are the entry state and receiver of the method analysis; fields with other writers are taken as arbitrary; an unexported getter with extra plain-integer parameters is analysed once per distinct tuple of constants its call sites pass). R4.1: every index/slice of the payload reachable from an accessor is proven in bounds against len for all addresses, window positions and string lengths, with rule W on narrow-typed address arithmetic. R4.4: on every success return of a raw getter the facts entail start <= address and address+W <= start+count over the integers, and every error return is infeasible for an in-window access. R4.2: the bytes returned are payload[2*(address-start)+pi(j)] with pi the identity or the word reversal exactly on the LowWordFirst branch. R4.3: each typed accessor calls the getter of its width, decodes with the byte order its flag selects and WithByteOrder variants fall back to the default order iff the argument is 0. R4.8 a float obtained from math.Float32frombits/Float64frombits reaches the caller without a conversion through a float type of another width (such a detour quiets signalling NaNs); other numerical identity of decoded floats is not decided. R4.5 no access path, including Field.ExtractFrom, writes payload-derived memory or keeps decoder state (C13 effect analysis). R4.6 every AsRegisters hands (payload field, request start address) to NewRegisters unchanged. R4.5 is also rooted at the builder's extraction loop (the configuration setter must not be called on the shared Registers while fields are extracted). R4.7 the sub-register accessors (bit/byte results, no order parameter) reach nothing that reads the ByteOrder field of Registers.")
}

// ctorInstance analyses constructor ctor with symbolic parameters and returns the value of
// the object it returns on its success path together with the success state.
func ctorInstance(an *Analysis, ctor *ssa.Function) (recv AV, st DNF, fr *Frame, ok bool) {
	fr = an.newFrame(ctor, nil, nil)
	fr.run(dnfTrue())
	nres := ctor.Signature.Results().Len()
	var hit *ReturnSite
	n := 0
	for i := range fr.returns {
		rs := &fr.returns[i]
		if nres >= 2 {
			nf := fr.nilness(rs.vals[nres-1])
			if !(nf.kind == fConst && nf.b) {
				continue
			}
		}
		hit = rs
		n++
	}
	if n != 1 {
		return nil, nil, fr, false
	}
	p, isPtr := hit.vals[0].(APtr)
	if !isPtr || p.obj == nil {
		return nil, nil, fr, false
	}
	recv = fr.loadPath(p.obj, "", p.obj.typ, hit.instr)
	return recv, hit.state, fr, true
}

// fieldsWrittenOutside returns the indices of fields of named struct T that are stored to
// by any function of the package other than `except`.
func fieldsWrittenOutside(c *Ctx, pkgRel string, tn *types.Named, except *ssa.Function) map[int]string {
	out := map[int]string{}
	for _, fn := range c.allFuncs(pkgRel) {
		if fn == except {
			continue
		}
		for _, b := range fn.Blocks {
			for _, in := range b.Instrs {
				fa, ok := in.(*ssa.FieldAddr)
				if !ok {
					continue
				}
				if !types.Identical(deref(fa.X.Type()), tn) {
					continue
				}
				// a store through a local spill copy of a value receiver does not write the original
				if al, isAlloc := fa.X.(*ssa.Alloc); isAlloc && !al.Heap {
					continue
				}
				if refs := fa.Referrers(); refs != nil {
					for _, r := range *refs {
						if st, ok := r.(*ssa.Store); ok && st.Addr == fa {
							out[fa.Field] = fnID(fn)
						}
					}
				}
			}
		}
	}
	return out
}

func methodsOf(c *Ctx, pkgRel, typeName string) []*ssa.Function {
	sp := c.pkg(pkgRel)
	m := sp.Type(typeName)
	if m == nil {
		fatal("unresolved anchor: type %s.%s", pkgRel, typeName)
	}
	var out []*ssa.Function
	seen := map[*ssa.Function]bool{}
	for _, t := range []types.Type{m.Type(), types.NewPointer(m.Type())} {
		ms := c.prog.MethodSets.MethodSet(t)
		for i := 0; i < ms.Len(); i++ {
			fn := c.prog.MethodValue(ms.At(i))
			if fn == nil || fn.Synthetic != "" || fn.Blocks == nil || seen[fn] {
				continue
			}
			seen[fn] = true
			out = append(out, fn)
		}
	}
	// unexported methods are in the method set too (same package); sort
	sort.Slice(out, func(i, j int) bool { return out[i].Name() < out[j].Name() })
	return out
}

type c04Result struct {
	fired map[string]bool
}

func runC04On(c *Ctx, r *Report, pkgRel, typeName, ctorName string, control bool) map[string]bool {
	fired := map[string]bool{}
	sp := c.pkg(pkgRel)
	tn := sp.Type(typeName).Type().(*types.Named)
	st := tn.Underlying().(*types.Struct)
	ctor := c.fnMust(pkgRel, ctorName)
	mutable := fieldsWrittenOutside(c, pkgRel, tn, ctor)
	// field roles are found by type/shape, not by name: the payload is the []byte field
	payloadIdx := -1
	for i := 0; i < st.NumFields(); i++ {
		if sl, ok := st.Field(i).Type().Underlying().(*types.Slice); ok {
			if b, ok := sl.Elem().Underlying().(*types.Basic); ok && b.Kind() == types.Uint8 {
				payloadIdx = i
			}
		}
	}
	if payloadIdx < 0 {
		fatal("unresolved anchor: %s has no []byte payload field", typeName)
	}
	if _, mut := mutable[payloadIdx]; mut && !control {
		r.fail("R4.1", pkgRel+"."+typeName, "payload field has writers outside the constructor; constructor invariant unusable", "-", "writer: "+mutable[payloadIdx], "payload-mutable")
	}

	for _, m := range methodsOf(c, pkgRel, typeName) {
		recvT := m.Signature.Recv().Type()
		if _, isPtr := recvT.Underlying().(*types.Pointer); isPtr && storesThroughParam(m, 0) {
			continue // setters (WithByteOrder) are not accessors
		}
		// an unexported helper that is not itself a raw getter (e.g. a shared bounds/index
		// computation) is examined in the frames of the methods that call it, under their
		// arguments, not stand-alone under arbitrary ones
		if m.Object() != nil && !m.Object().Exported() && !isRawGetter(m) && calledOnlyByMethodsOf(c, m, tn) {
			continue
		}
		for _, extra := range getterSpecialisations(c, m, tn) {
			c04Method(c, r, pkgRel, m, ctor, tn, st, mutable, payloadIdx, control, fired, extra)
		}
	}
	return fired
}

// getterSpecialisations: an unexported getter whose extra plain-int parameters (other than
// its uint16 address and its ByteOrder) receive only constants at its call sites — all of
// them static calls from methods of the same type — is analysed once per distinct constant
// tuple instead of under arbitrary values it never receives. Anything else: one analysis
// with every parameter symbolic.
func getterSpecialisations(c *Ctx, m *ssa.Function, tn *types.Named) [][]AV {
	generic := [][]AV{nil}
	if m.Object() == nil || m.Object().Exported() || !calledOnlyByMethodsOf(c, m, tn) {
		return generic
	}
	var idx []int
	for i, p := range m.Params {
		if i == 0 {
			continue
		}
		b, ok := p.Type().(*types.Basic) // unnamed basic type only (ByteOrder etc. are named)
		if ok && b.Info()&types.IsInteger != 0 && b.Kind() != types.Uint16 {
			idx = append(idx, i)
		}
	}
	if len(idx) == 0 {
		return generic
	}
	seen := map[string]bool{}
	var out [][]AV
	for _, e := range c.callGraph().Nodes[m].In {
		if e.Caller.Func.Synthetic != "" && len(e.Caller.In) == 0 {
			continue // the never-called pointer-receiver wrapper of a value method
		}
		args := e.Site.Common().Args
		vec := make([]AV, len(m.Params))
		key := ""
		for _, i := range idx {
			k, ok := args[i].(*ssa.Const)
			if !ok || k.Value == nil {
				return generic
			}
			vec[i] = AInt{a: affConst(k.Int64())}
			key += fmt.Sprintf("%d,", k.Int64())
		}
		if !seen[key] {
			seen[key] = true
			out = append(out, vec)
		}
	}
	if len(out) == 0 {
		return generic
	}
	sort.Slice(out, func(i, j int) bool { return fmt.Sprint(out[i]) < fmt.Sprint(out[j]) })
	return out
}

func c04Method(c *Ctx, r *Report, pkgRel string, m, ctor *ssa.Function, tn *types.Named, st *types.Struct, mutable map[int]string, payloadIdx int, control bool, fired map[string]bool, extra []AV) {
	{
		an := &Analysis{ctx: c, u: newUniverse(), top: m}
		recv, cst, cfr, ok := ctorInstance(an, ctor)
		if !ok {
			if !control {
				r.undecided("R4.1", fnID(ctor), "constructor does not have a unique success return with an allocated object", c.pos(ctor.Pos()))
			}
			return
		}
		lit, isLit := recv.(AStructLit)
		if !isLit {
			if !control {
				r.undecided("R4.1", fnID(ctor), "constructor result is not a struct literal", c.pos(ctor.Pos()))
			}
			return
		}
		fs := append([]AV(nil), lit.fields...)
		for i := range fs {
			if _, mut := mutable[i]; mut {
				fs[i] = an.u.symbolic("r."+st.Field(i).Name(), st.Field(i).Type())
			}
		}
		recvV := AStructLit{typ: tn, fields: fs}
		// collect numeric identities of the window: start, payload
		an.obligs = nil
		an.wraps = nil
		var calls []c04Call
		an.onCall = func(f *Frame, ci ssa.CallInstruction, callee *ssa.Function, args []AV) {
			calls = append(calls, c04Call{f: f, instr: ci, callee: callee, args: args, state: f.cur, pos: ci.Pos()})
		}
		args := append([]AV(nil), extra...)
		if len(args) == 0 {
			args = []AV{nil}
		}
		args[0] = recvV
		if _, isPtr := m.Signature.Recv().Type().Underlying().(*types.Pointer); isPtr {
			// a read-only method with a pointer receiver: the receiver points to such a value
			ro := &Obj{key: "recv", typ: tn, stores: map[string][]storeRec{"": {{val: recvV}}}}
			args[0] = APtr{obj: ro, typ: tn}
		}
		fr := an.newFrame(m, nil, args)
		fr.run(cst)
		id := fnID(m)
		if !control {
			r.funcs[id] = true
			r.instance("R4.1", 1)
		}
		seen := map[string]bool{}
		for _, o := range failFirst(an.obligs) {
			what := fmt.Sprintf("%s in %s", o.desc, o.chain)
			k := what + c.pos(o.pos)
			if seen[k] {
				continue
			}
			seen[k] = true
			if control {
				if !o.ok {
					fired[m.Name()+":"+o.kind] = true
				}
				continue
			}
			if o.ok {
				r.add(Item{Rule: "R4.1", Construct: id, What: what, Pos: c.pos(o.pos), OK: true, Nontrivial: true})
			} else {
				r.add(Item{Rule: "R4.1", Construct: id, What: what + " — cannot prove " + o.goal, Pos: c.pos(o.pos), OK: false,
					Detail: "facts: " + o.facts, Signature: o.kind + ":" + c.exprAt(o.pos, o.fn), Nontrivial: true})
			}
		}
		for _, w := range an.wraps {
			if control {
				fired[m.Name()+":wrap"] = true
				continue
			}
			r.add(Item{Rule: "R4.W", Construct: id, What: fmt.Sprintf("narrow-typed arithmetic %s may wrap where it is used (%s)", w.what, w.use), Pos: w.pos,
				OK: false, Signature: "wrap:" + w.what, Nontrivial: true})
		}
		if !control {
			r.instance("R4.W", 1)
		}
		// raw getters: ([]byte, error) results, unexported or exported
		if isRawGetter(m) {
			c04Getter(c, r, an, fr, cfr, m, payloadIdx, fs, control, fired)
		} else if !control {
			c04Accessor(c, r, an, fr, m, calls, fs, st)
		}
	}
}

type c04Call struct {
	f      *Frame
	instr  ssa.CallInstruction
	callee *ssa.Function
	args   []AV
	state  DNF
	pos    token.Pos
}

func isRawGetter(m *ssa.Function) bool {
	res := m.Signature.Results()
	if res.Len() != 2 || !isErrorType(res.At(1).Type()) {
		return false
	}
	sl, ok := res.At(0).Type().Underlying().(*types.Slice)
	if !ok {
		return false
	}
	b, ok := sl.Elem().Underlying().(*types.Basic)
	return ok && b.Kind() == types.Uint8 && m.Signature.Params().Len() >= 1 && !m.Object().Exported()
}

// c04Getter checks R4.4 and R4.2 on a raw getter analysed under the constructor invariant.
func c04Getter(c *Ctx, r *Report, an *Analysis, fr, cfr *Frame, m *ssa.Function, payloadIdx int, fs []AV, control bool, fired map[string]bool) {
	id := fnID(m)
	payload, ok := fs[payloadIdx].(ASlice)
	if !ok {
		return
	}
	// window start = constructor's uint16 parameter; address = first uint16 parameter of the getter
	var start, addr Aff
	haveStart := false
	for _, p := range cfr.fn.Params {
		if b, ok := p.Type().Underlying().(*types.Basic); ok && b.Kind() == types.Uint16 {
			if ai, ok := cfr.vals[p].(AInt); ok {
				start, haveStart = ai.a, true
			}
		}
	}
	if ai, ok := fr.vals[m.Params[1]].(AInt); ok {
		addr = ai.a
	} else {
		return
	}
	if !haveStart {
		if !control {
			r.undecided("R4.4", id, "constructor has no uint16 start-address parameter", c.pos(m.Pos()))
		}
		return
	}
	count := affSym(fr.divSym(payload.ln, 2)) // registers in the window
	var order *Aff
	if len(m.Params) >= 3 {
		if ai, ok := fr.vals[m.Params[2]].(AInt); ok {
			order = &ai.a
		}
	}
	if !control {
		r.instance("R4.4", 1)
		r.instance("R4.2", 1)
	}
	for _, rs := range fr.returns {
		pos := c.pos(rs.instr.Pos())
		errNil := fr.nilness(rs.vals[1])
		if errNil.kind == fConst && errNil.b {
			// success: result length L, W = L/2
			res, ok := rs.vals[0].(ASlice)
			if !ok || !res.ln.isConst() || res.ln.c%2 != 0 || res.ln.c == 0 {
				if !control {
					r.undecided("R4.4", id, "success return with a result of non-constant length", pos)
				}
				continue
			}
			w := res.ln.c / 2
			goalLo := atomGE(addr, start)
			goalHi := atomLE(addr.addc(w), start.add(count))
			okLo, okHi := rs.state.entails(goalLo), rs.state.entails(goalHi)
			if control {
				if !okLo || !okHi {
					fired[m.Name()+":window"] = true
				}
			} else {
				if okLo && okHi {
					r.ok("R4.4", id, fmt.Sprintf("success return of %d register(s): start <= address and address+%d <= start+count hold in Z", w, w), pos, true)
				} else {
					r.fail("R4.4", id, fmt.Sprintf("success return of %d register(s) is reachable for an address outside the window", w), pos,
						"state: "+truncate(rs.state.String(), 500), fmt.Sprintf("window:W=%d lo=%v hi=%v", w, okLo, okHi))
				}
			}
			// R4.2 layout of returned bytes
			base := addr.sub(start).scale(2)
			if res.root == payload.root {
				okOff := rs.state.entails(atomEQ(res.off, payload.off.add(base)))
				straight := true
				if order != nil {
					bit := fr.modAff(affSym(fr.divSym(*order, 4)), 2)
					straight = rs.state.entails(atomEQ(bit, affConst(0)))
				}
				if control {
					if !okOff || !straight {
						fired[m.Name()+":layout"] = true
					}
				} else if okOff && straight {
					r.ok("R4.2", id, fmt.Sprintf("returns payload[2*(address-start) : +%d] on the high-word-first branch", res.ln.c), pos, true)
				} else {
					r.fail("R4.2", id, "straight sub-slice is not payload[2*(address-start):...] or is returned although the LowWordFirst flag may be set", pos,
						fmt.Sprintf("off=%s want=%s flagclear=%v", res.off.String(), base.String(), straight), "layout:straight")
				}
			} else if res.root.fresh {
				// byte j must be payload[base + pi(j)], pi = word reversal
				okAll := true
				detail := ""
				n := res.ln.c
				for j := int64(0); j < n; j++ {
					wj := (n/2 - 1 - j/2) * 2 // reversed word index * 2
					want := base.addc(wj + j%2)
					var got *Aff
					cnt := 0
					for _, wr := range res.root.writes {
						if wr.kind == wByte && wr.off.isConst() && wr.off.c == j {
							cnt++
							if ai, ok := wr.val.(AInt); ok && len(ai.a.terms) == 1 && ai.a.terms[0].k == 1 {
								key := ai.a.terms[0].s.key
								pre := payload.root.key + "["
								if strings.HasPrefix(key, pre) {
									// recover the offset by matching against the expected symbol
									exp := fmt.Sprintf("%s[%s]", payload.root.key, payload.off.add(want).String())
									if key == exp {
										g := want
										got = &g
									} else {
										detail += fmt.Sprintf(" byte %d reads %s, want %s;", j, key, exp)
									}
								}
							}
						}
					}
					if cnt != 1 || got == nil {
						okAll = false
					}
				}
				flagSet := true
				if order != nil {
					bit := fr.modAff(affSym(fr.divSym(*order, 4)), 2)
					flagSet = rs.state.entails(atomEQ(bit, affConst(1)))
				} else {
					flagSet = false
				}
				if control {
					if !okAll || !flagSet {
						fired[m.Name()+":layout"] = true
					}
				} else if okAll && flagSet {
					r.ok("R4.2", id, fmt.Sprintf("returns the %d registers word-reversed exactly on the LowWordFirst branch", n/2), pos, true)
				} else {
					r.fail("R4.2", id, "word-reversed copy does not read payload[2*(address-start)+pi(j)] or is not tied to the LowWordFirst flag", pos,
						detail+fmt.Sprintf(" flagset=%v", flagSet), "layout:reversed")
				}
			} else if !control {
				r.undecided("R4.2", id, "result slice is neither a payload sub-slice nor a fresh array", pos)
			}
		} else {
			// error return must be infeasible for an in-window access of every width this getter serves
			widths := map[int64]bool{}
			for _, r2 := range fr.returns {
				if s, ok := r2.vals[0].(ASlice); ok && s.ln.isConst() && s.ln.c > 0 {
					widths[s.ln.c/2] = true
				}
			}
			for w := range widths {
				in := dnfAnd(rs.state, DNF{Conj{atomGE(addr, start), atomLE(addr.addc(w), start.add(count))}})
				feas := false
				for _, cj := range in {
					if !infeasible(cj) {
						feas = true
					}
				}
				if control {
					if feas {
						fired[m.Name()+":spurious-error"] = true
					}
				} else if !feas {
					r.ok("R4.4", id, fmt.Sprintf("error return is unreachable for an in-window access of %d register(s)", w), pos, true)
				} else {
					r.fail("R4.4", id, fmt.Sprintf("error return is reachable for an in-window access of %d register(s)", w), pos,
						"state: "+truncate(rs.state.String(), 400), fmt.Sprintf("spurious-error:W=%d", w))
				}
			}
		}
	}
}

func resultBytes(t types.Type) int64 {
	b, ok := t.Underlying().(*types.Basic)
	if !ok {
		return 0
	}
	switch b.Kind() {
	case types.Uint8, types.Int8, types.Bool:
		return 1
	case types.Uint16, types.Int16:
		return 2
	case types.Uint32, types.Int32, types.Float32:
		return 4
	case types.Uint64, types.Int64, types.Float64:
		return 8
	}
	return 0
}

// c04Accessor checks R4.3 for a typed accessor: getter width, endianness selection and
// default-order substitution.
func c04Accessor(c *Ctx, r *Report, an *Analysis, fr *Frame, m *ssa.Function, calls []c04Call, fs []AV, st *types.Struct) {
	id := fnID(m)
	res := m.Signature.Results()
	if res.Len() != 2 || !isErrorType(res.At(1).Type()) {
		return
	}
	want := resultBytes(res.At(0).Type())
	if want < 2 {
		return // bit/byte/string accessors: covered by R4.1 and the getter rules
	}
	// default order = the ByteOrder-typed field of the receiver
	var defOrder *Aff
	for i := 0; i < st.NumFields(); i++ {
		if ai, ok := fs[i].(AInt); ok && st.Field(i).Type().String() == res.At(0).Type().String() {
			_ = ai
		}
		if named, ok := st.Field(i).Type().(*types.Named); ok && named.Obj().Name() == "ByteOrder" {
			if ai, ok := fs[i].(AInt); ok {
				defOrder = &ai.a
			}
		}
	}
	var orderParam *Aff
	for _, p := range m.Params[1:] {
		if named, ok := p.Type().(*types.Named); ok && named.Obj().Name() == "ByteOrder" {
			if ai, ok := fr.vals[p].(AInt); ok {
				orderParam = &ai.a
			}
		}
	}
	if defOrder == nil {
		r.undecided("R4.3", id, "receiver has no ByteOrder field", c.pos(m.Pos()))
		return
	}
	r.instance("R4.3", 1)
	// every success return hands out a value computed from the bytes: a feasible return with a nil
	// error and a constant result (a switch over the order constants without a default, a missing
	// else) answers 0 for wire bytes it never looked at
	for _, rs := range fr.returns {
		if len(rs.state) == 0 || len(rs.vals) != 2 {
			continue
		}
		nf := fr.nilness(rs.vals[1])
		if !(nf.kind == fConst && nf.b) {
			continue
		}
		constant := false
		switch v := rs.vals[0].(type) {
		case AInt:
			constant = len(v.a.terms) == 0 && len(v.conds) == 0 && v.fallback == nil
		case AFloat:
			constant = len(v.num.a.terms) == 0 && len(v.num.conds) == 0 && v.num.fallback == nil
		}
		if constant {
			r.fail("R4.3", id, "a success return hands out a constant instead of a value decoded from the addressed registers", c.pos(rs.instr.Pos()), truncate(rs.state.String(), 200), "constant-success")
		}
	}
	// the same through a merge: the result of a success return is a phi one of whose inputs is a
	// constant (the variable's zero value survives on a path where no case decoded anything)
	for _, b := range m.Blocks {
		if len(b.Instrs) == 0 {
			continue
		}
		ret, ok := b.Instrs[len(b.Instrs)-1].(*ssa.Return)
		if !ok || len(ret.Results) != 2 {
			continue
		}
		if k, isK := ret.Results[1].(*ssa.Const); !isK || !k.IsNil() {
			continue
		}
		v := ret.Results[0]
		for {
			if cv, ok := v.(*ssa.Convert); ok {
				v = cv.X
				continue
			}
			if ct, ok := v.(*ssa.ChangeType); ok {
				v = ct.X
				continue
			}
			break
		}
		seenPhi := map[*ssa.Phi]bool{}
		var constEdge func(v ssa.Value) bool
		constEdge = func(v ssa.Value) bool {
			ph, ok := v.(*ssa.Phi)
			if !ok || seenPhi[ph] {
				return false
			}
			seenPhi[ph] = true
			if blockReaches(ph.Block(), ph.Block()) {
				return false // an accumulator of a composing loop starts from its constant
			}
			for i, e := range ph.Edges {
				if _, isK := e.(*ssa.Const); isK && len(fr.blockIn[ph.Block().Preds[i].Index]) > 0 {
					return true
				}
				if constEdge(e) {
					return true
				}
			}
			return false
		}
		if constEdge(v) {
			r.fail("R4.3", id, "on some path the value of a success return is a constant, not a value decoded from the addressed registers (no case of the order selection applied)", c.pos(ret.Pos()), "", "constant-success")
		}
	}
	nGetter, nDecode := 0, 0
	var usedOrder *Aff
	// an accessor whose getter takes no order (one register) may still select the order itself:
	// a value of type ByteOrder in the function that equals the argument, or the default iff the
	// argument is 0, is the order in force
	if orderParam != nil {
		for _, b := range m.Blocks {
			for _, in := range b.Instrs {
				ph, ok := in.(*ssa.Phi)
				if !ok {
					break
				}
				if named, ok := ph.Type().(*types.Named); !ok || named.Obj().Name() != "ByteOrder" {
					continue
				}
				if ai, ok := fr.vals[ph].(AInt); ok {
					st := fr.blockIn[b.Index]
					s0 := dnfAnd(st, DNF{Conj{atomEQ(*orderParam, affConst(0))}})
					s1 := dnfAnd(st, DNF{Conj{atomNE(*orderParam, affConst(0))}})
					// the phi's binding is in the states of the blocks it dominates; test there
					for _, b2 := range m.Blocks {
						if b != b2 && b.Dominates(b2) && len(fr.blockIn[b2.Index]) > 0 {
							s0 = dnfAnd(fr.blockIn[b2.Index], DNF{Conj{atomEQ(*orderParam, affConst(0))}})
							s1 = dnfAnd(fr.blockIn[b2.Index], DNF{Conj{atomNE(*orderParam, affConst(0))}})
							break
						}
					}
					if s0.entails(atomEQ(ai.a, *defOrder)) && s1.entails(atomEQ(ai.a, *orderParam)) {
						o := ai.a
						usedOrder = &o
					}
				}
			}
		}
	}
	// delegation to another accessor of the same type and width (e.g. the signed variant converting
	// the unsigned one): the delegate is examined on its own
	var delegate *c04Call
	for i := range calls {
		cl := &calls[i]
		if cl.f != fr || cl.callee == nil || cl.callee == m || isRawGetter(cl.callee) || cl.callee.Signature.Recv() == nil {
			continue
		}
		if !types.Identical(deref(cl.callee.Signature.Recv().Type()), deref(m.Signature.Recv().Type())) {
			continue
		}
		cres := cl.callee.Signature.Results()
		if cres.Len() == 2 && isErrorType(cres.At(1).Type()) && resultBytes(cres.At(0).Type()) == want {
			delegate = cl
		}
	}
	for _, cl := range calls {
		if cl.f != fr {
			continue
		}
		pos := c.pos(cl.pos)
		name := funcFullName(cl.callee)
		if isRawGetter(cl.callee) && c.inModule(cl.callee) {
			nGetter++
			// width: result length on the getter's success path
			if ch, ok := fr.childOf(cl.callee); ok {
				for _, rs := range ch.returns {
					if s, ok := rs.vals[0].(ASlice); ok && s.ln.isConst() && s.ln.c > 0 {
						if s.ln.c != want {
							r.fail("R4.3", id, fmt.Sprintf("accessor of %d bytes reads %d bytes through %s", want, s.ln.c, cl.callee.Name()), pos, "", fmt.Sprintf("width:%d!=%d", s.ln.c, want))
						} else {
							r.ok("R4.3", id, fmt.Sprintf("getter %s delivers %d bytes = size of result type", cl.callee.Name(), want), pos, true)
						}
					}
				}
			}
			// the getter's order argument is the one of type ByteOrder (not simply the third)
			ordIdx := -1
			for k, p := range cl.callee.Params {
				if named, ok := p.Type().(*types.Named); ok && named.Obj().Name() == "ByteOrder" {
					ordIdx = k
				}
			}
			if ordIdx >= 0 && ordIdx < len(cl.args) {
				if ai, ok := cl.args[ordIdx].(AInt); ok {
					o := ai.a
					usedOrder = &o
					// order in force: parameter if non-zero else default
					if orderParam != nil {
						s0 := dnfAnd(cl.state, DNF{Conj{atomEQ(*orderParam, affConst(0))}})
						s1 := dnfAnd(cl.state, DNF{Conj{atomNE(*orderParam, affConst(0))}})
						if s0.entails(atomEQ(o, *defOrder)) && s1.entails(atomEQ(o, *orderParam)) {
							r.ok("R4.3", id, "order in force is the argument, or the default order iff the argument is 0", pos, true)
						} else {
							r.fail("R4.3", id, "order passed to the getter is not (argument, or default iff argument is 0)", pos, "order="+o.String(), "order-substitution")
						}
					} else if cl.state.entails(atomEQ(o, *defOrder)) {
						r.ok("R4.3", id, "order in force is the receiver's default order", pos, true)
					} else {
						r.fail("R4.3", id, "order passed to the getter is not the receiver's default order", pos, "order="+o.String(), "order-default")
					}
				}
			}
			continue
		}
		var little bool
		var n int64
		switch {
		case strings.HasPrefix(name, "(encoding/binary.littleEndian).Uint"):
			little = true
			fmt.Sscanf(strings.TrimPrefix(name, "(encoding/binary.littleEndian).Uint"), "%d", &n)
		case strings.HasPrefix(name, "(encoding/binary.bigEndian).Uint"):
			fmt.Sscanf(strings.TrimPrefix(name, "(encoding/binary.bigEndian).Uint"), "%d", &n)
		default:
			continue
		}
		nDecode++
		if n/8 != want {
			r.fail("R4.3", id, fmt.Sprintf("decodes %d bits for a result of %d bytes", n, want), pos, "", fmt.Sprintf("decode-width:%d", n))
			continue
		}
		ord := usedOrder
		if ord == nil {
			ord = defOrder
		}
		bit := fr.modAff(affSym(fr.divSym(*ord, 2)), 2) // LittleEndian flag = 2
		wantBit := int64(0)
		if little {
			wantBit = 1
		}
		tied := cl.state.entails(atomEQ(bit, affConst(wantBit)))
		if !tied {
			// `u := BigEndian(b); if little { u = LittleEndian(b) }`: the decode runs unconditionally
			// but its result is only used through phi edges taken under the matching flag value
			if v, isV := cl.instr.(ssa.Value); isV && v.Referrers() != nil {
				uses, okUses := 0, true
				for _, rf := range *v.Referrers() {
					switch u := rf.(type) {
					case *ssa.DebugRef:
					case *ssa.Phi:
						for k, e := range u.Edges {
							if e != v {
								continue
							}
							uses++
							st := fr.edge[[2]int{u.Block().Preds[k].Index, u.Block().Index}]
							if len(st) > 0 && !st.entails(atomEQ(bit, affConst(wantBit))) {
								okUses = false
							}
						}
					default:
						okUses = false
					}
				}
				tied = okUses && uses > 0
			}
		}
		if tied {
			r.ok("R4.3", id, fmt.Sprintf("the binary.%s decode is used exactly when the LittleEndian flag of the order in force is %d", map[bool]string{true: "LittleEndian", false: "BigEndian"}[little], wantBit), pos, true)
		} else {
			r.fail("R4.3", id, fmt.Sprintf("binary.%s decode is not tied to the LittleEndian flag of the order in force", map[bool]string{true: "LittleEndian", false: "BigEndian"}[little]), pos,
				"state: "+truncate(cl.state.String(), 300), fmt.Sprintf("endianness:little=%v", little))
		}
	}
	if nGetter == 0 && nDecode == 0 && delegate != nil {
		// arguments: the receiver's window, the address and (if both take one) the order, unchanged
		okArgs := len(delegate.args) >= 2 && describeAV(delegate.args[1]) == describeAV(fr.vals[m.Params[1]])
		if okArgs && len(delegate.args) >= 3 && len(m.Params) >= 3 {
			okArgs = describeAV(delegate.args[2]) == describeAV(fr.vals[m.Params[2]])
		}
		if okArgs {
			r.ok("R4.3", id, "delegates to "+delegate.callee.Name()+" (same width) with the address and order unchanged", c.pos(delegate.pos), true)
		} else {
			r.fail("R4.3", id, "delegates to "+delegate.callee.Name()+" with a changed address or order", c.pos(delegate.pos), describeAV(ATuple(delegate.args)), "delegate-args")
		}
		return
	}
	if nGetter == 1 && nDecode == 0 && want <= 4 {
		// hand-written composition of the bytes (shifts and ORs): decided on the value returned
		c04Composed(c, r, fr, m, calls, want, defOrder, usedOrder)
		return
	}
	if nGetter != 1 || nDecode != 2 {
		r.fail("R4.3", id, fmt.Sprintf("expected one getter call and a little/big decode pair, found %d getter call(s), %d decode call(s)", nGetter, nDecode), c.pos(m.Pos()), "", fmt.Sprintf("shape:%d/%d", nGetter, nDecode))
	}
}

// c04Composed: R4.3 for accessors that compose the value from the getter's bytes by hand. On
// every success return the unsigned integer behind the result equals the little-endian
// combination of the getter's bytes where the LittleEndian flag of the order in force is set and
// the big-endian combination where it is clear.
func c04Composed(c *Ctx, r *Report, fr *Frame, m *ssa.Function, calls []c04Call, want int64, defOrder, usedOrder *Aff) {
	id := fnID(m)
	var gcall ssa.Value
	for _, cl := range calls {
		if cl.f == fr && isRawGetter(cl.callee) && c.inModule(cl.callee) {
			gcall, _ = cl.instr.(ssa.Value)
		}
	}
	tup, ok := fr.val(gcall).(ATuple)
	if gcall == nil || !ok || len(tup) == 0 {
		r.undecided("R4.3", id, "getter result not found for a hand-composed accessor", c.pos(m.Pos()))
		return
	}
	gs, ok := tup[0].(ASlice)
	if !ok {
		r.undecided("R4.3", id, "getter result is not a byte slice", c.pos(m.Pos()))
		return
	}
	ord := usedOrder
	if ord == nil {
		ord = defOrder
	}
	bit := fr.modAff(affSym(fr.divSym(*ord, 2)), 2)
	okAll, n := true, 0
	detail := ""
	for _, rs := range fr.returns {
		if len(rs.state) == 0 {
			continue
		}
		if nf := fr.nilness(rs.vals[len(rs.vals)-1]); !(nf.kind == fConst && nf.b) {
			continue
		}
		// the unsigned integer behind the returned value
		v := rs.instr.Results[0]
		strip := func(v ssa.Value) ssa.Value {
			for {
				if cv, ok := v.(*ssa.Convert); ok {
					v = cv.X
					continue
				}
				return v
			}
		}
		v = strip(v)
		type site struct {
			fr *Frame
			v  ssa.Value
			st DNF
		}
		sites := []site{{fr, v, rs.state}}
		// ... which a decoding helper of the module may have produced (and converted) for us
		if call, isCall := v.(*ssa.Call); isCall {
			if ch := fr.child[call]; ch != nil && c.inModule(ch.fn) && len(ch.returns) > 0 && ch.fn.Signature.Results().Len() == 1 {
				sites = nil
				for _, crs := range ch.returns {
					if len(crs.state) > 0 {
						sites = append(sites, site{ch, strip(crs.instr.Results[0]), crs.state})
					}
				}
			}
		}
		for _, s := range sites {
			u, isI := s.fr.val(s.v).(AInt)
			if !isI {
				okAll = false
				detail = "returned value is not an integer composition"
				continue
			}
			for _, cj := range s.st {
				if infeasible(cj) {
					continue
				}
				n++
				gsc := canonicalSlice(cj, gs, 0)
				be := fr.frameBytes(gsc, affConst(0), int(want), true)
				le := fr.frameBytes(gsc, affConst(0), int(want), false)
				uu := fr.useIn(u, DNF{cj}, "composed value")
				switch {
				case cj.entails(atomEQ(bit, affConst(1))) && cj.entails(atomEQ(uu, le)):
				case cj.entails(atomEQ(bit, affConst(0))) && cj.entails(atomEQ(uu, be)):
				default:
					okAll = false
					detail = fmt.Sprintf("value %s is neither the little-endian combination under the flag nor the big-endian one without it", uu.String())
				}
			}
		}
	}
	if okAll && n > 0 {
		r.ok("R4.3", id, fmt.Sprintf("the %d bytes are composed little-endian exactly when the LittleEndian flag of the order in force is set, big-endian otherwise (decided on the returned value)", want), c.pos(m.Pos()), true)
	} else {
		r.fail("R4.3", id, "the hand-composed value does not follow the LittleEndian flag of the order in force", c.pos(m.Pos()), detail, "endianness:composed")
	}
}

func (f *Frame) childOf(callee *ssa.Function) (*Frame, bool) {
	for _, ch := range f.child {
		if ch.fn == callee {
			return ch, true
		}
	}
	return nil, false
}

func checkC04(c *Ctx, r *Report) {
	r.floor("R4.1", 26)
	r.floor("R4.2", 2)
	r.floor("R4.3", 14)
	r.floor("R4.4", 3)
	r.floor("R4.5", 26)
	runC04On(c, r, "packet", "Registers", "NewRegisters", false)
	// R4.5: accessors must not write the payload, otherwise a later access no longer returns
	// the wire bytes (the derived-pointer analysis of C13, rooted at the Registers methods)
	{
		var roots []*ssa.Function
		for _, m := range methodsOf(c, "packet", "Registers") {
			if _, isPtr := m.Signature.Recv().Type().Underlying().(*types.Pointer); !isPtr || !storesThroughParam(m, 0) {
				roots = append(roots, m)
			}
		}
		roots = append(roots, c.fnMust("", "*Field.ExtractFrom")) // the typed access path of the builder
		// ... and the loop that calls it for every field of a response: an order a field selects must
		// not become the default of the fields decoded after it
		roots = append(roots, c.fnMust("", "BuilderRequest.ExtractFields"), c.fnMust("", "BuilderRequest.extractRegisterFields"))
		t := runC13(c, roots, payloadFields(c, "packet"))
		r.instance("R4.5", len(roots))
		seen := map[string]bool{}
		for _, f := range t.findings {
			k := f.sig + fnID(f.fn)
			if seen[k] {
				continue
			}
			seen[k] = true
			r.fail("R4.5", fnID(f.fn), f.what+" (a later access would not be determined by the wire bytes and the selected order alone)", c.pos(f.pos), "", f.sig)
		}
		if len(seen) == 0 {
			r.ok("R4.5", "packet.Registers", fmt.Sprintf("none of the %d access paths (nor anything they call) writes through payload-derived memory or changes decoder state", len(roots)), "-", true)
		}
	}
	// R4.7: the sub-register accessors (results of one byte or one bit: Bit, Byte, Uint8, Int8) are
	// defined on the wire register, high byte first; they have no order parameter and must not
	// depend on the configured default order either: nothing reachable from them reads the
	// ByteOrder-typed field of Registers
	{
		sp := c.pkg("packet")
		tn := sp.Type("Registers").Type().(*types.Named)
		st := tn.Underlying().(*types.Struct)
		ordField := -1
		for i := 0; i < st.NumFields(); i++ {
			if n, ok := st.Field(i).Type().(*types.Named); ok && n.Obj().Name() == "ByteOrder" {
				ordField = i
			}
		}
		for _, m := range methodsOf(c, "packet", "Registers") {
			res := m.Signature.Results()
			if res.Len() != 2 || m.Object() == nil || !m.Object().Exported() {
				continue
			}
			b, ok := res.At(0).Type().Underlying().(*types.Basic)
			if !ok || !(b.Kind() == types.Bool || b.Kind() == types.Uint8 || b.Kind() == types.Int8) {
				continue
			}
			hasOrderParam := false
			for i := 0; i < m.Signature.Params().Len(); i++ {
				if n, ok := m.Signature.Params().At(i).Type().(*types.Named); ok && n.Obj().Name() == "ByteOrder" {
					hasOrderParam = true
				}
			}
			if hasOrderParam || ordField < 0 {
				continue
			}
			r.instance("R4.7", 1)
			id := fnID(m)
			bad := ""
			for _, fn := range reachableInModule(c, []*ssa.Function{m}) {
				for _, blk := range fn.Blocks {
					for _, in := range blk.Instrs {
						switch x := in.(type) {
						case *ssa.FieldAddr:
							if x.Field == ordField && types.Identical(deref(x.X.Type()), tn) {
								bad = c.pos(x.Pos())
							}
						case *ssa.Field:
							if x.Field == ordField && types.Identical(x.X.Type(), tn) {
								bad = c.pos(x.Pos())
							}
						}
					}
				}
			}
			if bad == "" {
				r.ok("R4.7", id, "the result is taken from the wire register and does not depend on the configured byte order (nothing reachable reads Registers."+st.Field(ordField).Name()+")", c.pos(m.Pos()), true)
			} else {
				r.fail("R4.7", id, "a sub-register accessor without an order parameter reads the configured byte order: the same wire bytes give different bits/bytes after WithByteOrder", bad, "", "order-dependent-subregister")
			}
		}
		r.floor("R4.7", 4)
	}
	// R4.6: the windows the accessors work on are the responses' whole payloads: every AsRegisters
	// hands (payload field, request start address) to NewRegisters unchanged (C05 R5.2 plumbing)
	{
		tmp := newReport(r.Prop, r.Tier)
		c05Plumbing(c, tmp)
		r.instance("R4.6", copyItems(tmp, r, "R5.2", "R4.6", "NewRegisters receives"))
		r.floor("R4.6", 3)
	}
	r.assumption("Registers values are only created by NewRegisters (its fields are unexported; checked: no other function of the package stores to startAddress/endAddress/data)")
	r.assumption("slice lengths are below 2^31; int is 64 bits wide")
	// R4.8: a decoded float is handed on without a detour through a float type of another width
	floatBitIdentity(c, r, "R4.8", c.allFuncs("packet", ""))
	r.floor("R4.8", 4)
	r.assumption("math.Float32frombits / math.Float64frombits are bit-exact (standard library); R4.8 decides only that no float-width conversion lies between them and the caller, other float arithmetic on decoded values is not looked for")
}

func init() {
	controls["C04"] = func(c *Ctx, r *Report) {
		fired := runC04On(c, r, "c04", "Regs", "NewRegs", true)
		r.controls["C04/R4.1-uint16-wrap-guard"] = fired["wrapGetter:slice"]
		r.controls["C04/R4.4-window"] = fired["wrapGetter:window"]
		r.controls["C04/R4.W-wrap"] = fired["wrapGetter:wrap"]
		r.controls["C04/R4.2-reversed-layout"] = fired["badLayout:layout"]
		r.controls["C04/R4.4-spurious-error"] = fired["spurious:spurious-error"]
		tmp := newReport(r.Prop, r.Tier)
		_, det := floatBitIdentity(c, tmp, "R4.8", c.allFuncs("c04"))
		r.controls["C04/R4.8-float-width-detour"] = det
	}
}

// calledOnlyByMethodsOf: m has at least one static caller and all callers are methods of tn.
func calledOnlyByMethodsOf(c *Ctx, m *ssa.Function, tn *types.Named) bool {
	node := c.callGraph().Nodes[m]
	if node == nil || len(node.In) == 0 {
		return false
	}
	for _, e := range node.In {
		cf := e.Caller.Func
		if cf.Signature.Recv() == nil || !types.Identical(deref(cf.Signature.Recv().Type()), tn) {
			return false
		}
		if call, ok := e.Site.(*ssa.Call); !ok || call.Common().StaticCallee() != m {
			return false
		}
	}
	return true
}

// storesThroughParam: the function stores to memory addressed through its idx-th parameter
// (a field or element of what it points to).
func storesThroughParam(fn *ssa.Function, idx int) bool {
	if idx >= len(fn.Params) {
		return false
	}
	var walk func(v ssa.Value, depth int) bool
	walk = func(v ssa.Value, depth int) bool {
		refs := v.Referrers()
		if refs == nil || depth > 6 {
			return false
		}
		for _, r := range *refs {
			switch x := r.(type) {
			case *ssa.Store:
				if x.Addr == v {
					return true
				}
			case *ssa.FieldAddr:
				if walk(x, depth+1) {
					return true
				}
			case *ssa.IndexAddr:
				if x.X == v && walk(x, depth+1) {
					return true
				}
			}
		}
		return false
	}
	return walk(fn.Params[idx], 0)
}
