package main

// Shared-state rule (used by several properties): a codec / request path whose result must be a
// function of its inputs alone, for every input and under concurrent use, may not write
// package-level state. Decided by an effect scan over every module function reachable from the
// given roots (VTA call graph): stores, map updates, copy/append/delete/clear whose destination
// is (derived from) a package-level variable, and calls that hand a reference derived from a
// package-level variable to other code. The latter has one frozen exemption, confirmed by
// reading the call sites of the pinned tree: values of interface type error (the sentinel
// errors handed to errors.Is and to the error callback) — error values are never written
// through by the library or the standard library.

import (
	"fmt"
	"go/token"
	"go/types"
	"sort"

	"golang.org/x/tools/go/ssa"
)

type sharedFinding struct {
	fn   *ssa.Function
	pos  token.Pos
	what string
	sig  string
}

func reachableInModule(c *Ctx, roots []*ssa.Function) []*ssa.Function {
	cg := c.callGraph()
	reach := map[*ssa.Function]bool{}
	var walk func(f *ssa.Function)
	walk = func(f *ssa.Function) {
		if f == nil || reach[f] || !c.inModule(f) {
			return
		}
		reach[f] = true
		for _, an := range f.AnonFuncs {
			walk(an)
		}
		// functions handed as values to code outside the module (callbacks of sort, sync.Once,
		// time.AfterFunc ...) run too
		for _, b := range f.Blocks {
			for _, in := range b.Instrs {
				for _, op := range in.Operands(nil) {
					if op == nil || *op == nil {
						continue
					}
					if fv, ok := (*op).(*ssa.Function); ok {
						walk(fv)
					}
				}
			}
		}
		if n := cg.Nodes[f]; n != nil {
			for _, e := range n.Out {
				walk(e.Callee.Func)
			}
		}
	}
	for _, f := range roots {
		walk(f)
	}
	var fns []*ssa.Function
	for f := range reach {
		if f.Synthetic != "" && f.Name() == "init" {
			continue
		}
		fns = append(fns, f)
	}
	sort.Slice(fns, func(i, j int) bool { return fns[i].String() < fns[j].String() })
	return fns
}

func isSharedRef(t types.Type) bool {
	switch t.Underlying().(type) {
	case *types.Pointer, *types.Slice, *types.Map, *types.Chan, *types.Signature:
		return true
	case *types.Interface:
		return !isErrorType(t)
	}
	return false
}

// sharedStateScan returns the functions examined, the number of effect sites looked at and the
// findings.
func sharedStateScan(c *Ctx, roots []*ssa.Function) ([]*ssa.Function, int, []sharedFinding) {
	fns := reachableInModule(c, roots)
	n := 0
	var out []sharedFinding
	gb := func(v ssa.Value) *ssa.Global { return globalBase(v, 0, map[ssa.Value]bool{}) }
	// The one accepted way of filling package-level state lazily: a function run by
	// (*sync.Once).Do on a package-level Once and called from nowhere else. Its stores are
	// exempt, provided every other use of the variables it writes is dominated, in its own
	// function, by a call of that Once's Do (so it happens after the initialisation).
	onceInit := map[*ssa.Function]*ssa.Global{} // initialiser -> its Once
	onceCalls := map[*ssa.Function]map[*ssa.Global][]ssa.Instruction{}
	for _, fn := range fns {
		for _, b := range fn.Blocks {
			for _, in := range b.Instrs {
				ci, ok := in.(ssa.CallInstruction)
				if !ok {
					continue
				}
				sc := ci.Common().StaticCallee()
				if sc == nil || sc.String() != "(*sync.Once).Do" || len(ci.Common().Args) != 2 {
					continue
				}
				og, isG := ci.Common().Args[0].(*ssa.Global)
				if !isG {
					continue
				}
				if onceCalls[fn] == nil {
					onceCalls[fn] = map[*ssa.Global][]ssa.Instruction{}
				}
				onceCalls[fn][og] = append(onceCalls[fn][og], in)
				var initFn *ssa.Function
				switch v := ci.Common().Args[1].(type) {
				case *ssa.Function:
					initFn = v
				case *ssa.MakeClosure:
					if len(v.Bindings) == 0 {
						initFn, _ = v.Fn.(*ssa.Function)
					}
				}
				if initFn == nil {
					continue
				}
				direct := false
				if node := c.callGraph().Nodes[initFn]; node != nil {
					for _, e := range node.In {
						if c.inModule(e.Caller.Func) {
							direct = true
						}
					}
				}
				if !direct {
					onceInit[initFn] = og
				}
			}
		}
	}
	onceVars := map[*ssa.Global]*ssa.Global{} // variable written by an initialiser -> its Once
	for initFn, og := range onceInit {
		for _, b := range initFn.Blocks {
			for _, in := range b.Instrs {
				if st, ok := in.(*ssa.Store); ok {
					if g := gb(st.Addr); g != nil {
						onceVars[g] = og
					}
				}
			}
		}
	}
	afterOnce := func(fn *ssa.Function, in ssa.Instruction, og *ssa.Global) bool {
		for _, call := range onceCalls[fn][og] {
			if instrBefore(call, in) {
				return true
			}
		}
		return false
	}
	for _, fn := range fns {
		_, isInit := onceInit[fn]
		for _, b := range fn.Blocks {
			for _, in := range b.Instrs {
				if !isInit {
					// uses of once-initialised variables outside the initialiser
					for _, op := range in.Operands(nil) {
						if op == nil || *op == nil {
							continue
						}
						if g, ok := (*op).(*ssa.Global); ok {
							if og, guarded := onceVars[g]; guarded && !afterOnce(fn, in, og) {
								out = append(out, sharedFinding{fn, in.Pos(), "package-level variable " + g.Name() + " is filled lazily under " + og.Name() + " but used here without a preceding " + og.Name() + ".Do", "lazy-init-unsynchronised:" + g.Name()})
							}
						}
					}
				}
				switch x := in.(type) {
				case *ssa.Store:
					n++
					if g := gb(x.Addr); g != nil {
						if isInit {
							continue // the Once-guarded initialiser itself
						}
						out = append(out, sharedFinding{fn, in.Pos(), "store to memory of package-level variable " + g.Name(), "global-write:" + g.Name()})
					}
				case *ssa.MapUpdate:
					n++
					if g := gb(x.Map); g != nil {
						out = append(out, sharedFinding{fn, in.Pos(), "update of a map held in package-level variable " + g.Name(), "global-write:" + g.Name()})
					}
				case ssa.CallInstruction:
					cm := x.Common()
					if bi, ok := cm.Value.(*ssa.Builtin); ok {
						switch bi.Name() {
						case "copy", "append", "delete", "clear":
							n++
							if len(cm.Args) > 0 {
								if g := gb(cm.Args[0]); g != nil {
									out = append(out, sharedFinding{fn, in.Pos(), bi.Name() + " with a destination derived from package-level variable " + g.Name(), "global-write:" + g.Name()})
								}
							}
						}
						continue
					}
					ops := append([]ssa.Value{}, cm.Args...)
					if cm.IsInvoke() {
						ops = append(ops, cm.Value)
					}
					if sc := cm.StaticCallee(); sc != nil && sc.String() == "(*sync.Once).Do" {
						if _, isG := cm.Args[0].(*ssa.Global); isG {
							continue // handled above
						}
					}
					for _, a := range ops {
						if !isSharedRef(a.Type()) {
							continue
						}
						n++
						if g := gb(a); g != nil {
							callee := "a dynamic call"
							if sc := cm.StaticCallee(); sc != nil {
								callee = sc.String()
							} else if cm.IsInvoke() {
								callee = "method " + cm.Method.Name()
							}
							out = append(out, sharedFinding{fn, in.Pos(), "a reference into package-level variable " + g.Name() + " is handed to " + callee + " (which may write through it)", "global-escape:" + g.Name()})
						}
					}
				}
			}
		}
	}
	return fns, n, out
}

// sharedStateRule reports the scan under rule id `rule`; `what` names the path (for the report).
func sharedStateRule(c *Ctx, r *Report, rule, construct, what string, roots []*ssa.Function) {
	fns, n, finds := sharedStateScan(c, roots)
	r.instance(rule, len(fns))
	for _, fn := range fns {
		r.funcs[fnID(fn)] = true
	}
	seen := map[string]bool{}
	for _, f := range finds {
		k := fnID(f.fn) + f.sig + c.pos(f.pos)
		if seen[k] {
			continue
		}
		seen[k] = true
		r.fail(rule, fnID(f.fn), what+": "+f.what+" — the result is no longer a function of the inputs alone, and concurrent callers observe each other", c.pos(f.pos), "", f.sig)
	}
	if len(finds) == 0 {
		r.ok(rule, construct, fmt.Sprintf("%s: none of the %d effect sites in the %d module functions reachable from it writes package-level state or hands a reference into it to other code", what, n, len(fns)), "-", true)
	}
}

// codecRoots returns the functions of package pkgRel through which frames of one direction are
// built or decoded: the exported parse entry points and constructors whose result is a request
// (wantReq) or response type, the Bytes methods of those types, the dispatchers and exception
// recognisers (exported functions with one []byte parameter), and the checksum.
func codecRoots(c *Ctx, pkgRel string, wantReq bool) []*ssa.Function {
	reqs := requestTypes(c, pkgRel)
	var roots []*ssa.Function
	add := func(f *ssa.Function) {
		if f != nil && f.Blocks != nil && f.Synthetic == "" {
			roots = append(roots, f)
		}
	}
	for _, m := range bytesMethods(c, pkgRel) {
		tn, ok := m.Signature.Recv().Type().(*types.Named)
		if ok && reqs[tn] == wantReq {
			add(m)
		}
	}
	for _, fn := range c.allFuncs(pkgRel) {
		if fn.Parent() != nil || fn.Signature.Recv() != nil || fn.Object() == nil || !fn.Object().Exported() {
			continue
		}
		res := fn.Signature.Results()
		if res.Len() == 0 {
			continue
		}
		// constructors and per-function parsers: first result is a pointer to a packet type of this direction
		if pt, ok := res.At(0).Type().(*types.Pointer); ok {
			if tn, ok := pt.Elem().(*types.Named); ok {
				if _, isStruct := tn.Underlying().(*types.Struct); isStruct && tn.Obj().Pkg() == fn.Pkg.Pkg {
					hasBytes := false
					ms := c.prog.MethodSets.MethodSet(tn)
					for i := 0; i < ms.Len(); i++ {
						if ms.At(i).Obj().Name() == "Bytes" {
							hasBytes = true
						}
					}
					if hasBytes && reqs[tn] == wantReq {
						add(fn)
					}
				}
			}
			continue
		}
		// dispatchers / recognisers / classifier: a single []byte parameter (plus flags)
		if fn.Signature.Params().Len() >= 1 && isByteSeq(fn.Signature.Params().At(0).Type()) {
			add(fn)
		}
	}
	return roots
}
