package main

// Shared-state rule (used by several properties): a codec / request path whose result must be a
// function of its inputs alone, for every input and under concurrent use, may not depend on
// package-level state that changes at run time, nor race on it. Decided in two steps. (1)
// Module-wide: which package-level variables are not constant after initialisation
// (mutableGlobals: stored to, map-updated, copy/append destination, or handed by reference to a
// call, anywhere outside init; one frozen exemption confirmed by reading the call sites of the
// pinned tree: values of interface type error — the sentinels handed to errors.Is and to the
// error callback). (2) On every module function reachable from the given roots (VTA call
// graph plus function values handed to other code): every instruction naming such a variable
// is a finding, except the synchronised idioms listed at sharedStateScan.

import (
	"fmt"
	"go/token"
	"go/types"
	"golang.org/x/tools/go/ssa/ssautil"
	"sort"
	"strings"

	"golang.org/x/tools/go/ssa"
)

type sharedFinding struct {
	fn   *ssa.Function
	pos  token.Pos
	what string
	sig  string
}

func reachableInModule(c *Ctx, roots []*ssa.Function) []*ssa.Function {
	cg := c.callGraph()
	reach := map[*ssa.Function]bool{}
	var walk func(f *ssa.Function)
	walk = func(f *ssa.Function) {
		if f == nil || reach[f] || !c.inModule(f) {
			return
		}
		reach[f] = true
		for _, an := range f.AnonFuncs {
			walk(an)
		}
		// functions handed as values to code outside the module (callbacks of sort, sync.Once,
		// time.AfterFunc ...) run too
		for _, b := range f.Blocks {
			for _, in := range b.Instrs {
				for _, op := range in.Operands(nil) {
					if op == nil || *op == nil {
						continue
					}
					if fv, ok := (*op).(*ssa.Function); ok {
						walk(fv)
					}
				}
			}
		}
		if n := cg.Nodes[f]; n != nil {
			for _, e := range n.Out {
				walk(e.Callee.Func)
			}
		}
	}
	for _, f := range roots {
		walk(f)
	}
	var fns []*ssa.Function
	for f := range reach {
		if f.Synthetic != "" && f.Name() == "init" {
			continue
		}
		fns = append(fns, f)
	}
	sort.Slice(fns, func(i, j int) bool { return fns[i].String() < fns[j].String() })
	return fns
}

func isSharedRef(t types.Type) bool {
	switch t.Underlying().(type) {
	case *types.Pointer, *types.Slice, *types.Map, *types.Chan, *types.Signature:
		return true
	case *types.Interface:
		return !isErrorType(t)
	}
	return false
}

// mutableGlobals: package-level variables of the module that something in the module (outside
// package initialisation) writes, or whose storage is handed to other code: stores, map updates,
// copy/append/delete/clear with such a destination, and calls that receive a reference derived
// from the variable (error-typed values excepted). Everything else is constant after init.
func (c *Ctx) mutableGlobals() map[*ssa.Global]string {
	if c.mutGlobals != nil {
		return c.mutGlobals
	}
	m := map[*ssa.Global]string{}
	gb := func(v ssa.Value) *ssa.Global { return globalBase(v, 0, map[ssa.Value]bool{}) }
	mark := func(g *ssa.Global, why string) {
		if g != nil && g.Pkg != nil && strings.HasPrefix(g.Pkg.Pkg.Path(), c.modRoot) {
			if _, ok := m[g]; !ok {
				m[g] = why
			}
		}
	}
	for fn := range ssautil.AllFunctions(c.prog) {
		if !c.inModule(fn) || fn.Name() == "init" || strings.HasPrefix(fn.Name(), "init#") {
			continue
		}
		for _, b := range fn.Blocks {
			for _, in := range b.Instrs {
				switch x := in.(type) {
				case *ssa.Store:
					mark(gb(x.Addr), "stored to in "+fn.Name())
				case *ssa.MapUpdate:
					mark(gb(x.Map), "map updated in "+fn.Name())
				case ssa.CallInstruction:
					cm := x.Common()
					if bi, ok := cm.Value.(*ssa.Builtin); ok {
						switch bi.Name() {
						case "copy", "append", "delete", "clear":
							if len(cm.Args) > 0 {
								mark(gb(cm.Args[0]), bi.Name()+" destination in "+fn.Name())
							}
						}
						continue
					}
					ops := append([]ssa.Value{}, cm.Args...)
					if cm.IsInvoke() {
						ops = append(ops, cm.Value)
					}
					for _, a := range ops {
						if isSharedRef(a.Type()) {
							mark(gb(a), "handed to a call in "+fn.Name())
						}
					}
				}
			}
		}
	}
	c.mutGlobals = m
	return m
}

// syncExempt classifies a call that operates on a package-level variable through the
// synchronised primitives of sync and sync/atomic: such a call is not a data race; it matters
// only if a value comes back from it (then the caller reads state other callers change).
func syncExempt(cm *ssa.CallCommon) (exempt bool, reads bool) {
	sc := cm.StaticCallee()
	if sc == nil {
		return false, false
	}
	pkg := ""
	if sc.Pkg != nil {
		pkg = sc.Pkg.Pkg.Path()
	} else if sc.Signature.Recv() != nil {
		if n, ok := deref(sc.Signature.Recv().Type()).(*types.Named); ok && n.Obj().Pkg() != nil {
			pkg = n.Obj().Pkg().Path()
		}
	}
	switch pkg {
	case "sync/atomic":
		return true, sc.Signature.Results().Len() > 0
	case "sync":
		if sc.Signature.Recv() != nil {
			if n, ok := deref(sc.Signature.Recv().Type()).(*types.Named); ok {
				switch n.Obj().Name() {
				case "Mutex", "RWMutex", "WaitGroup":
					return true, false
				}
			}
		}
	}
	return false, false
}

func valueUsed(v ssa.Value) bool {
	refs := v.Referrers()
	if refs == nil {
		return false
	}
	for _, r := range *refs {
		if _, dbg := r.(*ssa.DebugRef); !dbg {
			return true
		}
	}
	return false
}

// poolUseOK: the value taken from a package-level sync.Pool by `get` is used as a private
// scratch object: nothing derived from it is returned, stored outside itself or local cells,
// captured, sent, or handed to module code; and nothing derived from it is used after it was
// put back (a deferred Put is always last).
func poolUseOK(fn *ssa.Function, get *ssa.Call) (bool, string) {
	T := map[ssa.Value]bool{get: true}
	cells := map[*ssa.Alloc]bool{}
	for changed := true; changed; {
		changed = false
		mark := func(v ssa.Value) {
			if !T[v] {
				T[v], changed = true, true
			}
		}
		for _, b := range fn.Blocks {
			for _, in := range b.Instrs {
				switch x := in.(type) {
				case *ssa.TypeAssert:
					if T[x.X] {
						mark(x)
					}
				case *ssa.Extract:
					if T[x.Tuple] {
						mark(x)
					}
				case *ssa.UnOp:
					// a scalar read out of pooled memory is a copy, not an alias
					if T[x.X] && (x.Op != token.MUL || isSharedRef(x.Type())) {
						mark(x)
					}
					if al, ok := x.X.(*ssa.Alloc); ok && cells[al] {
						mark(x)
					}
				case *ssa.Slice:
					if T[x.X] {
						mark(x)
					}
				case *ssa.IndexAddr:
					if T[x.X] {
						mark(x)
					}
				case *ssa.FieldAddr:
					if T[x.X] {
						mark(x)
					}
				case *ssa.Phi:
					for _, e := range x.Edges {
						if T[e] {
							mark(x)
						}
					}
				case *ssa.ChangeType:
					if T[x.X] {
						mark(x)
					}
				case *ssa.Convert:
					if T[x.X] {
						mark(x)
					}
				case *ssa.MakeInterface:
					if T[x.X] {
						mark(x)
					}
				case *ssa.Call:
					if bi, ok := x.Common().Value.(*ssa.Builtin); ok && bi.Name() == "append" && len(x.Common().Args) > 0 && T[x.Common().Args[0]] {
						mark(x)
					}
				case *ssa.Store:
					if al, ok := x.Addr.(*ssa.Alloc); ok && T[x.Val] && !cells[al] {
						cells[al], changed = true, true
					}
				}
			}
		}
	}
	var puts []ssa.Instruction
	for _, b := range fn.Blocks {
		for _, in := range b.Instrs {
			switch x := in.(type) {
			case *ssa.Return:
				for _, rv := range x.Results {
					if T[rv] {
						return false, "a value taken from the pool is returned"
					}
				}
			case *ssa.Store:
				if T[x.Val] {
					if _, isCell := x.Addr.(*ssa.Alloc); !isCell && !T[x.Addr] {
						return false, "a value taken from the pool is stored into memory that outlives the call"
					}
				}
			case *ssa.MapUpdate:
				if T[x.Key] || T[x.Value] {
					return false, "a value taken from the pool is put into a map"
				}
			case *ssa.Send:
				if T[x.X] {
					return false, "a value taken from the pool is sent on a channel"
				}
			case *ssa.MakeClosure:
				for _, bv := range x.Bindings {
					if T[bv] {
						return false, "a value taken from the pool is captured by a closure"
					}
					if al, ok := bv.(*ssa.Alloc); ok && cells[al] {
						return false, "a variable holding a pooled value is captured by a closure"
					}
				}
			case ssa.CallInstruction:
				cm := x.Common()
				if _, isBuiltin := cm.Value.(*ssa.Builtin); isBuiltin {
					continue
				}
				anyT := false
				for _, a := range cm.Args {
					if T[a] {
						anyT = true
					}
				}
				if !anyT {
					continue
				}
				sc := cm.StaticCallee()
				if sc != nil && sc.String() == "(*sync.Pool).Put" {
					if _, isDefer := in.(*ssa.Defer); !isDefer {
						puts = append(puts, in)
					}
					continue
				}
				if sc == nil || sc.Pkg == nil {
					return false, "a value taken from the pool is handed to a dynamic call"
				}
				switch sc.Pkg.Pkg.Path() {
				case "encoding/binary", "bytes":
				default:
					return false, "a value taken from the pool is handed to " + sc.String()
				}
			}
		}
	}
	for _, p := range puts {
		for _, b := range fn.Blocks {
			for _, in := range b.Instrs {
				if in == p {
					continue
				}
				after := (b == p.Block() && instrBefore(p, in)) || (b != p.Block() && blockReaches(p.Block(), b))
				if b == p.Block() && !instrBefore(p, in) && blockReaches(b, b) {
					after = true // same block again on a later iteration
				}
				if !after {
					continue
				}
				for _, op := range in.Operands(nil) {
					if op != nil && *op != nil && T[*op] {
						if _, isPhi := in.(*ssa.Phi); !isPhi {
							return false, "a value taken from the pool is used after it was put back"
						}
					}
				}
			}
		}
	}
	return true, ""
}

// sharedStateScan returns the functions examined, the number of sites looked at and the findings:
// every instruction on the path that names a package-level variable of the module which is not
// constant after initialisation (mutableGlobals), except
//   - synchronised primitives applied to it whose result is not used (a lock, an atomic counter
//     that is only incremented);
//   - the sync.Once idiom: the call of Do, the stores of an initialiser that only Do runs, and uses
//     of the variables it fills that are dominated by that Once's Do;
//   - a package-level sync.Pool whose objects are used as private scratch memory (poolUseOK).
func sharedStateScan(c *Ctx, roots []*ssa.Function) ([]*ssa.Function, int, []sharedFinding) {
	fns := reachableInModule(c, roots)
	mut := c.mutableGlobals()
	n := 0
	var out []sharedFinding
	gb := func(v ssa.Value) *ssa.Global { return globalBase(v, 0, map[ssa.Value]bool{}) }
	onceInit := map[*ssa.Function]*ssa.Global{} // initialiser -> its Once
	onceCalls := map[*ssa.Function]map[*ssa.Global][]ssa.Instruction{}
	for _, fn := range fns {
		for _, b := range fn.Blocks {
			for _, in := range b.Instrs {
				ci, ok := in.(ssa.CallInstruction)
				if !ok {
					continue
				}
				sc := ci.Common().StaticCallee()
				if sc == nil || sc.String() != "(*sync.Once).Do" || len(ci.Common().Args) != 2 {
					continue
				}
				og, isG := ci.Common().Args[0].(*ssa.Global)
				if !isG {
					continue
				}
				if onceCalls[fn] == nil {
					onceCalls[fn] = map[*ssa.Global][]ssa.Instruction{}
				}
				onceCalls[fn][og] = append(onceCalls[fn][og], in)
				var initFn *ssa.Function
				switch v := ci.Common().Args[1].(type) {
				case *ssa.Function:
					initFn = v
				case *ssa.MakeClosure:
					if len(v.Bindings) == 0 {
						initFn, _ = v.Fn.(*ssa.Function)
					}
				}
				if initFn == nil {
					continue
				}
				direct := false
				if node := c.callGraph().Nodes[initFn]; node != nil {
					for _, e := range node.In {
						if c.inModule(e.Caller.Func) {
							direct = true
						}
					}
				}
				if !direct {
					onceInit[initFn] = og
				}
			}
		}
	}
	onceVars := map[*ssa.Global]*ssa.Global{} // variable written by an initialiser -> its Once
	for initFn, og := range onceInit {
		for _, b := range initFn.Blocks {
			for _, in := range b.Instrs {
				if st, ok := in.(*ssa.Store); ok {
					if g := gb(st.Addr); g != nil {
						onceVars[g] = og
					}
				}
			}
		}
	}
	afterOnce := func(fn *ssa.Function, in ssa.Instruction, og *ssa.Global) bool {
		for _, call := range onceCalls[fn][og] {
			if instrBefore(call, in) {
				return true
			}
		}
		return false
	}
	for _, fn := range fns {
		initOnce, isInit := onceInit[fn]
		for _, b := range fn.Blocks {
			for _, in := range b.Instrs {
				for _, op := range in.Operands(nil) {
					if op == nil || *op == nil {
						continue
					}
					g, ok := (*op).(*ssa.Global)
					if !ok {
						continue
					}
					why, isMut := mut[g]
					if !isMut {
						continue
					}
					n++
					// the sync.Once idiom
					if og, guarded := onceVars[g]; guarded {
						if isInit && og == initOnce {
							continue
						}
						if afterOnce(fn, in, og) {
							continue
						}
						out = append(out, sharedFinding{fn, in.Pos(), "package-level variable " + g.Name() + " is filled lazily under " + og.Name() + " but used here without a preceding " + og.Name() + ".Do", "lazy-init-unsynchronised:" + g.Name()})
						continue
					}
					if ci, isCall := in.(ssa.CallInstruction); isCall {
						cm := ci.Common()
						if sc := cm.StaticCallee(); sc != nil {
							switch sc.String() {
							case "(*sync.Once).Do":
								if len(cm.Args) == 2 && cm.Args[0] == ssa.Value(g) {
									continue
								}
							case "(*sync.Pool).Get":
								if call, isPlain := in.(*ssa.Call); isPlain {
									if ok, whyNot := poolUseOK(fn, call); ok {
										continue
									} else {
										out = append(out, sharedFinding{fn, in.Pos(), "object taken from package-level pool " + g.Name() + " is not private scratch memory: " + whyNot, "pool-escape:" + g.Name()})
										continue
									}
								}
							case "(*sync.Pool).Put":
								continue // judged with the Get of the same function
							}
						}
						if exempt, reads := syncExempt(cm); exempt {
							if v, isVal := in.(ssa.Value); !reads || !isVal || !valueUsed(v) {
								continue
							}
							out = append(out, sharedFinding{fn, in.Pos(), "a value is read from package-level variable " + g.Name() + ", which changes at run time", "global-read:" + g.Name()})
							continue
						}
					}
					out = append(out, sharedFinding{fn, in.Pos(), "uses package-level variable " + g.Name() + ", which is not constant after initialisation (" + why + ")", "global-state:" + g.Name()})
				}
			}
		}
	}
	return fns, n, out
}

// sharedStateRule reports the scan under rule id `rule`; `what` names the path (for the report).
func sharedStateRule(c *Ctx, r *Report, rule, construct, what string, roots []*ssa.Function) {
	fns, n, finds := sharedStateScan(c, roots)
	r.instance(rule, len(fns))
	for _, fn := range fns {
		r.funcs[fnID(fn)] = true
	}
	seen := map[string]bool{}
	for _, f := range finds {
		k := fnID(f.fn) + f.sig + c.pos(f.pos)
		if seen[k] {
			continue
		}
		seen[k] = true
		r.fail(rule, fnID(f.fn), what+": "+f.what+" — the result is no longer a function of the inputs alone, and concurrent callers observe each other", c.pos(f.pos), "", f.sig)
	}
	if len(finds) == 0 {
		r.ok(rule, construct, fmt.Sprintf("%s: the %d module functions reachable from it use only package-level variables that are constant after initialisation (%d uses of mutable ones examined and exempted: locks, write-only atomic counters, sync.Once initialisers, private pool objects)", what, len(fns), n), "-", true)
	}
}

// codecRoots returns the functions of package pkgRel through which frames of one direction are
// built or decoded: the exported parse entry points and constructors whose result is a request
// (wantReq) or response type, the Bytes methods of those types, the dispatchers and exception
// recognisers (exported functions with one []byte parameter), and the checksum.
func codecRoots(c *Ctx, pkgRel string, wantReq bool) []*ssa.Function {
	reqs := requestTypes(c, pkgRel)
	var roots []*ssa.Function
	add := func(f *ssa.Function) {
		if f != nil && f.Blocks != nil && f.Synthetic == "" {
			roots = append(roots, f)
		}
	}
	for _, m := range bytesMethods(c, pkgRel) {
		tn, ok := m.Signature.Recv().Type().(*types.Named)
		if ok && reqs[tn] == wantReq {
			add(m)
		}
	}
	for _, fn := range c.allFuncs(pkgRel) {
		if fn.Parent() != nil || fn.Signature.Recv() != nil || fn.Object() == nil || !fn.Object().Exported() {
			continue
		}
		res := fn.Signature.Results()
		if res.Len() == 0 {
			continue
		}
		// constructors and per-function parsers: first result is a pointer to a packet type of this direction
		if pt, ok := res.At(0).Type().(*types.Pointer); ok {
			if tn, ok := pt.Elem().(*types.Named); ok {
				if _, isStruct := tn.Underlying().(*types.Struct); isStruct && tn.Obj().Pkg() == fn.Pkg.Pkg {
					hasBytes := false
					ms := c.prog.MethodSets.MethodSet(tn)
					for i := 0; i < ms.Len(); i++ {
						if ms.At(i).Obj().Name() == "Bytes" {
							hasBytes = true
						}
					}
					if hasBytes && reqs[tn] == wantReq {
						add(fn)
					}
				}
			}
			continue
		}
		// dispatchers / recognisers / classifier: a single []byte parameter (plus flags)
		if fn.Signature.Params().Len() >= 1 && isByteSeq(fn.Signature.Params().At(0).Type()) {
			add(fn)
		}
	}
	return roots
}

func init() {
	ctl := func(c *Ctx, r *Report, prop string) {
		fire := func(name string) bool {
			_, _, fs := sharedStateScan(c, []*ssa.Function{c.fnMust("cshared", name)})
			return len(fs) > 0
		}
		r.controls[prop+"/shared-state-scratch-buffer"] = fire("SharedScratch")
		r.controls[prop+"/shared-state-lazy-unsynchronised"] = fire("LazyUnsynchronised")
		r.controls[prop+"/shared-state-pool-leak"] = fire("PoolLeaks")
		r.controls[prop+"/shared-state-negative-controls-silent"] = !fire("OnceGuarded") && !fire("Counted") && !fire("PoolPrivate")
	}
	for _, p := range []string{"C01", "C02", "C03", "C09", "C12", "C13", "C14", "C16"} {
		prop := p
		prev := controls[prop]
		controls[prop] = func(c *Ctx, r *Report) {
			if prev != nil {
				prev(c, r)
			}
			ctl(c, r, prop)
		}
	}
}
