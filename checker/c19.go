package main

// C19 — client hooks observe exactly the bytes sent, each chunk read and the final frame
// (DESIGN §3 C19).

import (
	"fmt"
	"go/types"

	"golang.org/x/tools/go/ssa"
)

func init() {
	register("C19", checkC19, "The six hook call sites of the two clients are located through the type-checked program (invoke of a ClientHooks method on the client's hooks field) and compared by value identity of the abstract arguments, never by spelling. R19.1 BeforeWrite receives the same slice value as the transport Write and its guard dominates that Write. R19.2 AfterEachRead receives (received[total:total+n], n, err) where (n, err) are the results of the Read of this iteration and received[total:...] is the window that Read was given, with total taken before it is advanced; on every path from a Read to the next iteration or to a return the hook's guard is evaluated exactly once. R19.3 BeforeParse receives the value then passed to parseResponseFunc, which is do's result, and its guard dominates the parse. R19.4 each hook call sits in a block reached only on hooks != nil that contains nothing but argument computation, the call and a jump, and defines no value used elsewhere, so installing hooks cannot change the outcome. What a user hook does with the slices is outside the property. R19.3 additionally: BeforeParse and the parser run only when do() returned no error. R19.5 chunk accounting (C07 R7.2): total advances by each Read's count and the frame is a copy of received[0:total]. R19.6 every exported constructor taking a ClientConfig hands its Hooks on unchanged to the function that applies the configuration. R19.6 also requires guard purity: Hooks are installed under a condition on the Hooks field alone. R19.7 = C08 R8.7 (the connection read from is the dialer's own result).")
}

func checkC19(c *Ctx, r *Report) {
	r.floor("R19.1", 2)
	r.floor("R19.2", 2)
	r.floor("R19.3", 2)
	r.floor("R19.4", 6)
	// R19.7: what the after-read hook is shown is what the transport produced: the connection the
	// client reads from is the dialer's own result, not a wrapper whose Read may report differently
	// (C08 R8.7)
	connectStores(c, r, "R19.7")
	r.floor("R19.7", 1)
	for _, spec := range []struct {
		name   string
		serial bool
	}{{"Client", false}, {"SerialClient", true}} {
		ci := analyseClient(c, spec.name, spec.serial)
		r.funcs[fnID(ci.Do)] = true
		r.funcs[fnID(ci.do)] = true
		c19Client(c, r, ci, false)
	}
	// R19.5: the frame shown to BeforeParse is the concatenation of all chunks shown to
	// AfterEachRead only if every Read's count is added to the total before the loop can exit
	clientLoopItems(c, r, "R7.2", "R19.5", "the frame handed on is a copy of received[0:total]", "advances by exactly the count")
	// R19.6: hooks given in a ClientConfig reach the client: every exported constructor taking a
	// configuration hands its Hooks on unchanged to the function applying it
	cfgPassThrough(c, r, "R19.6", func(f *types.Var) bool { return types.IsInterface(f.Type()) })
	// ... and the function applying the configuration installs them whenever they are set (the
	// store is control-dependent only on the Hooks field itself)
	cfgStores(c, r, "R19.6", false, false, true)
	r.floor("R19.6", 3)
	r.assumption("hook bodies are user code: they are assumed to return and not to modify the slices they are handed")
}

func c19Client(c *Ctx, r *Report, ci *clientInfo, control bool) map[string]bool {
	fired := map[string]bool{}
	id := fnID(ci.do)
	rep := func(rule string, ok bool, what, detail, sig, pos string) {
		if !ok {
			fired[rule+":"+sig] = true
		}
		if control {
			return
		}
		if ok {
			r.ok(rule, id, what, pos, true)
		} else {
			r.fail(rule, id, what, pos, detail, sig)
		}
	}
	if ci.problem != "" {
		fired["undecided"] = true
		if !control {
			r.undecided("R19.1", id, ci.problem, c.pos(ci.do.Pos()))
		}
		return fired
	}
	fr := ci.inner
	// guard: the hook call's block is the true successor of an If on "hooks field != nil"
	guardOf := func(cr *CallRec) *ssa.BasicBlock {
		b := cr.instr.Block()
		if len(b.Preds) != 1 {
			return nil
		}
		g := b.Preds[0]
		iff, ok := g.Instrs[len(g.Instrs)-1].(*ssa.If)
		if !ok || g.Succs[0] != b {
			return nil
		}
		cmp, ok := iff.Cond.(*ssa.BinOp)
		if !ok {
			return nil
		}
		for _, side := range []ssa.Value{cmp.X, cmp.Y} {
			if ci.isField(cr.frame.val(side), ci.hooks) {
				return g
			}
		}
		return nil
	}
	transparent := func(cr *CallRec, what string) {
		if !control {
			r.instance("R19.4", 1)
		}
		b := cr.instr.Block()
		pos := posOfCall(c, cr)
		g := guardOf(cr)
		okShape := g != nil && len(b.Succs) == 1
		for _, in := range b.Instrs {
			switch x := in.(type) {
			case *ssa.FieldAddr, *ssa.UnOp, *ssa.BinOp, *ssa.Slice, *ssa.Jump, *ssa.DebugRef, *ssa.IndexAddr, *ssa.Convert:
			case *ssa.Call:
				if x != cr.instr {
					okShape = false
				}
			default:
				okShape = false
			}
			if v, ok := in.(ssa.Value); ok {
				if refs := v.Referrers(); refs != nil {
					for _, rf := range *refs {
						if rf.Block() != b {
							okShape = false
						}
					}
				}
			}
		}
		rep("R19.4", okShape, what+" is called in a block reached only when hooks != nil that does nothing else and exports no value", "", "not-transparent:"+what, pos)
	}
	// ---- R19.1 ----
	if !control {
		r.instance("R19.1", 1)
		r.instance("R19.2", 1)
		r.instance("R19.3", 1)
	}
	bw := ci.hookCalls(fr, "BeforeWrite")
	if len(bw) != 1 {
		rep("R19.1", false, fmt.Sprintf("%d BeforeWrite call sites in do (want 1)", len(bw)), "", "beforewrite-sites", c.pos(ci.do.Pos()))
	} else {
		h := bw[0]
		same := describeAV(h.args[0]) == describeAV(ci.write.args[0])
		rep("R19.1", same, "BeforeWrite receives the very slice that is written to the transport", describeAV(h.args[0])+" vs "+describeAV(ci.write.args[0]), "beforewrite-arg", posOfCall(c, h))
		g := guardOf(h)
		rep("R19.1", g != nil && g.Dominates(ci.write.instr.Block()) && g != ci.write.instr.Block(), "the BeforeWrite guard is evaluated before the transport Write on every path", "", "beforewrite-order", posOfCall(c, h))
		transparent(h, "BeforeWrite")
		// ... once per request: the hook call is neither in a loop nor in a function that can reach
		// itself through calls (a helper that announces and writes, re-entered for the unwritten rest
		// of a short write, announces a suffix of the request as if it were another request)
		hb := h.instr.Block()
		hf := h.instr.Parent()
		rep("R19.1", !blockReaches(hb, hb) && !callsItself(c, hf), "BeforeWrite is announced once per request (its call site is not in a loop and not in a recursive helper)", fnID(hf), "beforewrite-repeated", posOfCall(c, h))
	}
	// ---- R19.2 ----
	ar := ci.hookCalls(fr, "AfterEachRead")
	if len(ar) != 1 {
		rep("R19.2", false, fmt.Sprintf("%d AfterEachRead call sites in do (want 1)", len(ar)), "", "afterread-sites", c.pos(ci.do.Pos()))
	} else {
		h := ar[0]
		pos := posOfCall(c, h)
		rt, _ := ci.read.res.(ATuple)
		chunk, ok := h.args[0].(ASlice)
		rep("R19.2", ok && chunk.root == ci.recvBuf && chunk.off.equal(ci.total) && chunk.ln.equal(ci.n),
			"AfterEachRead receives received[total:total+n], the bytes this Read produced", describeAV(h.args[0]), "afterread-chunk", pos)
		if len(rt) == 2 {
			n, _ := h.args[1].(AInt)
			rep("R19.2", n.a.equal(ci.n) && len(n.conds) == 0, "AfterEachRead receives the count this Read returned", describeAV(h.args[1]), "afterread-n", pos)
			rep("R19.2", describeAV(h.args[2]) == describeAV(rt[1]), "AfterEachRead receives the error this Read returned", describeAV(h.args[2]), "afterread-err", pos)
		}
		g := guardOf(h)
		rb := ci.read.instr.Block()
		okOnce := g != nil && ci.loop[g] && rb.Dominates(g) && allPathsPass(rb, g, map[*ssa.BasicBlock]bool{ci.phi.Block(): true})
		rep("R19.2", okOnce, "after every Read the AfterEachRead guard is evaluated before the loop continues or the call returns", "", "afterread-every-read", pos)
		transparent(h, "AfterEachRead")
	}
	// ---- R19.3 (in Do) ----
	tf := ci.top
	bp := ci.hookCalls(tf, "BeforeParse")
	parse := ci.dynCalls(tf, ci.parse)
	var doCall *CallRec
	for _, cr := range ci.an.calls {
		if ci.inTop(cr) && cr.callee == ci.do {
			doCall = cr
		}
	}
	if len(bp) != 1 || len(parse) != 1 || doCall == nil {
		rep("R19.3", false, fmt.Sprintf("%d BeforeParse / %d parseResponseFunc call sites in Do (want 1/1)", len(bp), len(parse)), "", "beforeparse-sites", c.pos(ci.Do.Pos()))
	} else {
		h, p := bp[0], parse[0]
		pos := posOfCall(c, h)
		rep("R19.3", describeAV(h.args[0]) == describeAV(p.args[0]), "BeforeParse receives the very value handed to parseResponseFunc", describeAV(h.args[0])+" vs "+describeAV(p.args[0]), "beforeparse-arg", pos)
		var doRes AV
		if t, ok := doCall.res.(ATuple); ok && len(t) == 2 {
			doRes = t[0]
		}
		rep("R19.3", doRes != nil && describeAV(p.args[0]) == describeAV(doRes), "the parsed frame is do()'s result (the copy of everything read)", describeAV(p.args[0]), "parse-arg", posOfCall(c, p))
		g := guardOf(h)
		rep("R19.3", g != nil && g.Dominates(p.instr.Block()) && g != p.instr.Block(), "the BeforeParse guard is evaluated before the parse on every path", "", "beforeparse-order", pos)
		// the hook announces a parse: it runs only when do() succeeded (a frame exists and the parser
		// will be called with it)
		if t, ok := doCall.res.(ATuple); ok && len(t) == 2 {
			rep("R19.3", h.state.entailsForm(tf.nilness(t[1])), "BeforeParse runs only when the exchange succeeded (do() returned no error), i.e. exactly when the parser runs", truncate(h.state.String(), 200), "beforeparse-on-error", pos)
			rep("R19.3", p.state.entailsForm(tf.nilness(t[1])), "the parser runs only when the exchange succeeded", truncate(p.state.String(), 200), "parse-on-error", posOfCall(c, p))
		}
		transparent(h, "BeforeParse")
	}
	return fired
}

// callsItself: fn is on a cycle of the call graph.
func callsItself(c *Ctx, fn *ssa.Function) bool {
	cg := c.callGraph()
	start := cg.Nodes[fn]
	if start == nil {
		return false
	}
	seen := map[*ssa.Function]bool{}
	var walk func(f *ssa.Function) bool
	walk = func(f *ssa.Function) bool {
		n := cg.Nodes[f]
		if n == nil {
			return false
		}
		for _, e := range n.Out {
			cal := e.Callee.Func
			if cal == fn {
				return true
			}
			if cal == nil || seen[cal] || !c.inModule(cal) {
				continue
			}
			seen[cal] = true
			if walk(cal) {
				return true
			}
		}
		return false
	}
	return walk(fn)
}
