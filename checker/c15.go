package main

// C15 — the TCP server answers each request once and in order, whatever the segmentation
// (structural clauses; DESIGN §3 C15).

import (
	"fmt"
	"go/token"
	"go/types"

	"golang.org/x/tools/go/ssa"
)

func init() {
	register("C15", checkC15, "Exactly-once/in-order delivery over all segmentations is NOT decided as a whole. Decided necessary conditions, by abstract interpretation of the assembler with a ghost model of its bytes.Buffer (unread length and content, updated by Write/Next/Reset/Truncate): R15.1 the frame is consumed by Next(n) only where the facts entail n <= unread length, with n the classifier's expected length, so nothing is parsed or answered before the request is complete; and every 'wait for more' return is reached only with fewer than 8 bytes or fewer than n bytes buffered (a complete request is never withheld). R15.2 every return that produces a reply has removed the answered bytes from the buffer (exactly n, or everything) or closes the connection, so leftovers cannot be re-read. R15.3 ReceiveRead re-invokes the per-packet step in a loop until it reports nothing to handle, and appends each reply after the ones produced before (order). R15.4 the connection loop hands the assembler exactly received[0:n] of the Read just made and writes the returned reply before the next Read. R15.3 additionally: every return inside the loop hands back the accumulated replies (including the one just produced on the close path). R15.5 the assembler factory the server installs returns an object allocated by that very call, and is invoked after each Accept inside the accept loop. R15.6 for 8 or more buffered bytes the classifier's verdict depends on the header bytes only: returns with different verdicts are separated by byte conditions alone once conditions on len(data) are removed. R15.4 also: the loop reads again without having called the assembler only on an edge whose state entails n == 0 (no byte that was read is dropped). R15.7 no slice field of a parsed TCP request aliases the parser's input. R15.3 also: no return of ReceiveRead precedes the first step call, and ReceiveRead and the step have pointer receivers. R15.2 also: a closing return is reached only where the state pins the classifier's error to one sentinel (the connection is given up only on the classifier's verdict). R15.8 = C16 R16.1 (the assembler's unchecked assertions on parser errors cannot fail). R15.9 no method of the assembler type outside what ReceiveRead reaches calls a method of its bytes.Buffer.")
}

func checkC15(c *Ctx, r *Report) {
	r.floor("R15.1", 1)
	r.floor("R15.2", 1)
	r.floor("R15.3", 1)
	r.floor("R15.4", 1)
	r.floor("R15.5", 2)
	c15Factory(c, r)
	r.floor("R15.6", 1)
	classifierPrefixOnly(c, r, "R15.6")
	r.floor("R15.7", 10)
	c15NoAlias(c, r, "R15.7")
	// the per-packet step is the function of package server that calls the stream classifier
	cls := c.fnMust("packet", "LooksLikeModbusTCP")
	var step *ssa.Function
	if node := c.callGraph().Nodes[cls]; node != nil {
		for _, e := range node.In {
			if e.Caller.Func.Pkg == c.pkg("server") {
				step = e.Caller.Func
			}
		}
	}
	rr := assemblerReceiveRead(c)
	if step == nil {
		r.instance("R15.1", 1)
		r.fail("R15.1", fnID(rr), "no function of package server calls the stream classifier", c.pos(rr.Pos()), "", "no-classifier-caller")
		return
	}
	c15Step(c, r, rr, step)
	c15Loop(c, r, rr, step)
	c15Conn(c, r, c.fnMust("server", "*connection.handle"))
	// R15.9: bytes once buffered are only consumed by the reassembly path: no method of the assembler
	// type outside what ReceiveRead reaches calls a method of its bytes.Buffer (a side door such as
	// an optional tracing hook that resets the buffer would drop a half-received request)
	{
		rrT := deref(rr.Signature.Recv().Type())
		inPath := map[*ssa.Function]bool{}
		for _, f := range reachableInModule(c, []*ssa.Function{rr}) {
			inPath[f] = true
		}
		named, _ := rrT.(*types.Named)
		n, bad := 0, 0
		if named != nil {
			for _, m := range methodsOf(c, "server", named.Obj().Name()) {
				if inPath[m] {
					continue
				}
				n++
				for _, b := range m.Blocks {
					for _, in := range b.Instrs {
						ci, ok := in.(ssa.CallInstruction)
						if !ok {
							continue
						}
						sc := ci.Common().StaticCallee()
						if sc == nil || sc.Signature.Recv() == nil || len(ci.Common().Args) == 0 {
							continue
						}
						if nt, ok := deref(sc.Signature.Recv().Type()).(*types.Named); !ok || nt.Obj().Pkg() == nil || nt.Obj().Pkg().Path() != "bytes" || nt.Obj().Name() != "Buffer" {
							continue
						}
						// reading how much is buffered consumes nothing
						if nm := sc.Name(); nm == "Len" || nm == "Cap" || nm == "Available" || nm == "String" {
							continue
						}
						if fa, ok := ci.Common().Args[0].(*ssa.FieldAddr); ok && types.Identical(deref(fa.X.Type()), rrT) {
							bad++
							r.fail("R15.9", fnID(m), "the reassembly buffer is touched ("+sc.Name()+") by a method outside the path of ReceiveRead", c.pos(in.Pos()), "", "buffer-side-door:"+sc.Name())
						}
					}
				}
			}
		}
		r.instance("R15.9", 1)
		if bad == 0 {
			r.ok("R15.9", fnID(rr), fmt.Sprintf("no method of the assembler outside the reassembly path (%d examined) touches its buffer", n), c.pos(rr.Pos()), true)
		}
	}
	// R15.8: a request the parser refuses is still answered: the assembler's unchecked type
	// assertions on the classifier's / dispatcher's errors cannot fail (C16 R16.1); a panic there
	// drops the reply and everything buffered behind it
	{
		tmp := newReport(r.Prop, r.Tier)
		c16Assembler(c, tmp)
		r.instance("R15.8", copyItems(tmp, r, "R16.1", "R15.8"))
		r.floor("R15.8", 2)
	}
	r.assumption("bytes.Buffer contract: Bytes() is the unread portion, Next(n) returns and consumes min(n, Len()) bytes, Reset empties, Write appends")
	r.assumption("one assembler per connection, used by one goroutine (server.go creates it per accepted connection)")
}

func c15Step(c *Ctx, r *Report, rr, step *ssa.Function) map[string]bool {
	fired := map[string]bool{}
	id := fnID(step)
	rep := func(rule string, ok bool, what, detail, sig, pos string) {
		if !ok {
			fired[rule+":"+sig] = true
		}
		if r == nil {
			return
		}
		if ok {
			r.ok(rule, id, what, pos, true)
		} else {
			r.fail(rule, id, what, pos, detail, sig)
		}
	}
	an := &Analysis{ctx: c, u: newUniverse(), top: step, logCalls: true}
	fr := an.newFrame(step, nil, nil)
	fr.run(dnfTrue())
	if r != nil {
		r.funcs[id] = true
		r.instance("R15.1", 1)
		r.instance("R15.2", 1)
	}
	// the buffer and its entry length
	var bkey string
	for k := range fr.ghostEntry {
		bkey = k
	}
	if len(fr.ghostEntry) != 1 {
		// created lazily on first use: take it from the first Buffer call
		for _, cr := range an.calls {
			if cr.frame == fr && cr.callee != nil && len(cr.callee.String()) > 16 && cr.callee.String()[:16] == "(*bytes.Buffer)." {
				if p, ok := cr.args[0].(APtr); ok && p.obj != nil {
					bkey = p.obj.key + fr.pathNames(p.obj, p.path)
				}
				break
			}
		}
	}
	if bkey == "" {
		rep("R15.1", false, "assembler step does not use a bytes.Buffer", "", "no-buffer", c.pos(step.Pos()))
		return fired
	}
	L := affSym(an.u.sym("buflen("+bkey+")", 0, maxLen))
	// classifier result
	var expected *Aff
	var verdict *Sym // identity of the error value the classifier returned
	for _, cr := range an.calls {
		if cr.frame == fr && cr.callee != nil && cr.callee.Name() == "LooksLikeModbusTCP" {
			if t, ok := cr.res.(ATuple); ok && len(t) == 2 {
				if n, ok := t[0].(AInt); ok {
					a := n.a
					expected = &a
				}
				if ref, ok := t[1].(ARef); ok {
					verdict = ref.idSym
				}
			}
			if s, ok := cr.args[0].(ASlice); ok {
				rep("R15.1", s.ln.equal(L) && s.off.isConst() && s.off.c == 0, "the classifier sees the whole unread buffer", describeAV(cr.args[0]), "classifier-arg", posOfCall(c, cr))
			}
		}
	}
	if expected == nil {
		rep("R15.1", false, "no call of the stream classifier in the assembler step", "", "no-classifier", c.pos(step.Pos()))
		return fired
	}
	nNext := 0
	for _, cr := range an.calls {
		if cr.frame != fr || cr.callee == nil || cr.callee.String() != "(*bytes.Buffer).Next" {
			continue
		}
		nNext++
		n, ok := cr.args[1].(AInt)
		g := cr.ghost[bkey]
		pos := posOfCall(c, cr)
		rep("R15.1", ok && cr.state.entails(atomEQ(n.a, *expected)), "the number of bytes consumed is the classifier's expected frame length", describeAV(cr.args[1]), "next-count", pos)
		rep("R15.1", ok && cr.state.entails(atomLE(n.a, g.ln)) && cr.state.entails(atomGE(n.a, affConst(1))),
			"the frame is consumed only when the whole frame is buffered (n <= unread length)", "state: "+truncate(cr.state.String(), 300), "consume-before-complete", pos)
	}
	rep("R15.1", nNext == 1, "exactly one place consumes a frame from the buffer", fmt.Sprintf("%d", nNext), "next-sites", c.pos(step.Pos()))
	// parser input = the consumed frame
	for _, cr := range an.calls {
		if cr.frame == fr && cr.callee != nil && cr.callee.Name() == "ParseTCPRequest" {
			s, ok := cr.args[0].(ASlice)
			rep("R15.1", ok && cr.state.entails(atomEQ(s.ln, *expected)) && s.off.isConst() && s.off.c == 0, "the dispatcher parses exactly the consumed frame", describeAV(cr.args[0]), "parse-arg", posOfCall(c, cr))
		}
	}
	roles := c15ResultRoles(rr, step)
	if roles.resp < 0 || roles.closeC < 0 {
		rep("R15.2", false, "the step's result has no (reply bytes, flags) shape", step.Signature.String(), "result-shape", c.pos(step.Pos()))
		return fired
	}
	for _, rs0 := range fr.returns {
		if len(rs0.state) == 0 {
			continue
		}
		rs := rs0
		pos := c.pos(rs.instr.Pos())
		comps := rs.vals
		if roles.strct {
			comps = nil
			for i := 0; i < roles.n; i++ {
				comps = append(comps, an.u.fieldOf(rs.vals[0], i))
			}
		}
		reply := comps[roles.resp]
		var handled, closeC ABool
		closeC, _ = comps[roles.closeC].(ABool)
		if roles.handled >= 0 {
			handled, _ = comps[roles.handled].(ABool)
		} else {
			// (reply, closeConnection): a reply means the step handled something
			if v, ok := reply.(ASlice); ok && v.isNil {
				handled = ABool{formConst(false)}
			} else {
				handled = ABool{formConst(true)}
			}
		}
		if handled.f == nil || handled.f.kind != fConst {
			rep("R15.2", false, "isHandled is not a constant at this return", "", "handled-not-const", pos)
			continue
		}
		out := rs.ghost[bkey].ln
		if !handled.f.b {
			// wait for more: only when incomplete
			for _, cj := range rs.state {
				short := cj.entails(atomLE(L, affConst(7))) || cj.entails(atomLT(L, *expected))
				if !short {
					rep("R15.1", false, "'wait for more data' can be returned although a complete request is buffered", truncate(cj.String(), 300), "withholds-complete-request", pos)
				}
			}
			rep("R15.1", rs.state.entails(atomEQ(out, L)), "waiting leaves the buffer untouched", "", "wait-consumes", pos)
			if v, ok := reply.(ASlice); !ok || !v.isNil {
				rep("R15.1", false, "a reply is produced on a path that reports nothing handled", describeAV(reply), "reply-while-waiting", pos)
			}
			continue
		}
		consumed := rs.state.entails(atomEQ(out, L.sub(*expected))) || rs.state.entails(atomEQ(out, affConst(0)))
		closing := closeC.f != nil && closeC.f.kind == fConst && closeC.f.b
		if closeC.f == nil || closeC.f.kind != fConst || closeC.f.b {
			// the connection (and with it every request still buffered or on its way) is given up only
			// on the classifier's own verdict: the state pins the classifier's error to one sentinel
			pinned := false
			if verdict != nil {
				for id := int64(1); id <= int64(len(an.u.ids)); id++ {
					if rs.state.entails(atomEQ(affSym(verdict), affConst(id))) {
						pinned = true
					}
				}
			}
			rep("R15.2", pinned, "the connection is given up only where the classifier has declared the stream not to be Modbus TCP", "state: "+truncate(rs.state.String(), 300), "close-without-verdict", pos)
		}
		rep("R15.2", consumed, "a return that answers has removed exactly the answered frame (or everything) from the buffer", fmt.Sprintf("unread length after: %s, before: %s, frame: %s", out.String(), L.String(), expected.String()), "leftover-bytes", pos)
		if !consumed && closing {
			rep("R15.2", true, "connection is closed on this path", "", "", pos)
		}
	}
	return fired
}

func c15Loop(c *Ctx, r *Report, rr, step *ssa.Function) {
	id := fnID(rr)
	r.funcs[id] = true
	r.instance("R15.3", 1)
	rep := func(ok bool, what, detail, sig, pos string) {
		if ok {
			r.ok("R15.3", id, what, pos, true)
		} else {
			r.fail("R15.3", id, what, pos, detail, sig)
		}
	}
	var calls []*ssa.Call
	var write *ssa.Call
	for _, b := range rr.Blocks {
		for _, in := range b.Instrs {
			if cl, ok := in.(*ssa.Call); ok {
				if calleeOf(cl) == step {
					calls = append(calls, cl)
				}
				if sc := cl.Common().StaticCallee(); sc != nil && sc.String() == "(*bytes.Buffer).Write" {
					write = cl
				}
			}
		}
	}
	if len(calls) == 0 {
		rep(false, "ReceiveRead handles at most one request per read: it does not re-invoke a per-packet step in a loop", "", "no-loop", c.pos(rr.Pos()))
		return
	}
	call := calls[0]
	// appended bytes are exactly the received parameter
	if write != nil {
		okW := len(write.Common().Args) == 2 && write.Common().Args[1] == rr.Params[2] && write.Block() == rr.Blocks[0]
		rep(okW, "the bytes just read are appended to the buffer before anything else", "", "buffer-write", c.pos(write.Pos()))
	} else {
		rep(false, "ReceiveRead does not append the received bytes to its buffer", "", "no-buffer-write", c.pos(rr.Pos()))
	}
	// some step call lies on a cycle
	inCycle := false
	for _, cl := range calls {
		if blockReaches(cl.Block(), cl.Block()) {
			inCycle = true
		}
	}
	rep(inCycle, "the per-packet step is re-invoked in a loop, so several complete requests in the buffer are all answered", "", "no-loop", c.pos(call.Pos()))
	// "the result of the most recent step": the extract of the single call, or (for a loop with a
	// priming call before it and a second call at the end of the body) the phi merging the
	// extracts of all step calls
	roles := c15ResultRoles(rr, step)
	stepResult := func(k int) valSet {
		if k < 0 {
			return nil
		}
		return c15Component(rr, calls, roles.strct, k)
	}
	resp0, handled, closeC := stepResult(roles.resp), stepResult(roles.handled), stepResult(roles.closeC)
	afterStep := func(b *ssa.BasicBlock) bool {
		for _, cl := range calls {
			if cl.Block().Dominates(b) {
				return true
			}
		}
		return false
	}
	condOf := func(p *ssa.BasicBlock) (ssa.Value, bool, bool) {
		iff, ok := p.Instrs[len(p.Instrs)-1].(*ssa.If)
		if !ok {
			return nil, false, false
		}
		cond, neg := iff.Cond, false
		if u, ok := cond.(*ssa.UnOp); ok && u.Op == token.NOT {
			cond, neg = u.X, true
		}
		return cond, neg, true
	}
	// nothing is answered (and the connection is not given up) before the buffered requests have
	// been looked at: no return of ReceiveRead precedes the first step call
	early := ""
	for _, b := range rr.Blocks {
		if ret, ok := b.Instrs[len(b.Instrs)-1].(*ssa.Return); ok && !afterStep(b) {
			early = c.pos(ret.Pos())
		}
	}
	rep(early == "", "ReceiveRead returns only after the per-packet step has examined the buffer (no verdict on the raw buffer, which may hold several complete requests)", "return at "+early, "returns-before-step", c.pos(call.Pos()))
	// the reassembly buffer must survive between reads: the methods that touch it have pointer
	// receivers (a value receiver would work on a copy that is dropped on return)
	ptrRecv := true
	for _, f := range []*ssa.Function{rr, step} {
		if f.Signature.Recv() != nil {
			if _, isPtr := f.Signature.Recv().Type().(*types.Pointer); !isPtr {
				ptrRecv = false
			}
		}
	}
	rep(ptrRecv, "ReceiveRead and the per-packet step have pointer receivers, so bytes buffered by one read are still there for the next", "", "value-receiver", c.pos(rr.Pos()))
	// loop exits: only when the step reports nothing handled, or asks to close
	okExit := true
	for _, b := range rr.Blocks {
		if _, ok := b.Instrs[len(b.Instrs)-1].(*ssa.Return); !ok || !afterStep(b) {
			continue
		}
		okThis := false
		for _, p := range b.Preds {
			if cond, neg, ok := condOf(p); ok {
				if handled[cond] && ((p.Succs[1] == b) != neg) {
					okThis = true
				}
				if closeC[cond] && p.Succs[0] == b {
					okThis = true
				}
			}
		}
		if !okThis {
			okExit = false
		}
	}
	rep(okExit && len(handled) > 0, "the loop is left only when the step reports nothing (more) to handle or asks to close", "", "loop-exit", c.pos(call.Pos()))
	// order: response = append(response(carried), resp...)
	okOrder := false
	var accPhi *ssa.Phi
	var accAppend *ssa.Call
	for _, b := range rr.Blocks {
		for _, in := range b.Instrs {
			cl, ok := in.(*ssa.Call)
			if !ok {
				continue
			}
			bi, ok := cl.Common().Value.(*ssa.Builtin)
			if !ok || bi.Name() != "append" || len(cl.Common().Args) != 2 {
				continue
			}
			first, second := cl.Common().Args[0], cl.Common().Args[1]
			ph, firstIsPhi := first.(*ssa.Phi)
			if firstIsPhi && resp0[second] {
				// the phi is loop-carried with this append's result
				for _, e := range ph.Edges {
					if e == cl {
						okOrder = true
						accPhi, accAppend = ph, cl
					}
				}
			}
		}
	}
	rep(okOrder, "each reply is appended after the replies produced earlier in the same read (order preserved)", "", "reply-order", c.pos(call.Pos()))
	// what is handed back is the accumulated replies: every return inside the loop returns the
	// accumulator, and a return taken after this iteration's step produced a reply (close path)
	// returns the accumulator including that reply
	if okOrder {
		for _, b := range rr.Blocks {
			ret, ok := b.Instrs[len(b.Instrs)-1].(*ssa.Return)
			if !ok || !afterStep(b) || len(ret.Results) == 0 {
				continue
			}
			v := ret.Results[0]
			pos := c.pos(ret.Pos())
			switch {
			case v == ssa.Value(accAppend):
				rep(true, "returns the accumulated replies including the one just produced", "", "", pos)
			case v == ssa.Value(accPhi):
				// allowed only where the most recent step produced nothing: the branch on 'handled' (false edge)
				viaNotHandled := false
				for _, p := range b.Preds {
					if cond, neg, ok := condOf(p); ok && handled[cond] && ((p.Succs[1] == b) != neg) {
						viaNotHandled = true
					}
				}
				rep(viaNotHandled, "returns the replies accumulated so far when the step had nothing to handle", "", "drops-last-reply", pos)
			default:
				rep(false, "a return of the loop hands back something other than the accumulated replies: replies produced earlier in the same read are lost", v.String(), "returns-not-accumulator", pos)
			}
		}
	}
}

func c15Conn(c *Ctx, r *Report, h *ssa.Function) {
	id := fnID(h)
	r.funcs[id] = true
	r.instance("R15.4", 1)
	rep := func(ok bool, what, sig, pos string) {
		if ok {
			r.ok("R15.4", id, what, pos, true)
		} else {
			r.fail("R15.4", id, what, pos, "", sig)
		}
	}
	var read, recv, write *ssa.Call
	for _, b := range h.Blocks {
		for _, in := range b.Instrs {
			if cl, ok := in.(*ssa.Call); ok && cl.Common().IsInvoke() {
				switch cl.Common().Method.Name() {
				case "Read":
					if len(cl.Common().Args) == 1 {
						read = cl
					}
				case "ReceiveRead":
					recv = cl
				case "Write":
					write = cl
				}
			}
		}
	}
	if read == nil || recv == nil || write == nil {
		rep(false, "connection loop lacks Read / ReceiveRead / Write", "shape", c.pos(h.Pos()))
		return
	}
	var n ssa.Value
	if refs := read.Referrers(); refs != nil {
		for _, rf := range *refs {
			if e, ok := rf.(*ssa.Extract); ok && e.Index == 0 {
				n = e
			}
		}
	}
	okArg := false
	if sl, ok := recv.Common().Args[1].(*ssa.Slice); ok {
		lowOK := sl.Low == nil || isConstInt(sl.Low, 0)
		okArg = lowOK && sl.High == n && sl.X == read.Common().Args[0] && recv.Common().Args[2] == n
	}
	rep(okArg, "the assembler is handed exactly received[0:n] and n of the Read just made", "receive-arg", c.pos(recv.Pos()))
	var toSend ssa.Value
	if refs := recv.Referrers(); refs != nil {
		for _, rf := range *refs {
			if e, ok := rf.(*ssa.Extract); ok && e.Index == 0 {
				toSend = e
			}
		}
	}
	rep(len(write.Common().Args) == 1 && write.Common().Args[0] == toSend && recv.Block().Dominates(write.Block()), "the reply written is the one the assembler returned for this read", "write-arg", c.pos(write.Pos()))
	// write happens before the next Read: the write block is not the read block and lies on the path back
	rep(read.Block().Dominates(recv.Block()) && recv.Block().Dominates(write.Block()), "Read, assembler and Write happen in this order within one iteration", "order", c.pos(write.Pos()))
	// no byte that was read is dropped: the loop goes on to the next Read without having called the
	// assembler only when this Read delivered nothing (n == 0); it may also leave the loop (return)
	if n != nil {
		an := &Analysis{ctx: c, u: newUniverse(), top: h}
		fr := an.newFrame(h, nil, nil)
		fr.run(dnfTrue())
		nv, okN := fr.val(n).(AInt)
		hdrs := map[*ssa.BasicBlock]bool{}
		for _, b := range h.Blocks {
			for _, p := range b.Preds {
				if isBackEdge(p, b) && b.Dominates(read.Block()) {
					hdrs[b] = true
				}
			}
		}
		okDrop := okN && len(hdrs) > 0
		where := c.pos(read.Pos())
		for hdr := range hdrs {
			for _, p := range hdr.Preds {
				if !isBackEdge(p, hdr) || !read.Block().Dominates(p) || recv.Block().Dominates(p) {
					continue
				}
				st := fr.edge[[2]int{p.Index, hdr.Index}]
				if len(st) > 0 && !st.entails(atomLE(nv.a, affConst(0))) {
					okDrop = false
					where = c.pos(p.Instrs[len(p.Instrs)-1].Pos())
				}
			}
		}
		rep(okDrop, "the loop skips the assembler and reads again only when the Read delivered no bytes (n == 0): nothing that was read is dropped", "read-bytes-dropped", where)
	}
}

// c15Factory: R15.5 — per-connection reassembly state: every assembler factory the server package
// itself installs returns an object allocated by that very call (never a captured or
// package-level assembler that concurrent connections would share). The factory is then
// invoked once per accepted connection (checked on the connection handler).
func c15Factory(c *Ctx, r *Report) {
	sp := c.pkg("server")
	isFactory := func(t types.Type) bool {
		sig, ok := t.Underlying().(*types.Signature)
		if !ok || sig.Results().Len() != 1 {
			return false
		}
		return hasMethods(sig.Results().At(0).Type(), "ReceiveRead")
	}
	n := 0
	for _, fn := range c.allFuncs("server") {
		for _, b := range fn.Blocks {
			for _, in := range b.Instrs {
				st, ok := in.(*ssa.Store)
				if !ok || !isFactory(st.Val.Type()) {
					continue
				}
				if _, isField := st.Addr.(*ssa.FieldAddr); !isField {
					continue
				}
				var body *ssa.Function
				switch v := st.Val.(type) {
				case *ssa.MakeClosure:
					body, _ = v.Fn.(*ssa.Function)
				case *ssa.Function:
					body = v
				}
				if body == nil {
					continue // a caller-supplied factory: outside the property
				}
				n++
				r.instance("R15.5", 1)
				id := fnID(body)
				r.funcs[id] = true
				_, fr := analyse(c, body)
				okAll := len(fr.returns) > 0
				detail := ""
				for _, rs := range fr.returns {
					fresh := false
					if ifc, ok := rs.vals[0].(AIface); ok {
						if p, ok := ifc.val.(APtr); ok && p.obj != nil && !p.obj.symbolic && p.obj.alloc != nil && p.path == "" && allocatedUnder(fr, p.obj) {
							fresh = true // allocated by this call: in the factory itself or in a constructor it calls
						}
					}
					if !fresh {
						okAll = false
						detail = describeAV(rs.vals[0])
					}
				}
				if okAll {
					r.ok("R15.5", id, "the assembler factory installed by "+fn.Name()+" returns an assembler allocated by that very call", c.pos(st.Pos()), true)
				} else {
					r.fail("R15.5", id, "the assembler factory installed by "+fn.Name()+" can return an assembler that was not allocated by the call: connections would share one reassembly buffer", c.pos(st.Pos()), detail, "shared-assembler")
				}
			}
		}
	}
	// the factory is called inside the per-connection handler (once per connection, not per server)
	var handler *ssa.Function
	for _, fn := range c.allFuncs("server") {
		for _, b := range fn.Blocks {
			for _, in := range b.Instrs {
				call, ok := in.(*ssa.Call)
				if !ok || call.Common().IsInvoke() || call.Common().StaticCallee() != nil {
					continue
				}
				if !isFactory(call.Common().Value.Type()) {
					continue
				}
				handler = fn
				r.instance("R15.5", 1)
				n++
				// once per accepted connection: the call is dominated by the Accept of this iteration
				// and lies on the cycle back to it
				perConn := false
				for _, b2 := range fn.Blocks {
					for _, in2 := range b2.Instrs {
						if ac, ok := in2.(ssa.CallInstruction); ok && acceptsConnection(ac, 2) {
							if b2.Dominates(call.Block()) && blockReaches(call.Block(), b2) {
								perConn = true
							}
						}
					}
				}
				if perConn {
					r.ok("R15.5", fnID(fn), "the factory is invoked once per accepted connection (after each Accept, inside the accept loop)", c.pos(call.Pos()), true)
				} else {
					r.fail("R15.5", fnID(fn), "the assembler factory is not invoked once per accepted connection", c.pos(call.Pos()), "", "factory-not-per-connection")
				}
			}
		}
	}
	_ = handler
	_ = sp
	if n == 0 {
		r.undecided("R15.5", "server", "no assembler factory store or call found", "-")
	}
}

func hasConnField(t types.Type) bool {
	st, ok := deref(t).Underlying().(*types.Struct)
	if !ok {
		return false
	}
	for i := 0; i < st.NumFields(); i++ {
		if hasMethods(st.Field(i).Type(), "Read", "Write", "Close") {
			return true
		}
	}
	return false
}

func blockReaches(from, to *ssa.BasicBlock) bool {
	seen := map[*ssa.BasicBlock]bool{}
	var walk func(b *ssa.BasicBlock) bool
	walk = func(b *ssa.BasicBlock) bool {
		for _, s := range b.Succs {
			if s == to {
				return true
			}
			if !seen[s] {
				seen[s] = true
				if walk(s) {
					return true
				}
			}
		}
		return false
	}
	return walk(from)
}

// classifierPrefixOnly: the stream classifier is handed everything buffered so far, which may
// contain further (pipelined) requests: for 8 or more bytes its verdict must be a function of
// the first 8 bytes only. Two returns with different verdicts whose path conditions, with every
// condition on len(data) removed, can hold together mean the verdict depends on how many bytes
// happen to be buffered.
func classifierPrefixOnly(c *Ctx, r *Report, rule string) {
	cls := c.fnMust("packet", "LooksLikeModbusTCP")
	id := fnID(cls)
	r.funcs[id] = true
	r.instance(rule, 1)
	an, fr := analyse(c, cls)
	_ = an
	data, ok := fr.vals[cls.Params[0]].(ASlice)
	if !ok || len(data.ln.terms) != 1 {
		r.undecided(rule, id, "classifier input is not a plain byte slice parameter", c.pos(cls.Pos()))
		return
	}
	lenSym := data.ln.terms[0].s
	strip := func(cj Conj) Conj {
		var out Conj
		for _, a := range cj {
			if a.a.coef(lenSym) == 0 {
				out = append(out, a)
			}
		}
		return out
	}
	type site struct {
		class string
		pos   string
		conjs []Conj
	}
	var sites []site
	for _, rs := range fr.returns {
		var cs []Conj
		for _, cj := range rs.state {
			if infeasible(cj.with(atomGE(data.ln, affConst(8)))) {
				continue // the 'too short' region
			}
			cs = append(cs, strip(cj))
		}
		if len(cs) == 0 {
			continue
		}
		class := describeAV(rs.vals[1])
		if n, ok := rs.vals[0].(AInt); ok {
			class += "|" + n.a.String()
		}
		sites = append(sites, site{class, c.pos(rs.instr.Pos()), cs})
	}
	bad := ""
	pairs := 0
	for i := range sites {
		for j := i + 1; j < len(sites); j++ {
			if sites[i].class == sites[j].class {
				continue
			}
			pairs++
			for _, a := range sites[i].conjs {
				for _, b := range sites[j].conjs {
					if !infeasible(a.with(b...)) {
						bad = fmt.Sprintf("the returns at %s and %s give different verdicts for the same first 8 bytes, depending on len(data)", sites[i].pos, sites[j].pos)
					}
				}
			}
		}
	}
	if bad == "" && pairs > 0 {
		r.ok(rule, id, fmt.Sprintf("for 8 or more buffered bytes the verdict depends on the header bytes only (%d return pairs with different verdicts are separated by byte conditions alone)", pairs), c.pos(cls.Pos()), true)
	} else {
		if bad == "" {
			bad = "fewer than two distinct verdicts found"
		}
		r.fail(rule, id, "the classifier's verdict depends on how many bytes are buffered beyond the header (early next requests change the answer)", c.pos(cls.Pos()), bad, "verdict-depends-on-length")
	}
}

// c15NoAlias: R15.7 — the server hands the request parsers bytes that live in the assembler's
// reusable buffer; a parsed request that keeps a slice of its input is overwritten by the
// next read. Every slice-typed field of the object a request parser returns must be backed by
// memory the parser allocated itself.
func c15NoAlias(c *Ctx, r *Report, rule string) {
	for _, pi := range packetParsers(c, "packet", true) {
		if !pi.tcp {
			continue // the server only speaks TCP framing
		}
		r.instance(rule, 1)
		id := fnID(pi.fn)
		r.funcs[id] = true
		an, fr := analyse(c, pi.fn)
		_ = an
		data, ok := fr.vals[pi.fn.Params[0]].(ASlice)
		if !ok {
			r.undecided(rule, id, "parser input is not a byte slice", c.pos(pi.fn.Pos()))
			continue
		}
		bad := ""
		for _, rs := range fr.returns {
			p, isP := rs.vals[0].(APtr)
			if !isP || p.obj == nil || len(rs.state) == 0 {
				continue
			}
			val := fr.loadPath(p.obj, "", p.obj.typ, rs.instr)
			var walk func(v AV, depth int)
			walk = func(v AV, depth int) {
				if depth > 3 {
					return
				}
				switch x := v.(type) {
				case ASlice:
					if x.root == data.root && !x.isNil {
						bad = "a slice field of the returned request is " + describeAV(x)
					}
				case AStructLit:
					for _, f := range x.fields {
						walk(f, depth+1)
					}
				}
			}
			walk(val, 0)
		}
		if bad == "" {
			r.ok(rule, id, "the parsed request owns its payload (no slice field aliases the input buffer)", c.pos(pi.fn.Pos()), true)
		} else {
			r.fail(rule, id, "the parsed request keeps a slice of its input: the next read into the server's buffer changes a request that was already handed to the handler", c.pos(pi.fn.Pos()), bad, "request-aliases-input")
		}
	}
}

// allocatedUnder: the object was created while evaluating frame f or a frame inlined under it.
func allocatedUnder(f *Frame, o *Obj) bool {
	for _, x := range f.objs {
		if x == o {
			return true
		}
	}
	for _, ch := range f.child {
		if allocatedUnder(ch, o) {
			return true
		}
	}
	return false
}

// assemblerReceiveRead resolves the assembler's ReceiveRead as written in the source: the
// pointer-receiver method, or (if it was declared with a value receiver) that method rather
// than the synthetic pointer wrapper, so that rules see the real body.
func assemblerReceiveRead(c *Ctx) *ssa.Function {
	fn := c.fnMust("server", "*ModbusTCPAssembler.ReceiveRead")
	if fn.Synthetic != "" {
		if v := c.fnOpt("server", "ModbusTCPAssembler.ReceiveRead"); v != nil {
			return v
		}
	}
	return fn
}

// c15Roles names the components of the per-packet step's result by role. The result is either
// a tuple or a single struct; the reply is its []byte component, the flags are its bool
// components. With two flags, "handled" is the one the read loop tests first (its test
// dominates the other's), by default the first.
type c15Roles struct {
	strct                 bool
	n                     int
	resp, handled, closeC int
}

func c15ResultRoles(rr, step *ssa.Function) c15Roles {
	ro := c15Roles{resp: -1, handled: -1, closeC: -1}
	res := step.Signature.Results()
	var ts []types.Type
	if res.Len() == 1 {
		if st, ok := res.At(0).Type().Underlying().(*types.Struct); ok {
			ro.strct = true
			for i := 0; i < st.NumFields(); i++ {
				ts = append(ts, st.Field(i).Type())
			}
		}
	}
	if !ro.strct {
		for i := 0; i < res.Len(); i++ {
			ts = append(ts, res.At(i).Type())
		}
	}
	ro.n = len(ts)
	var bools []int
	for i, t := range ts {
		switch u := t.Underlying().(type) {
		case *types.Slice:
			if b, ok := u.Elem().Underlying().(*types.Basic); ok && b.Kind() == types.Uint8 && ro.resp < 0 {
				ro.resp = i
			}
		case *types.Basic:
			if u.Kind() == types.Bool {
				bools = append(bools, i)
			}
		}
	}
	switch len(bools) {
	case 1:
		ro.closeC = bools[0]
	case 2:
		ro.handled, ro.closeC = bools[0], bools[1]
		if rr != nil {
			var calls []*ssa.Call
			for _, b := range rr.Blocks {
				for _, in := range b.Instrs {
					if cl, ok := in.(*ssa.Call); ok && cl.Common().StaticCallee() == step {
						calls = append(calls, cl)
					}
				}
			}
			testOf := func(k int) *ssa.BasicBlock {
				v := c15Component(rr, calls, ro.strct, k)
				for _, b := range rr.Blocks {
					if iff, ok := b.Instrs[len(b.Instrs)-1].(*ssa.If); ok {
						cond := iff.Cond
						if u, ok := cond.(*ssa.UnOp); ok && u.Op == token.NOT {
							cond = u.X
						}
						if v[cond] {
							return b
						}
					}
				}
				return nil
			}
			t0, t1 := testOf(bools[0]), testOf(bools[1])
			if t0 != nil && t1 != nil && t0 != t1 && t1.Dominates(t0) {
				ro.handled, ro.closeC = bools[1], bools[0]
			}
		}
	}
	return ro
}

// valSet is a set of SSA values that all denote the same quantity.
type valSet map[ssa.Value]bool

// c15Component returns the values, in rr, that denote component k of "the result of the most
// recent step": the extract (tuple) or field selection (struct value, or loads of that field of
// a local that only ever holds step results) of the single call, or — for a loop with a priming
// call before it and a second call at the end of the body — the phi merging the components of
// all step calls.
func c15Component(rr *ssa.Function, calls []*ssa.Call, strct bool, k int) valSet {
	var exs []ssa.Value
	loads := valSet{}
	add := func(v ssa.Value) {
		for _, x := range exs {
			if x == v {
				return
			}
		}
		exs = append(exs, v)
	}
	isStep := func(v ssa.Value) bool {
		for _, cl := range calls {
			if v == ssa.Value(cl) {
				return true
			}
		}
		return false
	}
	var fromValue func(v ssa.Value, depth int)
	fromValue = func(v ssa.Value, depth int) {
		refs := v.Referrers()
		if refs == nil || depth > 2 {
			return
		}
		for _, rf := range *refs {
			switch e := rf.(type) {
			case *ssa.Extract:
				if !strct && e.Index == k {
					add(e)
				}
			case *ssa.Field:
				if strct && e.Field == k {
					add(e)
				}
			case *ssa.Phi:
				if strct {
					fromValue(e, depth+1) // the struct itself is merged, then selected from
				}
			case *ssa.Store:
				// `next := step()`: a local that is only ever assigned whole step results and read
				// field by field; every load of field k is component k of the latest step
				al, ok := e.Addr.(*ssa.Alloc)
				if !ok || !strct || e.Val != v || al.Referrers() == nil {
					continue
				}
				clean := true
				var lds []ssa.Value
				for _, ar := range *al.Referrers() {
					switch x := ar.(type) {
					case *ssa.Store:
						if x.Addr != ssa.Value(al) || !isStep(x.Val) {
							clean = false
						}
					case *ssa.FieldAddr:
						if x.Referrers() == nil {
							continue
						}
						for _, fr := range *x.Referrers() {
							ld, isLd := fr.(*ssa.UnOp)
							if !isLd || ld.Op != token.MUL {
								clean = false
							} else if x.Field == k {
								lds = append(lds, ld)
							}
						}
					case *ssa.DebugRef:
					default:
						clean = false
					}
				}
				if clean {
					for _, ld := range lds {
						loads[ld] = true
					}
				}
			}
		}
	}
	for _, cl := range calls {
		fromValue(cl, 0)
	}
	if len(loads) > 0 && len(exs) == 0 && len(calls) == 1 {
		return loads
	}
	if len(exs) == 1 && len(loads) == 0 {
		return valSet{exs[0]: true}
	}
	if len(calls) == 1 || len(exs) == 0 || len(loads) > 0 {
		return nil
	}
	for _, b := range rr.Blocks {
		for _, in := range b.Instrs {
			ph, ok := in.(*ssa.Phi)
			if !ok {
				break
			}
			if len(ph.Edges) != len(exs) {
				continue
			}
			all := true
			for _, e := range ph.Edges {
				hit := false
				for _, x := range exs {
					if e == x {
						hit = true
					}
				}
				if !hit {
					all = false
				}
			}
			if all {
				return valSet{ph: true}
			}
		}
	}
	return nil
}

func init() {
	controls["C15"] = func(c *Ctx, r *Report) {
		run := func(name string) map[string]bool {
			return c15Step(c, nil, nil, c.fnMust("cserver", "*Asm."+name))
		}
		good := run("StepGood")
		r.controls["C15/negative-control-silent"] = len(good) == 0
		r.controls["C15/R15.1-consume-before-complete"] = run("StepEager")["R15.1:consume-before-complete"]
		r.controls["C15/R15.1-withholds-complete-request"] = run("StepWithholds")["R15.1:withholds-complete-request"]
		r.controls["C15/R15.2-leftover-bytes"] = run("StepLeftover")["R15.2:leftover-bytes"] || run("StepLeftover")["R15.1:next-count"]
	}
}

// acceptsConnection: the call is Accept on a listener interface, or a call of a module function
// that (to the given depth) makes such a call on every path is not required — it is enough that
// it is the only way it obtains a connection: a forwarder method.
func acceptsConnection(ci ssa.CallInstruction, depth int) bool {
	cm := ci.Common()
	if cm.IsInvoke() {
		return cm.Method.Name() == "Accept"
	}
	sc := cm.StaticCallee()
	if sc == nil || sc.Blocks == nil || depth == 0 || ci.Parent() == nil || sc.Pkg != ci.Parent().Pkg && (ci.Parent().Parent() == nil || sc.Pkg != ci.Parent().Parent().Pkg) {
		return false
	}
	// the callee returns a net.Conn-like value (an interface with Read, Write and Close)
	res := sc.Signature.Results()
	if res.Len() == 0 {
		return false
	}
	it, ok := res.At(0).Type().Underlying().(*types.Interface)
	if !ok {
		return false
	}
	has := map[string]bool{}
	for i := 0; i < it.NumMethods(); i++ {
		has[it.Method(i).Name()] = true
	}
	if !has["Read"] || !has["Write"] || !has["Close"] {
		return false
	}
	for _, b := range sc.Blocks {
		for _, in := range b.Instrs {
			if c2, ok := in.(ssa.CallInstruction); ok && acceptsConnection(c2, depth-1) {
				return true
			}
		}
	}
	return false
}
