package main

// Abstract values of the numeric engine (DESIGN 1.2/1.3).

import (
	"fmt"
	"go/types"
	"strings"

	"golang.org/x/tools/go/ssa"
)

type AV interface{}

// wrapCond: the mathematical value `a` must lie in [lo,hi] for the machine value to
// equal it (rule W). Checked against the facts in force at each use.
type wrapCond struct {
	a      Aff
	lo, hi int64
	what   string // description of the instruction
	pos    string
}

// AInt is an integer value: mathematical form a, exact only if all conds hold;
// otherwise the value is the opaque symbol fallback (full type range).
type AInt struct {
	a        Aff
	conds    []wrapCond
	fallback *Sym
}

// ABool is a boolean value as a formula over atoms.
type ABool struct{ f *Form }

// Root identifies a backing array (a parameter slice, a make, a local array, a field).
type Root struct {
	key    string
	fresh  bool // allocated inside the analysed code (make / local array): cap == len
	writes []*Write
	// copyOf: set when the whole root was initialised by one copy from another slice
	elemBool bool
	ln       Aff // total length of the root
	// elemWritten: some element (or a field of one) of a struct-element slice was stored to;
	// element fields then no longer have a canonical input value
	elemWritten bool
	// extVer counts hand-overs of (a slice of) this buffer to code the analysis does not follow (an
	// interface method such as Read, a function outside the module): its bytes are then whatever
	// that code left there, not what the analysed code wrote or the zero value
	extVer int
	// spare: made with an explicit capacity larger than its length (make([]T, n, c)): ln is the
	// capacity, and an append that provably fits writes into this root
	spare bool
}

// ASlice is a view [off, off+ln) of a root.
type ASlice struct {
	root   *Root
	off    Aff
	ln     Aff
	nilSym *Sym // boolean symbol "slice is nil" (may be nil if known non-nil)
	elem   types.Type
	isNil  bool // the nil slice constant
}

// APtr points into an object (field path) or to a slice/array element.
type APtr struct {
	obj   *Obj
	path  string // field path like ".1.0"
	typ   types.Type
	slice *ASlice // element pointer: slice + index
	idx   *AInt
	null  bool
	tbl   *constTable // element pointer into a constant table (consttable.go): idx + path
}

// Obj is an abstract memory object.
type Obj struct {
	key      string
	symbolic bool // contents are symbolic fields keyed by key+path (parameter pointee / spilled parameter)
	stores   map[string][]storeRec
	alloc    *ssa.Alloc
	escaped  bool
	// shared: the address was handed to an inlined callee, which may store through it; loads are
	// then resolved from the recorded stores of all frames only (never from this function's own
	// syntactic store counts)
	shared    bool
	typ       types.Type
	arrRoot   *Root            // for array-typed allocs
	arrFields map[string]*Root // array-typed fields written element-wise
}

type storeRec struct {
	val   AV
	instr ssa.Instruction
	state DNF
	seq   int    // global evaluation order of the store
	frame *Frame // frame in which the store was evaluated
	// approx: some path state had been widened (compress beyond dnfCap) before this store was
	// evaluated, so `state` may be weaker than the store's real path condition and must not be
	// used to conclude that the store was executed (only that it was not)
	approx bool
}

// AStruct is a symbolic struct value (fields derived lazily from key).
type AStruct struct {
	key string
	typ types.Type
}

// AStructLit is a struct value with explicit field values.
type AStructLit struct {
	typ    types.Type
	fields []AV
}

type ATuple []AV

// AFloat is a rational num/den (den>0), possibly already rounded up.
type AFloat struct {
	num    AInt
	den    int64
	ceiled bool
}

type AOpaque struct {
	key string
	typ types.Type
}

type AFunc struct {
	fn   *ssa.Function
	recv AV // bound receiver of a method value (x.M), nil otherwise
	// free: the values of the variables a function literal captured, in the order of fn.FreeVars
	// (pointers to the enclosing function's cells); nil for plain functions
	free []AV
}

// AFuncSet is "one of these known functions": the value of a function-typed variable assigned on
// several paths. sel identifies the alternative (bound per incoming edge like any merged value),
// so a call through it is evaluated per alternative under sel == i.
type AFuncSet struct {
	key  string
	alts []AFunc
	sel  *Sym
}
type AGlobal struct{ g *ssa.Global }

// AIface is a value boxed into an interface (MakeInterface).
type AIface struct {
	val AV
	typ types.Type // dynamic type
}

type ANil struct{ typ types.Type }

// AGlobalVal is the value loaded from a package-level variable.
type AGlobalVal struct {
	g      *ssa.Global
	nonNil bool // only ever assigned in its package initialiser
}

// ---- boolean formulas ----

type formKind int

const (
	fAtom formKind = iota
	fAnd
	fOr
	fNot
	fConst
	fPair // explicit positive / negative DNFs
)

type Form struct {
	kind     formKind
	atom     Atom
	l, r     *Form
	b        bool
	pos, neg DNF
}

func formAtom(a Atom) *Form  { return &Form{kind: fAtom, atom: a} }
func formConst(b bool) *Form { return &Form{kind: fConst, b: b} }
func formNot(f *Form) *Form  { return &Form{kind: fNot, l: f} }
func formAnd(a, b *Form) *Form {
	return &Form{kind: fAnd, l: a, r: b}
}
func formOr(a, b *Form) *Form { return &Form{kind: fOr, l: a, r: b} }

// dnf converts the formula (or its negation) to DNF.
func (f *Form) dnf(neg bool) DNF {
	switch f.kind {
	case fConst:
		if f.b != neg {
			return dnfTrue()
		}
		return nil
	case fAtom:
		if !neg {
			return DNF{Conj{f.atom}}
		}
		var d DNF
		for _, n := range f.atom.negate() {
			d = append(d, Conj{n})
		}
		return d
	case fNot:
		return f.l.dnf(!neg)
	case fPair:
		if neg {
			return f.neg
		}
		return f.pos
	case fAnd, fOr:
		isAnd := (f.kind == fAnd) != neg
		a, b := f.l.dnf(neg), f.r.dnf(neg)
		if isAnd {
			return dnfAnd(a, b)
		}
		return append(append(DNF{}, a...), b...)
	}
	return dnfTrue()
}

func dnfAnd(a, b DNF) DNF {
	var r DNF
	for _, x := range a {
		for _, y := range b {
			r = append(r, x.with(y...))
		}
	}
	return r
}

func (f *Form) String() string {
	switch f.kind {
	case fConst:
		return fmt.Sprint(f.b)
	case fAtom:
		return f.atom.String()
	case fNot:
		return "!(" + f.l.String() + ")"
	case fPair:
		return "{" + f.pos.String() + " / " + f.neg.String() + "}"
	case fAnd:
		return "(" + f.l.String() + " && " + f.r.String() + ")"
	}
	return "(" + f.l.String() + " || " + f.r.String() + ")"
}

// ---- type ranges ----

func intRange(t types.Type) (lo, hi int64, ok bool) {
	b, isB := t.Underlying().(*types.Basic)
	if !isB {
		return 0, 0, false
	}
	switch b.Kind() {
	case types.Uint8:
		return 0, 255, true
	case types.Int8:
		return -128, 127, true
	case types.Uint16:
		return 0, 65535, true
	case types.Int16:
		return -32768, 32767, true
	case types.Uint32:
		return 0, 1<<32 - 1, true
	case types.Int32:
		return -(1 << 31), 1<<31 - 1, true
	case types.Int, types.Int64, types.UntypedInt:
		return -bigNum, bigNum, true
	case types.Uint, types.Uint64, types.Uintptr:
		return 0, bigNum, true
	}
	return 0, 0, false
}

func isIntType(t types.Type) bool {
	_, _, ok := intRange(t)
	return ok
}

func isBoolType(t types.Type) bool {
	b, ok := t.Underlying().(*types.Basic)
	return ok && b.Info()&types.IsBoolean != 0
}

func isFloatType(t types.Type) bool {
	b, ok := t.Underlying().(*types.Basic)
	return ok && b.Info()&types.IsFloat != 0
}

// isNarrow: arithmetic in this type can wrap within the modelled range.
func isNarrow(t types.Type) bool {
	lo, hi, ok := intRange(t)
	return ok && (hi < bigNum || lo > -bigNum) && !(lo == 0 && hi == bigNum)
}

// maxLen is the modelling bound on slice lengths (assumption recorded in evidence).
const maxLen = int64(1) << 31

// symbolic builds a symbolic value of type t named key.
func (u *Universe) symbolic(key string, t types.Type) AV {
	switch tt := t.Underlying().(type) {
	case *types.Basic:
		if lo, hi, ok := intRange(t); ok {
			return AInt{a: affSym(u.sym(key, lo, hi))}
		}
		if isBoolType(t) {
			s := u.boolSym(key)
			return ABool{formAtom(atomEQ(affSym(s), affConst(1)))}
		}
		return AOpaque{key, t}
	case *types.Slice:
		ln := u.sym("len("+key+")", 0, maxLen)
		r := &Root{key: key, ln: affSym(ln)}
		if isBoolType(tt.Elem()) {
			r.elemBool = true
		}
		ns := u.boolSym("nil(" + key + ")")
		return ASlice{root: r, off: Aff{}, ln: affSym(ln), nilSym: ns, elem: tt.Elem()}
	case *types.Struct:
		return AStruct{key, t}
	case *types.Array:
		// arrays are modelled as fixed-length views
		r := &Root{key: key, ln: affConst(tt.Len())}
		return ASlice{root: r, off: Aff{}, ln: affConst(tt.Len()), elem: tt.Elem()}
	case *types.Pointer:
		o := &Obj{key: "*" + key, symbolic: true, typ: tt.Elem()}
		return APtr{obj: o, typ: tt.Elem()}
	}
	return AOpaque{key, t}
}

// fieldOf projects field i of a struct-ish abstract value.
func (u *Universe) fieldOf(v AV, i int) AV {
	switch s := v.(type) {
	case AStruct:
		st := s.typ.Underlying().(*types.Struct)
		f := st.Field(i)
		return u.symbolic(s.key+"."+f.Name(), f.Type())
	case AStructLit:
		if i < len(s.fields) && s.fields[i] != nil {
			return s.fields[i]
		}
		st := s.typ.Underlying().(*types.Struct)
		return zeroValue(st.Field(i).Type())
	}
	return AOpaque{"?field", nil}
}

func zeroValue(t types.Type) AV {
	switch tt := t.Underlying().(type) {
	case *types.Basic:
		if isIntType(t) {
			return AInt{a: affConst(0)}
		}
		if isBoolType(t) {
			return ABool{formConst(false)}
		}
	case *types.Slice:
		return ASlice{isNil: true, root: &Root{key: "nil", ln: Aff{}}, elem: tt.Elem()}
	case *types.Struct:
		fs := make([]AV, tt.NumFields())
		for i := range fs {
			fs[i] = zeroValue(tt.Field(i).Type())
		}
		return AStructLit{typ: t, fields: fs}
	case *types.Array:
		r := &Root{key: "zeroarray", fresh: true, ln: affConst(tt.Len())}
		return ASlice{root: r, off: Aff{}, ln: affConst(tt.Len()), elem: tt.Elem()}
	case *types.Pointer, *types.Interface, *types.Signature, *types.Map, *types.Chan:
		return ANil{t}
	}
	return AOpaque{"zero", t}
}

func pathStr(path string, i int) string { return fmt.Sprintf("%s.%d", path, i) }

func describeAV(v AV) string {
	switch x := v.(type) {
	case AInt:
		s := x.a.String()
		if len(x.conds) > 0 {
			s += "{wrap?}"
		}
		return s
	case ABool:
		return x.f.String()
	case ASlice:
		if x.isNil {
			return "nil"
		}
		return fmt.Sprintf("%s[%s:+%s]", x.root.key, x.off.String(), x.ln.String())
	case APtr:
		if x.null {
			return "nil"
		}
		if x.obj != nil {
			return "&" + x.obj.key + x.path
		}
		return "&elem"
	case AStruct:
		return x.key
	case AStructLit:
		var sb strings.Builder
		sb.WriteString("{")
		for i, f := range x.fields {
			if i > 0 {
				sb.WriteString(", ")
			}
			sb.WriteString(describeAV(f))
		}
		sb.WriteString("}")
		return sb.String()
	case AIface:
		return "iface(" + describeAV(x.val) + ")"
	case ANil:
		return "nil"
	case ARef:
		if x.inner != nil {
			return "ref(" + x.key + "=" + describeAV(x.inner) + ")"
		}
		return "ref(" + x.key + ")"
	case AGlobalVal:
		return "global:" + x.g.String()
	case AFloat:
		return fmt.Sprintf("float(%s/%d)", x.num.a.String(), x.den)
	case AOpaque:
		return "opaque(" + x.key + ")"
	case AFunc:
		if x.recv != nil {
			return x.fn.String() + "[" + describeAV(x.recv) + "]"
		}
		return x.fn.String()
	case AFuncSet:
		return "funcs(" + x.key + ")"
	case ATuple:
		ss := make([]string, len(x))
		for i, e := range x {
			ss[i] = describeAV(e)
		}
		return "(" + strings.Join(ss, ", ") + ")"
	case nil:
		return "<nil>"
	}
	return fmt.Sprintf("%T", v)
}

// addWrite records a write on the root. A function with a loop is evaluated in several passes
// and an inlined callee once per evaluation of its call; a root that outlives those evaluations
// (a buffer the caller passed in) would otherwise collect the same write several times. The
// record made by the same instruction of the same function at the same offset is replaced.
func (r *Root) addWrite(w *Write) {
	for i, old := range r.writes {
		if old.pos == w.pos && old.kind == w.kind && old.fn == w.fn && old.off.String() == w.off.String() {
			r.writes[i] = w
			return
		}
	}
	r.writes = append(r.writes, w)
}
