package main

// C07 — clients return the complete reply however the transport fragments it
// (structural clauses; DESIGN §3 C07).

import (
	"fmt"
	"go/types"

	"golang.org/x/tools/go/ssa"
)

func init() {
	register("C07", checkC07, "Transport scheduling and timing are NOT decided. Decided necessary conditions: R7.1 for each of the 20 request types the value of ExpectedResponseLength(), evaluated symbolically under the constructor's success state, equals the length of the reply the specification prescribes for that request (8/4 bytes of framing + payload determined by the quantity) — too short lets the read loop stop on a truncated frame for some cut, too long makes a complete reply time out. R7.2 in both clients' read loops: each Read targets received[total:...] with total the loop-carried sum 0, total+n of the counts Read returned; the only exits to the success return are total >= expectedLen (and EOF for the network client); expectedLen and the written bytes are req.ExpectedResponseLength() and req.Bytes() of this call; the value returned is a copy of received[0:total]; tolerated read errors are exactly deadline-exceeded and EOF. R7.3 the protocol-error recogniser is applied to received[0:total] in every iteration before the completeness test and its non-nil result is returned wrapped in *ClientError. R7.4 the recognisers the constructors install claim only exception frames of their framing (never a prefix of a normal reply). R7.5 the timeout that bounds reassembly is a proven-positive duration taken from the configuration's read timeout under a guard on that same field, and constructors hand the caller's timeouts on. R7.6 the reply parsers accept and decode every well-formed reply (C02 R2.1 + R2.6). R7.7 the loop's oversize limit is the ADU size, so a legal reply is never refused as too long. R7.5 also requires guard purity (the configured read timeout is applied under a condition on that field alone). R7.6 includes the dispatcher acceptance rule (no well-formed size is refused before the per-function parser). R7.9 = C02 R2.7 (never neither reply nor error). R7.10 = C08 R8.7 (Connect stores the dialer's own connection).")
}

func checkC07(c *Ctx, r *Report) {
	r.floor("R7.1", 20)
	r.floor("R7.2", 2)
	r.floor("R7.3", 2)
	// ---- R7.1 ----
	crc := c.fnMust("packet", "CRC16")
	reqs := requestTypes(c, "packet")
	for _, m := range bytesMethods(c, "packet") {
		tn := m.Signature.Recv().Type().(*types.Named)
		if !reqs[tn] {
			continue
		}
		tcp := hasMBAP(tn)
		if !tcp && !callsDirect(m, crc) {
			continue
		}
		r.instance("R7.1", 1)
		c07Expected(c, r, tn, tcp, false)
	}
	// ---- R7.2 / R7.3 ----
	for _, spec := range []struct {
		name   string
		serial bool
	}{{"Client", false}, {"SerialClient", true}} {
		ci := analyseClient(c, spec.name, spec.serial)
		r.instance("R7.2", 1)
		r.instance("R7.3", 1)
		r.funcs[fnID(ci.Do)] = true
		r.funcs[fnID(ci.do)] = true
		c07Loop(c, r, ci, false)
	}
	// ---- R7.4: the recogniser consulted after every chunk must never claim a prefix of a normal
	// reply (or a complete normal reply) as an exception: non-nil only for an exception frame
	{
		installedRecognisers(c, r, "R7.4", crc, nil)
		r.floor("R7.4", 2)
	}
	// ---- R7.6: once reassembled, a well-formed reply is accepted and decoded: the response
	// parsers return exactly the encoded value for every frame the specification allows (the
	// C02 R2.1 symbolic round trip, which includes acceptance at the minimum and maximum sizes)
	{
		tmp := newReport(r.Prop, r.Tier)
		for _, pi := range packetParsers(c, "packet", false) {
			c02RoundTrip(c, tmp, pi, crc, false)
		}
		for _, name := range []string{"ParseTCPResponse", "ParseRTUResponse"} {
			c02Dispatcher(c, tmp, c.fnMust("packet", name), name == "ParseTCPResponse", false)
		}
		r.instance("R7.6", copyItems(tmp, r, "R2.1", "R7.6")+copyItems(tmp, r, "R2.6", "R7.6"))
		r.floor("R7.6", 20)
	}
	// ---- R7.10: the client reads from the very connection the dialer returned: Connect stores the
	// dial result itself (a wrapper defined in between could deliver bytes and errors differently
	// from the transport) and only after its error was found nil (C08 R8.7)
	connectStores(c, r, "R7.10")
	r.floor("R7.10", 1)
	// ---- R7.9: whatever reaches the reply dispatchers comes back as a reply or as an error, never
	// as neither (a truncated frame must not be reported as success without a reply) (C02 R2.7)
	c02NeverNeither(c, r, "R7.9")
	r.floor("R7.9", 6)
	// ---- R7.7: a complete legal reply is never refused as oversized: the length limit the read
	// loop applies is the specification's ADU size (C08 R8.4)
	for _, spec := range []struct {
		name   string
		serial bool
	}{{"Client", false}, {"SerialClient", true}} {
		ci := analyseClient(c, spec.name, spec.serial)
		tmp := newReport(r.Prop, r.Tier)
		c08Client(c, tmp, ci, false)
		r.instance("R7.7", copyItems(tmp, r, "R8.4", "R7.7", "ErrPacketTooLong is returned only when", "a frame handed to the parser has at most"))
	}
	r.floor("R7.7", 2)
	// ---- R7.5: the total read timeout that bounds reassembly is a positive duration, taken from
	// the configuration's read timeout when that is set
	cfgStores(c, r, "R7.5", true, false)
	cfgPassThrough(c, r, "R7.5", func(f *types.Var) bool { return isDuration(f.Type()) })
	r.floor("R7.5", 8)
	r.assumption("io.Reader contract 0 <= n <= len(p); errors.Is is an uninterpreted predicate of (error, target)")
	r.assumption("reply length prescribed by the specification: framing (8 bytes TCP, 4 bytes RTU incl. CRC) + 1+ceil(q/8) (FC1/2), 1+2q (FC3/4/23), 4 (FC5/6/15/16); FC17 replies are device-specific")
}

// c07Expected: R7.1 for one request type.
func c07Expected(c *Ctx, r *Report, tn *types.Named, tcp, control bool) map[string]bool {
	fired := map[string]bool{}
	var m *ssa.Function
	ms := c.prog.MethodSets.MethodSet(tn)
	for i := 0; i < ms.Len(); i++ {
		if ms.At(i).Obj().Name() == "ExpectedResponseLength" {
			m = c.prog.MethodValue(ms.At(i))
		}
	}
	id := tn.Obj().Pkg().Name() + "." + tn.Obj().Name() + ".ExpectedResponseLength"
	if m == nil {
		return fired
	}
	pos := c.pos(m.Pos())
	if !control {
		r.funcs[id] = true
	}
	rep := func(ok bool, what, detail, sig string) {
		if !ok {
			fired[sig] = true
		}
		if control {
			return
		}
		if ok {
			r.ok("R7.1", id, what, pos, true)
		} else {
			r.fail("R7.1", id, what, pos, detail, sig)
		}
	}
	an := &Analysis{ctx: c, u: newUniverse(), top: m}
	pkgRel := pkgRelOfPath(c, tn.Obj().Pkg().Path())
	recv, st, _, ok := encoderInstance(c, an, pkgRel, tn)
	if !ok {
		if !control {
			r.undecided("R7.1", id, "constructor not interpretable", pos)
		}
		return fired
	}
	fr := runMethod(an, m, recv, st)
	if len(fr.returns) != 1 {
		rep(false, "ExpectedResponseLength has more than one return", "", "shape")
		return fired
	}
	ev, isI := fr.returns[0].vals[0].(AInt)
	if !isI {
		rep(false, "ExpectedResponseLength is not an integer expression", "", "shape")
		return fired
	}
	rst := fr.returns[0].state
	E := fr.useIn(ev, rst, "expected length")
	fc, _ := functionCodeOf(c, tn)
	sp := specFor(fc)
	if sp == nil {
		return fired
	}
	base := int64(4)
	if tcp {
		base = 8
	}
	q := func(name string) (Aff, bool) {
		fv, _, ok := findField(an.u, recv, tn, name, 0)
		ai, isI := fv.(AInt)
		if !ok || !isI {
			return Aff{}, false
		}
		return fr.useIn(ai, rst, name), true
	}
	var want Aff
	known := true
	switch fc {
	case 1, 2:
		qa, ok := q("Quantity")
		known = ok
		want = affSym(fr.ceilDivSym(qa, 8)).addc(base + 1)
	case 3, 4:
		qa, ok := q("Quantity")
		known = ok
		want = qa.scale(2).addc(base + 1)
	case 23:
		qa, ok := q("ReadQuantity")
		known = ok
		want = qa.scale(2).addc(base + 1)
	case 5, 6, 15, 16:
		want = affConst(base + 4)
	case 17:
		// device-specific: at least unit+fc+bytecount+1 id byte+status (+CRC)
		rep(false, "reply to Read Server ID has a device-specific length; a constant expected length cannot be right", fmt.Sprintf("expected=%s, true length >= %d and depends on the device", E.String(), base+3),
			"expected="+E.String()+" true=device-specific")
		return fired
	}
	if !known {
		if !control {
			r.undecided("R7.1", id, "quantity field not found", pos)
		}
		return fired
	}
	if rst.entails(atomEQ(E, want)) {
		rep(true, fmt.Sprintf("ExpectedResponseLength = %s = length of the specified FC%d reply", want.String(), fc), "", "")
	} else {
		d := E.sub(want)
		dir := ""
		if rst.entails(atomGE(E, want)) {
			dir = "; never-short: the loop never stops before the whole reply has been read"
		}
		rep(false, fmt.Sprintf("ExpectedResponseLength differs from the length of the specified FC%d reply", fc),
			fmt.Sprintf("expected=%s, specified reply length=%s (difference %s%s)", E.String(), want.String(), d.String(), dir), "expected="+E.String()+" true="+want.String())
	}
	return fired
}

func pkgRelOfPath(c *Ctx, p string) string {
	if len(p) > len(c.modRoot) {
		return p[len(c.modRoot)+1:]
	}
	return ""
}

// c07Loop: R7.2 and R7.3 on a client's Do/do.
func c07Loop(c *Ctx, r *Report, ci *clientInfo, control bool) map[string]bool {
	fired := map[string]bool{}
	id := fnID(ci.do)
	rep := func(rule string, ok bool, what, detail, sig, pos string) {
		if !ok {
			fired[rule+":"+sig] = true
		}
		if control {
			return
		}
		if ok {
			r.ok(rule, id, what, pos, true)
		} else {
			r.fail(rule, id, what, pos, detail, sig)
		}
	}
	if ci.problem != "" {
		fired["undecided"] = true
		if !control {
			r.undecided("R7.2", id, ci.problem, c.pos(ci.do.Pos()))
		}
		return fired
	}
	fr := ci.inner
	rpos := posOfCall(c, ci.read)
	sum := ci.total.add(ci.n)
	// total is the loop-carried sum 0, total+n
	pv, _ := fr.vals[ci.phi].(AInt)
	okPhi := pv.a.equal(ci.total) && len(ci.phi.Edges) == 2
	initOK, stepOK := false, false
	for i, e := range ci.phi.Edges {
		ev, ok := fr.intVal(e)
		if !ok {
			continue
		}
		if isBackEdge(ci.phi.Block().Preds[i], ci.phi.Block()) {
			stepOK = ev.a.equal(sum) && len(ev.conds) == 0
		} else {
			initOK = ev.a.isConst() && ev.a.c == 0
		}
	}
	rep("R7.2", okPhi && initOK && stepOK, "each Read targets received[total:...] where total starts at 0 and advances by exactly the count that Read returned", fmt.Sprintf("total=%s init0=%v step=%v", ci.total.String(), initOK, stepOK), "total-accumulation", rpos)
	// expectedLen and data come from this call's request
	var doCall *CallRec
	for _, cr := range ci.an.calls {
		if ci.inTop(cr) && cr.callee == ci.do {
			doCall = cr
		}
	}
	expOK, dataOK := false, false
	var expected Aff
	if doCall != nil && len(doCall.args) == 4 {
		for _, cr := range ci.an.calls {
			if !ci.inTop(cr) || cr.method == "" {
				continue
			}
			if p, ok := cr.recv.(AOpaque); !ok || p.key != ci.Do.Params[2].Name() {
				if rr, ok := cr.recv.(ARef); !ok || rr.key != ci.Do.Params[2].Name() {
					continue
				}
			}
			if cr.method == "ExpectedResponseLength" {
				if a, ok := doCall.args[3].(AInt); ok {
					if b, ok := cr.res.(AInt); ok && a.a.equal(b.a) {
						expOK = true
						expected = a.a
					}
				}
			}
			if cr.method == "Bytes" && describeAV(cr.res) == describeAV(doCall.args[2]) {
				dataOK = true
			}
		}
	}
	rep("R7.2", expOK && dataOK, "do() is given req.Bytes() and req.ExpectedResponseLength() of this very request", fmt.Sprintf("expected=%v data=%v", expOK, dataOK), "do-arguments", c.pos(ci.Do.Pos()))
	// write sends exactly the data parameter
	if w, ok := ci.write.args[0].(ASlice); ok {
		d, _ := fr.vals[ci.do.Params[2]].(ASlice)
		rep("R7.2", w.root == d.root && w.off.equal(d.off) && w.ln.equal(d.ln), "the transport Write sends exactly the encoded request", describeAV(ci.write.args[0]), "write-arg", posOfCall(c, ci.write))
	}
	// success returns
	isEOF := ""
	for _, cr := range ci.an.calls {
		if cr.frame == fr && cr.callee != nil && cr.callee.String() == "errors.Is" && len(cr.args) == 2 {
			if g, ok := cr.args[1].(AGlobalVal); ok && g.g.String() == "io.EOF" {
				isEOF = "errors.Is(" + describeAV(cr.args[0]) + "," + describeAV(cr.args[1]) + ")"
			}
		}
	}
	nsucc := 0
	for _, rs := range fr.returns {
		if len(rs.state) == 0 {
			continue
		}
		nf := fr.nilness(rs.vals[1])
		if !(nf.kind == fConst && nf.b) {
			continue
		}
		nsucc++
		p := c.pos(rs.instr.Pos())
		res, ok := rs.vals[0].(ASlice)
		copyOK := false
		if ok && res.root != nil && res.root.fresh && len(res.root.writes) == 1 && res.root.writes[0].kind == wCopy {
			src := res.root.writes[0].val.(ASlice)
			copyOK = src.root == ci.recvBuf && src.off.isConst() && src.off.c == 0 && rs.state.entails(atomEQ(src.ln, sum)) && rs.state.entails(atomEQ(res.ln, sum))
		}
		rep("R7.2", copyOK, "the frame handed on is a copy of received[0:total]", describeAV(rs.vals[0]), "result-copy", p)
		for _, cj := range rs.state {
			complete := expOK && cj.entails(atomGE(sum, expected))
			viaEOF := false
			if !ci.serial && isEOF != "" {
				s := fr.an.u.boolSym(isEOF)
				viaEOF = cj.entails(atomEQ(affSym(s), affConst(1)))
			}
			if !complete && !viaEOF {
				rep("R7.2", false, "the read loop can be left for the success return although fewer than expectedLen bytes were read (and no EOF was seen)", truncate(cj.String(), 300), "early-exit", p)
			}
		}
		rep("R7.2", rs.state.entails(atomGE(sum, affConst(1))), "success requires at least one byte received", "", "empty-success", p)
	}
	// the loop goes round again only while the reply is incomplete: a complete reply never waits
	// for more bytes (it would time out)
	hdr := ci.phi.Block()
	for _, p := range hdr.Preds {
		if !isBackEdge(p, hdr) {
			continue
		}
		st := fr.edge[[2]int{p.Index, hdr.Index}]
		okk := expOK && st.entails(atomLT(sum, expected))
		if debugTrace {
			println("R7.2 backedge", len(st), expected.String(), sum.String(), truncate(st.String(), 1500))
		}
		rep("R7.2", okk, "another Read is attempted only while fewer than expectedLen bytes have been received", truncate(st.String(), 300), "continues-when-complete", c.pos(p.Instrs[len(p.Instrs)-1].Pos()))
	}
	rep("R7.2", nsucc == 1, "do has exactly one success return", fmt.Sprintf("%d", nsucc), "success-returns", c.pos(ci.do.Pos()))
	// tolerated read errors: the read-error return is taken iff err != nil and neither deadline-exceeded nor EOF
	var readErr ARef
	if t, ok := ci.read.res.(ATuple); ok {
		readErr, _ = t[1].(ARef)
	}
	dlKey := "errors.Is(" + describeAV(readErr) + ",global:os.ErrDeadlineExceeded)"
	eofKey := "errors.Is(" + describeAV(readErr) + ",global:io.EOF)"
	foundReadErrReturn := false
	// (a return may hand the error through a local helper: judged at that helper's return)
	for _, site := range expandedReturns(fr, 0) {
		rs := site.rs
		if len(rs.state) == 0 || len(rs.vals) < 2 {
			continue
		}
		ifc, ok := rs.vals[1].(AIface)
		if !ok {
			continue
		}
		p, ok := ifc.val.(APtr)
		if !ok || p.obj == nil {
			continue
		}
		errField := site.fr.loadPath(p.obj, ".0", types.Universe.Lookup("error").Type(), rs.instr)
		if rr, ok := errField.(ARef); !ok || rr.key != readErr.key {
			continue
		}
		foundReadErrReturn = true
		dl := fr.an.u.boolSym(dlKey)
		eof := fr.an.u.boolSym(eofKey)
		okk := rs.state.entails(atomEQ(affSym(dl), affConst(0))) && rs.state.entails(atomEQ(affSym(eof), affConst(0)))
		rep("R7.2", okk, "a read error aborts the call only if it is neither deadline-exceeded nor EOF (empty timed-out reads are tolerated)", truncate(rs.state.String(), 300), "tolerated-read-errors", c.pos(rs.instr.Pos()))
	}
	if !foundReadErrReturn {
		rep("R7.2", false, "no return reports a failed Read", "", "no-read-error-return", rpos)
	}
	// ---- R7.3 ----
	recog := ci.dynCalls(fr, ci.asErr)
	if len(recog) != 1 {
		rep("R7.3", false, fmt.Sprintf("%d calls of the protocol-error recogniser in the read loop (want 1)", len(recog)), "", "recogniser-calls", rpos)
		return fired
	}
	rc := recog[0]
	rp := posOfCall(c, rc)
	arg, ok := rc.args[0].(ASlice)
	rep("R7.3", ok && arg.root == ci.recvBuf && arg.off.isConst() && arg.off.c == 0 && arg.ln.equal(sum),
		"the recogniser sees received[0:total] (everything received so far)", describeAV(rc.args[0]), "recogniser-arg", rp)
	inLoop := ci.loop[rc.instr.Block()]
	everyIter := inLoop && allPathsPassToLatch(rc.instr.Block(), ci.read.instr.Block(), ci.phi.Block())
	rep("R7.3", everyIter, "the recogniser runs in every iteration after the Read (before the completeness test)", "", "recogniser-every-iteration", rp)
	// completeness test comes after
	for _, rs := range fr.returns {
		nf := fr.nilness(rs.vals[1])
		if nf.kind == fConst && nf.b && len(rs.state) > 0 {
			rep("R7.3", rc.instr.Block().Dominates(rs.instr.Block()), "the recogniser dominates the success return", "", "recogniser-dominates", rp)
		}
	}
	// non-nil result returned as &ClientError{Err: result}
	wrapped := false
	for _, site := range expandedReturns(fr, 0) {
		rs := site.rs
		if len(rs.state) == 0 || len(rs.vals) < 2 {
			continue
		}
		ifc, ok := rs.vals[1].(AIface)
		if !ok {
			continue
		}
		p, ok := ifc.val.(APtr)
		if !ok || p.obj == nil {
			continue
		}
		ef := site.fr.loadPath(p.obj, ".0", types.Universe.Lookup("error").Type(), rs.instr)
		if rr, ok := ef.(ARef); ok {
			if res, ok := rc.res.(ARef); ok && rr.key == res.key {
				wrapped = ci.errorClass(site.fr, rs.vals[1]) == "ClientError"
			}
		}
	}
	rep("R7.3", wrapped, "a recognised exception is returned as *ClientError wrapping it (errors.As reaches the typed exception)", "", "exception-wrapped", rp)
	return fired
}

// allPathsPassToLatch: every path from the Read's block to a back edge of the loop passes
// through block b (paths that return early are fine).
func allPathsPassToLatch(b, from, hdr *ssa.BasicBlock) bool {
	if from == b {
		return true
	}
	seen := map[*ssa.BasicBlock]bool{from: true}
	work := []*ssa.BasicBlock{from}
	for len(work) > 0 {
		x := work[len(work)-1]
		work = work[:len(work)-1]
		for _, s := range x.Succs {
			if s == b {
				continue
			}
			if s == hdr {
				return false
			}
			if !seen[s] {
				seen[s] = true
				work = append(work, s)
			}
		}
	}
	return true
}
