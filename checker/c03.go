package main

// C03 — CRC-16 placement on emitted RTU frames and enforcement by the CRC-verifying
// parsers (DESIGN §3 C03). Clause 1 (CRC16 equals the Modbus polynomial arithmetic for
// every byte string) is NOT decided: see DESIGN.md.

import (
	"go/constant"
	"fmt"
	"go/types"
	"sort"
	"strings"

	"golang.org/x/tools/go/ssa"
)

func init() {
	register("C03", checkC03, "CRC16 is treated as an uninterpreted function. R3.1: for every RTU encoder (each Bytes() method of package packet that calls CRC16: 10 requests, 10 responses, the exception) the write map of the returned buffer is extracted symbolically in all field values (requests under their constructor's invariant, responses under the premise that the payload fits a Modbus PDU); the buffer must be tiled without gaps, CRC16 must be applied to exactly buf[0:L-2], nothing may be written into that range afterwards, and the last two bytes must be the low then the high byte of that call's result. R3.2: in the CRC-verifying parse entry points every path that reaches the inner parser or returns a value is dominated by the equality of the little-endian trailer with CRC16(data[0:len-2]) on the same input, and every rejecting path of the wrapper itself is infeasible when that equality and the minimum length hold. What is NOT decided: that CRC16's arithmetic is the Modbus CRC (needs execution or proof of a loop against a mathematical definition). R3.1 is evaluated under the constructor's success state and again for arbitrary struct contents (a parsed request can be re-encoded). R3.2 targets are all exported packet functions that call CRC16 on their input (call graph, not names). R3.3 the RTU clients install CRC-verifying functions (C12 R12.1/R12.2). R3.4 (constants only, the arithmetic is not decided): the accumulator's initial value 0xFFFF and the reflected polynomial 0xA001 occur in CRC16, or it indexes a never-written constant 256-entry table equal to the table that polynomial defines (reference table computed by the checker from the specification). R3.5 = shared-state rule from CRC16 and every function of the module that calls it (no lazily filled table, no shared scratch state). R3.0 requires the walked slice to be the whole argument on every path (not a clamped or trimmed view). R3.4 also interprets the routine on the empty input (result 0xFFFF). R3.6: outside package packet no function writes into bytes obtained from a Request's Bytes().")
}

// encoderInstance: receiver value and entry state under which an encoder of named type tn
// is analysed: the success state of constructor New<TypeName> when it exists, otherwise a
// symbolic receiver under the premise that all payload fields together fit a PDU.
func encoderInstance(c *Ctx, an *Analysis, pkgRel string, tn *types.Named) (recv AV, st DNF, how string, ok bool) {
	return encoderInstanceOpt(c, an, pkgRel, tn, false)
}

// encoderInstanceOpt: with anyStruct the constructor is ignored and the receiver is an arbitrary
// struct value (what a parser or a caller writing the exported fields can produce).
func encoderInstanceOpt(c *Ctx, an *Analysis, pkgRel string, tn *types.Named, anyStruct bool) (recv AV, st DNF, how string, ok bool) {
	name := tn.Obj().Name()
	if ctor := thinTarget(c.fnOpt(pkgRel, "New"+name)); !anyStruct && ctor != nil && ctor.Signature.Results().Len() >= 1 {
		if p, isP := ctor.Signature.Results().At(0).Type().(*types.Pointer); isP && types.Identical(p.Elem(), tn) {
			r, s, _, ok := ctorInstance(an, ctor)
			if ok {
				return r, s, "constructor " + ctor.Name(), true
			}
			return nil, nil, "", false
		}
	}
	v := an.u.symbolic("r", tn)
	var total Aff
	var collect func(v AV, t types.Type, depth int)
	collect = func(v AV, t types.Type, depth int) {
		st, ok := t.Underlying().(*types.Struct)
		if !ok || depth > 3 {
			return
		}
		for i := 0; i < st.NumFields(); i++ {
			fv := an.u.fieldOf(v, i)
			if s, ok := fv.(ASlice); ok {
				if _, isSl := st.Field(i).Type().Underlying().(*types.Slice); isSl {
					total = total.add(s.ln)
				}
			} else {
				collect(fv, st.Field(i).Type(), depth+1)
			}
		}
	}
	collect(v, tn, 0)
	return v, DNF{Conj{atomLE(total, affConst(250))}}, "premise: payload fields fit a Modbus PDU (sum of slice lengths <= 250)", true
}

type encRun struct {
	m    *ssa.Function
	tn   *types.Named
	an   *Analysis
	fr   *Frame
	how  string
	recv AV
	res  ASlice
	rst  DNF
	okay bool
	why  string
}

// bytesMethods lists the Bytes() []byte methods with value receivers declared in pkg.
func bytesMethods(c *Ctx, pkgRel string) []*ssa.Function {
	var out []*ssa.Function
	for _, fn := range c.allFuncs(pkgRel) {
		if fn.Name() != "Bytes" || fn.Signature.Recv() == nil || fn.Signature.Params().Len() != 0 || fn.Signature.Results().Len() != 1 {
			continue
		}
		if _, isPtr := fn.Signature.Recv().Type().(*types.Pointer); isPtr {
			continue
		}
		if _, isNamed := fn.Signature.Recv().Type().(*types.Named); !isNamed {
			continue
		}
		out = append(out, fn)
	}
	sort.Slice(out, func(i, j int) bool { return out[i].String() < out[j].String() })
	return out
}

func runEncoder(c *Ctx, pkgRel string, m *ssa.Function, crc *ssa.Function) encRun {
	return runEncoderOpt(c, pkgRel, m, crc, false)
}

func runEncoderOpt(c *Ctx, pkgRel string, m *ssa.Function, crc *ssa.Function, anyStruct bool) encRun {
	tn := m.Signature.Recv().Type().(*types.Named)
	an := &Analysis{ctx: c, u: newUniverse(), top: m}
	if crc != nil {
		an.uninterp = map[*ssa.Function]string{crc: "crc16"}
	}
	er := encRun{m: m, tn: tn, an: an}
	recv, st, how, ok := encoderInstanceOpt(c, an, pkgRel, tn, anyStruct)
	if !ok {
		er.why = "constructor not interpretable"
		return er
	}
	er.how = how
	er.recv = recv
	an.obligs, an.wraps, an.ucalls = nil, nil, nil
	er.fr = runMethod(an, m, recv, st)
	if len(er.fr.returns) != 1 {
		er.why = "encoder does not have exactly one return"
		return er
	}
	res, isS := er.fr.returns[0].vals[0].(ASlice)
	if !isS || res.root == nil || !res.root.fresh {
		er.why = "encoder does not return a buffer it allocated"
		return er
	}
	er.res, er.rst, er.okay = res, er.fr.returns[0].state, true
	return er
}

func checkC03(c *Ctx, r *Report) {
	r.floor("R3.1", 21)
	r.floor("R3.2", 2)
	r.floor("R3.0", 1)
	r.floor("R3.3", 4)
	crc := c.fnMust("packet", "CRC16")
	// R3.5: the checksum, and everything that emits or verifies one, keeps no package-level state
	{
		roots := []*ssa.Function{crc}
		if node := c.callGraph().Nodes[crc]; node != nil {
			for _, e := range node.In {
				if c.inModule(e.Caller.Func) {
					roots = append(roots, e.Caller.Func)
				}
			}
		}
		sharedStateRule(c, r, "R3.5", "packet.CRC16", "the checksum and its users", roots)
		r.floor("R3.5", 20)
	}
	for _, m := range bytesMethods(c, "packet") {
		er := runEncoder(c, "packet", m, crc)
		id := fnID(m)
		// RTU encoder = calls CRC16 in its own body
		direct := 0
		if er.an != nil {
			for _, uc := range er.an.ucalls {
				if uc.frame.within(er.fr) {
					direct++
				}
			}
		}
		if !er.okay {
			if callsDirect(m, crc) {
				r.instance("R3.1", 1)
				r.undecided("R3.1", id, "RTU encoder not interpretable: "+er.why, c.pos(m.Pos()))
			}
			continue
		}
		if direct == 0 {
			continue
		}
		r.instance("R3.1", 1)
		r.funcs[id] = true
		c03Encoder(c, r, er, id)
		// requests also reach their encoder without the constructor (parsed requests re-encoded,
		// exported fields rewritten): the CRC must cover buf[0:L-2] for any struct contents
		if strings.HasPrefix(er.how, "constructor") {
			er2 := runEncoderOpt(c, "packet", m, crc, true)
			if !er2.okay {
				r.undecided("R3.1", id, "RTU encoder not interpretable for arbitrary struct contents: "+er2.why, c.pos(m.Pos()))
			} else {
				tmp := newReport(r.Prop, r.Tier)
				c03Encoder(c, tmp, er2, id)
				for _, it := range tmp.items {
					it.What = "(any struct contents) " + it.What
					if it.Signature != "" {
						it.Signature = "any:" + it.Signature
					}
					r.add(it)
				}
			}
		}
	}
	c03Coverage(c, r, crc)
	c03Constants(c, r, crc)
	r.floor("R3.4", 1)
	// CRC-verifying entry points: every exported function of the package taking a frame that
	// calls CRC16 itself
	nver := 0
	for _, fn := range parseEntryPoints(c, "packet") {
		if fn == crc || !callsDirect(fn, crc) {
			continue
		}
		// a verifying entry point can reject: it has an error result (a helper that merely appends
		// or computes a CRC is not one)
		hasErr := false
		for i := 0; i < fn.Signature.Results().Len(); i++ {
			if isErrorType(fn.Signature.Results().At(i).Type()) {
				hasErr = true
			}
		}
		if !hasErr {
			continue
		}
		// ... and it really evaluates CRC16 on some feasible path (a wrapper that calls a shared
		// body with the check switched off is not a verifying entry point)
		{
			pan := &Analysis{ctx: c, u: newUniverse(), top: fn, uninterp: map[*ssa.Function]string{crc: "crc16"}}
			pfr := pan.newFrame(fn, nil, nil)
			pfr.run(dnfTrue())
			feasible := false
			for _, uc := range pan.ucalls {
				for _, cj := range uc.state {
					if !infeasible(cj) {
						feasible = true
					}
				}
			}
			if !feasible {
				continue
			}
		}
		nver++
		r.instance("R3.2", 1)
		r.funcs[fnID(fn)] = true
		c03Verifier(c, r, fn, crc, false)
	}
	// R3.6: an encoded frame is final: outside package packet nothing writes into the bytes a request's
	// Bytes() returned (a wrapper that patches the unit id after encoding sends a frame whose
	// trailer is no longer the CRC of what precedes it)
	{
		reqT := c.pkg("packet").Type("Request")
		n, bad := 0, 0
		for _, rel := range []string{"", "server"} {
			for _, fn := range c.allFuncs(rel) {
				T := map[ssa.Value]bool{}
				for changed := true; changed; {
					changed = false
					for _, b := range fn.Blocks {
						for _, in := range b.Instrs {
							v, isVal := in.(ssa.Value)
							if !isVal || T[v] {
								continue
							}
							switch x := in.(type) {
							case *ssa.Call:
								cm := x.Common()
								name, recvT := "", types.Type(nil)
								if cm.IsInvoke() {
									name, recvT = cm.Method.Name(), cm.Value.Type()
								} else if sc := cm.StaticCallee(); sc != nil && sc.Signature.Recv() != nil {
									name, recvT = sc.Name(), sc.Signature.Recv().Type()
								}
								if name == "Bytes" && recvT != nil && reqT != nil {
									if types.Identical(recvT, reqT.Type()) || types.Implements(recvT, reqT.Type().Underlying().(*types.Interface)) {
										if nt, ok := deref(recvT).(*types.Named); ok && nt.Obj().Pkg() != nil && nt.Obj().Pkg().Path() == c.pkg("packet").Pkg.Path() {
											T[v], changed = true, true
										}
									}
								}
							case *ssa.Slice:
								if T[x.X] {
									T[v], changed = true, true
								}
							case *ssa.Phi:
								for _, e := range x.Edges {
									if T[e] {
										T[v], changed = true, true
									}
								}
							case *ssa.IndexAddr:
								if T[x.X] {
									T[v], changed = true, true
								}
							}
						}
					}
				}
				if len(T) == 0 {
					continue
				}
				n++
				for _, b := range fn.Blocks {
					for _, in := range b.Instrs {
						what := ""
						switch x := in.(type) {
						case *ssa.Store:
							if T[x.Addr] {
								what = "store into"
							}
						case *ssa.Call:
							if bi, ok := x.Common().Value.(*ssa.Builtin); ok && (bi.Name() == "copy" || bi.Name() == "append") && len(x.Common().Args) > 0 && T[x.Common().Args[0]] {
								what = bi.Name() + " into"
							}
						}
						if what != "" {
							bad++
							r.fail("R3.6", fnID(fn), what+" the bytes a request's Bytes() returned: the frame that is sent no longer ends with the CRC of what precedes it", c.pos(in.Pos()), "", "frame-modified-after-encoding")
						}
					}
				}
			}
		}
		r.instance("R3.6", n)
		if bad == 0 {
			r.ok("R3.6", "modbus", fmt.Sprintf("none of the %d functions outside package packet that obtain an encoded request frame writes into it", n), "-", true)
		}
		r.floor("R3.6", 2)
	}
	// R3.3: the RTU clients enforce the CRC because the functions their constructors install are
	// CRC-verifying ones (the C12 R12.1/R12.2 analysis)
	{
		tmp := newReport(r.Prop, r.Tier)
		checkC12(c, tmp)
		n := copyItems(tmp, r, "R12.1", "R3.3", "RTU constructor") + copyItems(tmp, r, "R12.2", "R3.3")
		r.instance("R3.3", n)
	}
	r.assumption("CRC16 is uninterpreted: any function of its argument bytes; its arithmetic is not examined")
	r.assumption("requests are analysed under their constructor's success state; responses under the premise that their slice fields together are at most 250 bytes (a Modbus PDU)")
	r.assumption("slice lengths are below 2^31; int is 64 bits wide")
}

// callsDirect: m calls target itself, or through an unexported helper of target's package that is
// not an encoder or parser of its own (e.g. a "put CRC trailer" helper): depth <= 2.
func callsDirect(m, target *ssa.Function) bool {
	return callsWithin(m, target, 0)
}

func callsWithin(m, target *ssa.Function, depth int) bool {
	for _, b := range m.Blocks {
		for _, in := range b.Instrs {
			ci, ok := in.(ssa.CallInstruction)
			if !ok {
				continue
			}
			sc := ci.Common().StaticCallee()
			if sc == target {
				return true
			}
			if depth < 2 && sc != nil && sc != m && sc.Pkg == target.Pkg && sc.Object() != nil && !sc.Object().Exported() &&
				sc.Signature.Recv() == nil && sc.Blocks != nil && callsWithin(sc, target, depth+1) {
				return true
			}
		}
	}
	return false
}

func c03Encoder(c *Ctx, r *Report, er encRun, id string) map[string]bool {
	fired := map[string]bool{}
	fail := func(what, detail, sig string) {
		fired[sig] = true
		if r != nil {
			r.fail("R3.1", id, what, c.pos(er.m.Pos()), detail, sig)
		}
	}
	pass := func(what string) {
		if r != nil {
			r.ok("R3.1", id, what, c.pos(er.m.Pos()), true)
		}
	}
	res := er.res
	L := res.root.ln
	// whole buffer returned
	if !(er.rst.entails(atomEQ(res.off, affConst(0))) && er.rst.entails(atomEQ(res.ln, L))) {
		fail("returned slice is not the whole buffer", fmt.Sprintf("off=%s len=%s buffer=%s", res.off, res.ln, L), "not-whole-buffer")
		return fired
	}
	var uc *UCall
	n := 0
	for i := range er.an.ucalls {
		if er.an.ucalls[i].frame.within(er.fr) {
			uc = &er.an.ucalls[i]
			n++
		}
	}
	if n != 1 {
		fail(fmt.Sprintf("%d CRC16 calls in the encoder (want 1)", n), "", "crc-calls")
		return fired
	}
	arg, isS := uc.args[0].(ASlice)
	if !isS || arg.root != res.root {
		fail("CRC16 is not applied to the frame buffer", describeAV(uc.args[0]), "crc-arg-root")
		return fired
	}
	if er.rst.entails(atomEQ(arg.off, affConst(0))) && er.rst.entails(atomEQ(arg.ln, L.addc(-2))) {
		pass("CRC16 is applied to exactly buf[0:L-2] with L = " + L.String())
	} else {
		fail("CRC16 is not applied to exactly buf[0:L-2]", fmt.Sprintf("arg=buf[%s:+%s], L=%s", arg.off, arg.ln, L), "crc-range:"+arg.ln.sub(L).String())
	}
	crcv, isI := uc.res.(AInt)
	if !isI {
		fail("CRC16 result is not an integer", "", "crc-result")
		return fired
	}
	lo := er.fr.modAff(crcv.a, 256)
	hi := affSym(er.fr.divSym(crcv.a, 256))
	// writes after the call must be exactly the two trailer stores
	after := res.root.writes[uc.nwrite[res.root]:]
	for _, w := range after {
		inBody := !(er.rst.entails(atomGE(w.off, L.addc(-2))))
		if inBody {
			fail("a write into buf[0:L-2) happens after CRC16 was computed", "write at "+w.pos+" offset "+w.off.String(), "write-after-crc")
		}
	}
	for _, cj := range er.rst {
		var a, b *Write
		extra := ""
		var both *Write
		for _, w := range after {
			if !consistent(cj, w.state) {
				continue
			}
			switch {
			case w.kind == wLEn && w.n == 2 && cj.entails(atomEQ(w.off, L.addc(-2))) && both == nil && a == nil && b == nil:
				both = w // binary.LittleEndian.PutUint16(buf[L-2:], crc): low byte first
			case w.kind == wByte && cj.entails(atomEQ(w.off, L.addc(-2))) && a == nil:
				a = w
			case w.kind == wByte && cj.entails(atomEQ(w.off, L.addc(-1))) && b == nil:
				b = w
			default:
				extra = w.pos
			}
		}
		if both != nil && extra == "" && a == nil && b == nil {
			if v, ok := both.val.(AInt); ok && cj.entails(atomEQ(er.fr.useIn(v, DNF{cj}, "crc"), crcv.a)) {
				pass("buf[L-2:L] = that CRC stored little-endian (low byte first), after it was computed")
			} else {
				fail("trailer is not (low byte, high byte) of the CRC of the preceding bytes", "little-endian store of "+describeAV(both.val), "trailer:le16")
			}
			continue
		}
		if a == nil || b == nil || extra != "" {
			fail("after the CRC16 call the encoder does not store exactly buf[L-2] and buf[L-1]", "unexpected or missing write "+extra, "trailer-writes")
			continue
		}
		av, aok := a.val.(AInt)
		bv, bok := b.val.(AInt)
		okLo := aok && cj.entails(atomEQ(er.fr.useIn(av, DNF{cj}, "crc lo"), lo))
		okHi := bok && cj.entails(atomEQ(er.fr.useIn(bv, DNF{cj}, "crc hi"), hi))
		if okLo && okHi {
			pass("buf[L-2] = low byte and buf[L-1] = high byte of that CRC, stored after it was computed")
		} else {
			fail("trailer is not (low byte, high byte) of the CRC of the preceding bytes",
				fmt.Sprintf("buf[L-2]=%s buf[L-1]=%s", describeAV(a.val), describeAV(b.val)), fmt.Sprintf("trailer:lo=%v hi=%v", okLo, okHi))
		}
	}
	return fired
}

// c03Verifier checks R3.2 on a CRC-verifying parse entry point.
func c03Verifier(c *Ctx, r *Report, fn, crc *ssa.Function, control bool) map[string]bool {
	fired := map[string]bool{}
	id := fnID(fn)
	an := &Analysis{ctx: c, u: newUniverse(), top: fn, uninterp: map[*ssa.Function]string{crc: "crc16"}}
	fr := an.newFrame(fn, nil, nil)
	fr.run(dnfTrue())
	data, ok := fr.vals[fn.Params[0]].(ASlice)
	report := func(okk bool, what, detail, sig, pos string) {
		if !okk {
			fired[sig] = true
		}
		if control {
			return
		}
		if okk {
			r.ok("R3.2", id, what, pos, true)
		} else {
			r.fail("R3.2", id, what, pos, detail, sig)
		}
	}
	if !ok {
		report(false, "first parameter is not a byte slice", "", "shape", c.pos(fn.Pos()))
		return fired
	}
	// CRC calls on a prefix data[0:X] of the input; the guard is LE16(data[X:X+2]) == that CRC
	// together with X == len-2 (X may be spelled as a constant under a length test)
	type crcEq struct {
		eq Atom
		x  Aff
	}
	var eqs []crcEq
	for _, uc := range an.ucalls {
		if a, isS := uc.args[0].(ASlice); isS && a.root == data.root && a.off.isConst() && a.off.c == 0 {
			if v, ok := uc.res.(AInt); ok {
				eqs = append(eqs, crcEq{atomEQ(fr.frameBytes(data, a.ln, 2, false), v.a), a.ln})
			}
		}
	}
	if len(eqs) == 0 {
		report(false, "no CRC16 call on a prefix of the input", "", "no-crc-call", c.pos(fn.Pos()))
		return fired
	}
	guardedBy := func(st DNF) bool {
		if len(st) == 0 {
			return true
		}
		for _, e := range eqs {
			if st.entails(e.eq) && st.entails(atomEQ(e.x, data.ln.addc(-2))) {
				return true
			}
		}
		return false
	}
	eq := eqs[0].eq
	if !fr.blockIn[0].entails(atomEQ(eqs[0].x, eqs[0].x)) {
		_ = eq
	}
	nres := fn.Signature.Results().Len()
	for _, site := range expandedReturns(fr, 0) {
		rs := site.rs
		pos := c.pos(rs.instr.Pos())
		errNil := site.fr.nilness(rs.vals[nres-1])
		valNil := site.fr.nilOrNilPtr(rs.vals[0])
		guarded := guardedBy(rs.state)
		rejecting := errNil.kind == fConst && !errNil.b && valNil.kind == fConst && valNil.b
		if nres == 1 {
			// a recogniser: nil means "nothing recognised" and carries no content
			rejecting = false
			if errNil.kind == fConst && errNil.b {
				report(true, "returns nil (no content)", "", "", pos)
				continue
			}
		}
		if !guarded && !rejecting && len(rs.state) > 1 && nres > 1 {
			// a single exit reached by several paths: each path is either under the equality or a rejection
			allInf := func(d DNF) bool {
				for _, cj := range d {
					if !infeasible(cj) {
						return false
					}
				}
				return true
			}
			nG, nR, bad, badCRC := 0, 0, false, false
			for _, cj := range rs.state {
				one := DNF{cj.with(an.global...)}
				if infeasible(one[0]) {
					continue
				}
				switch {
				case guardedBy(one):
					nG++
				case allInf(dnfAnd(one, errNil.dnf(false))) && allInf(dnfAnd(one, valNil.dnf(true))):
					nR++
					if !allInf(dnfAnd(one, DNF{Conj{eq, atomEQ(eqs[0].x, data.ln.addc(-2)), atomGE(data.ln, affConst(4))}})) {
						badCRC = true
					}
				default:
					bad = true
				}
			}
			if !bad {
				if nG > 0 {
					report(true, "return is reached only when the little-endian trailer equals CRC16(data[0:len-2])", "", "", pos)
				}
				if nR > 0 {
					report(!badCRC, "rejecting return is unreachable for a frame whose trailer matches its CRC", truncate(rs.state.String(), 300), "rejects-good-crc", pos)
				}
				continue
			}
		}
		switch {
		case guarded:
			report(true, "return is reached only when the little-endian trailer equals CRC16(data[0:len-2])", "", "", pos)
		case rejecting:
			// wrapper's own rejection: must be impossible for a long-enough frame with a matching CRC
			in := dnfAnd(rs.state, DNF{Conj{eq, atomEQ(eqs[0].x, data.ln.addc(-2)), atomGE(data.ln, affConst(4))}})
			feas := false
			for _, cj := range in {
				if !infeasible(cj) {
					feas = true
				}
			}
			report(!feas, "rejecting return is unreachable for a frame whose trailer matches its CRC", truncate(rs.state.String(), 300), "rejects-good-crc", pos)
		default:
			report(false, "a value or non-rejecting result can be returned without the CRC equality having been established", truncate(rs.state.String(), 300), "unguarded-return", pos)
		}
	}
	// inner parser calls happen only under the equality
	var holdsCRC func(f *Frame) bool
	holdsCRC = func(f *Frame) bool {
		for _, uc := range an.ucalls {
			if uc.frame != nil && uc.frame.within(f) {
				return true
			}
		}
		return false
	}
	var inner func(f *Frame)
	inner = func(f *Frame) {
		for call, ch := range f.child {
			if ch.fn == crc {
				continue
			}
			passesData := false
			for _, a := range call.Common().Args {
				if s, ok := f.val(a).(ASlice); ok && s.root == data.root {
					passesData = true
				}
			}
			if !passesData {
				continue
			}
			if holdsCRC(ch) {
				inner(ch) // a shared body that does the CRC test itself: its own inner calls count
				continue
			}
			st := f.stateAt[call.(ssa.Instruction)]
			report(guardedBy(st), "inner parser "+ch.fn.Name()+" is only called after the CRC equality", truncate(st.String(), 300), "inner-call-unguarded", c.pos(call.Pos()))
		}
	}
	inner(fr)
	_ = strings.TrimSpace
	return fired
}

// c03Coverage checks R3.0, a structural necessary condition of clause 1: the checksum
// function reads every byte of its argument (an unread byte cannot influence the result,
// so the result would be wrong for some byte string). The arithmetic itself is not decided.
func c03Coverage(c *Ctx, r *Report, crc *ssa.Function) map[string]bool {
	fired := map[string]bool{}
	id := fnID(crc)
	_, fr := analyse(c, crc)
	if r != nil {
		r.instance("R3.0", 1)
		r.funcs[id] = true
	}
	data, ok := fr.vals[crc.Params[0]].(ASlice)
	if !ok {
		fired["shape"] = true
		if r != nil {
			r.undecided("R3.0", id, "first parameter is not a byte slice", c.pos(crc.Pos()))
		}
		return fired
	}
	why := "no indexed read of the argument"
	for _, b := range crc.Blocks {
		for _, in := range b.Instrs {
			ia, isIA := in.(*ssa.IndexAddr)
			if !isIA {
				continue
			}
			if s, ok := fr.sliceOf(ia.X); ok && s.root == data.root {
				okc, w := coversAll(fr, ia, s)
				if okc {
					// the slice walked must be the whole argument, not a clamped or trimmed view of it
					st := fr.blockIn[ia.Block().Index]
					if !(st.entails(atomEQ(s.off, data.off)) && st.entails(atomEQ(s.ln, data.ln))) {
						okc, w = false, "the loop walks "+describeAV(s)+", which is not provably the whole argument"
					}
				}
				if okc {
					if r != nil {
						r.ok("R3.0", id, "every byte data[0..len-1] is read exactly once, in order, by the folding loop", c.pos(ia.Pos()), true)
					}
					return fired
				}
				why = w
			}
		}
	}
	fired["coverage"] = true
	if r != nil {
		r.fail("R3.0", id, "the checksum loop does not provably read every byte of its argument", c.pos(crc.Pos()), why, "coverage:"+why)
	}
	return fired
}

func init() {
	controls["C03"] = func(c *Ctx, r *Report) {
		crc := c.fnMust("c03", "CRC16")
		enc := func(tn string) map[string]bool {
			er := runEncoder(c, "c03", c.fnMust("c03", tn+".Bytes"), crc)
			if !er.okay {
				return map[string]bool{}
			}
			return c03Encoder(c, nil, er, tn)
		}
		sw := enc("Swapped")
		r.controls["C03/R3.1-swapped-trailer"] = sw["trailer:lo=false hi=false"]
		sr := enc("ShortRange")
		found := false
		for k := range sr {
			if strings.HasPrefix(k, "crc-range:") {
				found = true
			}
		}
		r.controls["C03/R3.1-crc-range"] = found
		r.controls["C03/R3.1-write-after-crc"] = enc("LateWrite")["write-after-crc"]
		v1 := c03Verifier(c, r, c.fnMust("c03", "VerifyButIgnore"), crc, true)
		r.controls["C03/R3.2-unguarded"] = v1["unguarded-return"] || v1["inner-call-unguarded"]
		v2 := c03Verifier(c, r, c.fnMust("c03", "VerifyWrongRange"), crc, true)
		r.controls["C03/R3.2-wrong-range"] = v2["no-crc-call"] || v2["unguarded-return"] || v2["inner-call-unguarded"]
		r.controls["C03/R3.0-coverage"] = c03Coverage(c, nil, c.fnMust("c03", "CRCSkipsLast"))["coverage"]
		if c03Coverage(c, nil, crc)["coverage"] {
			r.controls["C03/R3.0-negative-control"] = false
		}
	}
}

// c03Constants: R3.4 — necessary conditions on the checksum routine's constants (its arithmetic
// as a whole is NOT decided): the 16-bit accumulator starts from the constant 0xFFFF; the
// routine either uses the reflected polynomial 0xA001 in a shift-by-one loop or indexes a
// constant 256-entry table, and such a table must equal the table that polynomial defines
// (entry i = i folded 8 times: e = e&1 != 0 ? e>>1 ^ 0xA001 : e>>1). The reference table is
// computed by the checker from the specification's polynomial; nothing of /repo is executed.
func c03Constants(c *Ctx, r *Report, crc *ssa.Function) {
	id := fnID(crc)
	r.instance("R3.4", 1)
	consts := map[int64]bool{}
	var tables []*ssa.Global
	for _, b := range crc.Blocks {
		for _, in := range b.Instrs {
			for _, op := range in.Operands(nil) {
				if op == nil || *op == nil {
					continue
				}
				if k, ok := (*op).(*ssa.Const); ok && k.Value != nil && isIntType(k.Type()) {
					consts[k.Int64()] = true
				}
				if g, ok := (*op).(*ssa.Global); ok {
					if pt, ok := g.Type().(*types.Pointer); ok {
						if _, isArr := pt.Elem().Underlying().(*types.Array); isArr {
							tables = append(tables, g)
						}
					}
				}
			}
		}
	}
	pos := c.pos(crc.Pos())
	if consts[0xffff] {
		r.ok("R3.4", id, "the accumulator's initial value 0xFFFF occurs in the routine", pos, true)
	} else {
		r.fail("R3.4", id, "the initial value 0xFFFF of the Modbus CRC does not occur in the routine", pos, "", "crc-init")
	}
	// the checksum of the empty byte string is the initial value itself: interpreted with
	// len(data) == 0, every return yields 0xFFFF
	{
		an := &Analysis{ctx: c, u: newUniverse(), top: crc}
		fr := an.newFrame(crc, nil, nil)
		if data, ok := fr.vals[crc.Params[0]].(ASlice); ok {
			fr.run(DNF{Conj{atomEQ(data.ln, affConst(0))}})
			okEmpty := len(fr.returns) > 0
			for _, rs := range fr.returns {
				if len(rs.state) == 0 {
					continue
				}
				v, isI := rs.vals[0].(AInt)
				if !isI || !rs.state.entails(atomEQ(fr.useIn(v, rs.state, "crc"), affConst(0xffff))) {
					okEmpty = false
				}
			}
			if okEmpty {
				r.ok("R3.4", id, "for the empty byte string the routine returns the initial value 0xFFFF", pos, true)
			} else {
				r.fail("R3.4", id, "for the empty byte string the routine does not return the initial value 0xFFFF", pos, "", "crc-empty-input")
			}
		}
	}
	if len(tables) == 0 {
		if consts[0xA001] {
			r.ok("R3.4", id, "the reflected polynomial 0xA001 occurs in the routine (bitwise form)", pos, true)
		} else {
			r.fail("R3.4", id, "neither the reflected polynomial 0xA001 nor a lookup table occurs in the routine", pos, "", "crc-polynomial")
		}
		return
	}
	for _, g := range tables {
		vals, ok := globalArrayConsts(c, "packet", g.Name())
		if !ok {
			// a table computed when the package (or its first user, under sync.Once) initialises: its
			// contents are not evaluated; like for the bitwise form, the constants are: the reflected
			// polynomial occurs in the code that fills it, and nothing else writes it (the reads'
			// ordering after the Once is the shared-state rule's business, R3.5)
			if builders, okB := tableBuilders(c, g); okB && len(builders) > 0 {
				has := false
				var names []string
				for _, bf := range builders {
					names = append(names, bf.Name())
					for _, b := range bf.Blocks {
						for _, in := range b.Instrs {
							for _, op := range in.Operands(nil) {
								if k, isK := (*op).(*ssa.Const); isK && k.Value != nil && k.Value.Kind() == constant.Int {
									if v, exact := constant.Int64Val(k.Value); exact && v == 0xA001 {
										has = true
									}
								}
							}
						}
					}
				}
				sort.Strings(names)
				if has {
					r.ok("R3.4", id, "lookup table "+g.Name()+" is filled once at initialisation by "+strings.Join(names, ", ")+", in which the reflected polynomial 0xA001 occurs (constants only: the table's contents are not evaluated)", pos, true)
				} else {
					r.fail("R3.4", id, "the code that fills lookup table "+g.Name()+" does not contain the reflected polynomial 0xA001", pos, strings.Join(names, ", "), "crc-polynomial")
				}
				continue
			}
		}
		if !ok || len(vals) != 256 || globalWrittenOutsideInit(c, g) {
			r.undecided("R3.4", id, "lookup table "+g.Name()+" is not a constant 256-entry composite literal that is never written", pos)
			continue
		}
		bad := -1
		for i := 0; i < 256; i++ {
			e := uint16(i)
			for k := 0; k < 8; k++ {
				if e&1 != 0 {
					e = e>>1 ^ 0xA001
				} else {
					e >>= 1
				}
			}
			if vals[i] != int64(e) && bad < 0 {
				bad = i
			}
		}
		if bad < 0 {
			r.ok("R3.4", id, "lookup table "+g.Name()+" equals the 256-entry table of the reflected polynomial 0xA001", pos, true)
		} else {
			r.fail("R3.4", id, fmt.Sprintf("lookup table %s differs from the table of polynomial 0xA001 at index %d", g.Name(), bad), pos, fmt.Sprintf("entry %d is %#04x", bad, vals[bad]), fmt.Sprintf("crc-table:%d", bad))
		}
	}
}

// globalWrittenOutsideInit: some function other than the package initialiser stores to the
// global or to an element/field of it, or takes a slice of it (which could be written through).
func globalWrittenOutsideInit(c *Ctx, g *ssa.Global) bool {
	for _, fn := range c.allFuncs("packet") {
		if fn.Name() == "init" {
			continue
		}
		for _, b := range fn.Blocks {
			for _, in := range b.Instrs {
				switch x := in.(type) {
				case *ssa.Store:
					if globalBase(x.Addr, 0, map[ssa.Value]bool{}) == g {
						return true
					}
				case *ssa.Slice:
					if x.X == ssa.Value(g) {
						return true
					}
				}
			}
		}
	}
	return false
}

// tableBuilders: the functions that fill package-level table g, provided every writer is the
// package initialiser (directly, or by storing the result of a module function) or a function
// handed to (*sync.Once).Do. ok is false when some other function writes the table.
func tableBuilders(c *Ctx, g *ssa.Global) ([]*ssa.Function, bool) {
	var out []*ssa.Function
	seen := map[*ssa.Function]bool{}
	add := func(f *ssa.Function) {
		if f != nil && !seen[f] {
			seen[f] = true
			out = append(out, f)
		}
	}
	onceArg := map[*ssa.Function]bool{}
	for _, fn := range c.allFuncs("packet") {
		for _, b := range fn.Blocks {
			for _, in := range b.Instrs {
				call, ok := in.(ssa.CallInstruction)
				if !ok {
					continue
				}
				sc := call.Common().StaticCallee()
				if sc == nil || sc.String() != "(*sync.Once).Do" || len(call.Common().Args) != 2 {
					continue
				}
				switch a := call.Common().Args[1].(type) {
				case *ssa.Function:
					onceArg[a] = true
				case *ssa.MakeClosure:
					if f, ok := a.Fn.(*ssa.Function); ok {
						onceArg[f] = true
					}
				}
			}
		}
	}
	fns := c.allFuncs("packet")
	if ini := c.pkg("packet").Func("init"); ini != nil {
		fns = append(fns, ini) // the synthetic package initialiser
	}
	for _, fn := range fns {
		for _, b := range fn.Blocks {
			for _, in := range b.Instrs {
				switch x := in.(type) {
				case *ssa.Store:
					if globalBase(x.Addr, 0, map[ssa.Value]bool{}) != g {
						continue
					}
					switch {
					case fn.Name() == "init" && fn.Parent() == nil:
						add(fn)
						if call, ok := x.Val.(*ssa.Call); ok {
							if sc := call.Common().StaticCallee(); sc != nil && c.inModule(sc) {
								add(sc)
							}
						}
					case onceArg[fn]:
						add(fn)
					default:
						return nil, false
					}
				case *ssa.Slice:
					if x.X == ssa.Value(g) && !(fn.Name() == "init" && fn.Parent() == nil) && !onceArg[fn] {
						return nil, false
					}
				}
			}
		}
	}
	return out, true
}
