package main

import "testing"

func TestFMBasic(t *testing.T) {
	u := newUniverse()
	d := u.sym("d", 0, 255)
	ln := u.sym("len", 0, maxLen)
	b8 := u.sym("b8", 0, 255)
	nl := u.boolSym("nil")
	c := Conj{
		atomEQ(affSym(ln), affSym(b8).addc(9)),
		atomNE(affSym(d), affConst(1)),
		atomNE(affSym(d), affConst(2)),
		atomNE(affSym(d), affConst(3)),
		atomEQ(affSym(d), affConst(4)),
		atomGE(affSym(ln), affConst(11)),
		atomGE(affSym(ln), affConst(8)),
		atomNE(affSym(ln), affConst(9)),
		atomEQ(affSym(nl), affConst(1)),
	}
	if infeasible(c) {
		t.Fatalf("feasible conj reported infeasible: %s", c)
	}
	c2 := Conj{atomEQ(affSym(d), affConst(4)), atomNE(affSym(d), affConst(1))}
	if infeasible(c2) {
		t.Fatalf("c2")
	}
	c3 := Conj{atomEQ(affSym(d), affConst(4)), atomNE(affSym(d), affConst(4))}
	if !infeasible(c3) {
		t.Fatalf("c3")
	}
}

func TestFMDivChain(t *testing.T) {
	u := newUniverse()
	ln := u.sym("len", 0, maxLen)
	f := &Frame{an: &Analysis{u: u}}
	d8 := f.divSym(affSym(ln), 8)
	cnt := u.sym("cnt", -bigNum, bigNum)
	dc := f.divSym(affSym(cnt), 65536)
	t3 := u.sym("t3", 0, 65535)
	c := Conj{
		atomEQ(affSym(cnt), affSym(d8)),
		atomLE(affSym(ln), affConst(1968)),
		atomNE(affSym(ln), affConst(0)),
		atomEQ(affSym(t3), affSym(cnt).sub(affSym(dc).scale(65536)).addc(7)),
	}
	if !c.entails(atomLE(affSym(cnt), affConst(246))) {
		t.Fatalf("cnt <= 246 not proven")
	}
	if !c.entails(atomGE(affSym(dc), affConst(0))) {
		t.Fatalf("dc >= 0 not proven")
	}
	if !c.entails(atomLE(affSym(t3).addc(2), affConst(65535))) {
		t.Fatalf("t3+2 <= 65535 not proven; gaveup=%d", fmStats.gaveUp)
	}
}
