package main

import "testing"

func TestFMBasic(t *testing.T) {
	u := newUniverse()
	d := u.sym("d", 0, 255)
	ln := u.sym("len", 0, maxLen)
	b8 := u.sym("b8", 0, 255)
	nl := u.boolSym("nil")
	c := Conj{
		atomEQ(affSym(ln), affSym(b8).addc(9)),
		atomNE(affSym(d), affConst(1)),
		atomNE(affSym(d), affConst(2)),
		atomNE(affSym(d), affConst(3)),
		atomEQ(affSym(d), affConst(4)),
		atomGE(affSym(ln), affConst(11)),
		atomGE(affSym(ln), affConst(8)),
		atomNE(affSym(ln), affConst(9)),
		atomEQ(affSym(nl), affConst(1)),
	}
	if infeasible(c) {
		t.Fatalf("feasible conj reported infeasible: %s", c)
	}
	c2 := Conj{atomEQ(affSym(d), affConst(4)), atomNE(affSym(d), affConst(1))}
	if infeasible(c2) {
		t.Fatalf("c2")
	}
	c3 := Conj{atomEQ(affSym(d), affConst(4)), atomNE(affSym(d), affConst(4))}
	if !infeasible(c3) {
		t.Fatalf("c3")
	}
}
