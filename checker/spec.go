package main

// Specification tables (DESIGN 1.5), written from "MODBUS Application Protocol
// Specification V1.1b3" and "MODBUS over Serial Line V1.02", not from the repository.

import (
	"fmt"
	"go/types"

	"golang.org/x/tools/go/ssa"
)

type segKind int

const (
	sBE16      segKind = iota // 16-bit big-endian field
	sByteCount                // one byte = number of bytes of the named payload field
	sBytes                    // the payload field's bytes, contiguous
	sCoil                     // 16-bit big-endian 0xFF00 / 0x0000 for a bool field
	sByte                     // one byte field
	sCountByte                // one byte holding the named uint8 field that plays the byte-count role
)

type specSeg struct {
	kind  segKind
	field string
}

type qtyLimit struct {
	field  string // struct field holding the quantity
	lo, hi int64
	// payload relation: "" none, "ceil8": len(payload) = ceil(q/8), "x2": len(payload) = 2q
	rel     string
	payload string
}

type fcSpec struct {
	fc   int64
	name string
	req  []specSeg
	resp []specSeg
	lim  []qtyLimit
}

// Field names are the library's spelling of the specification's roles (second frozen table
// of DESIGN 1.5); an anchored struct without a mapped field is an unresolved anchor.
var specTable = []fcSpec{
	{1, "Read Coils", []specSeg{{sBE16, "StartAddress"}, {sBE16, "Quantity"}}, []specSeg{{sByteCount, "Data"}, {sBytes, "Data"}},
		[]qtyLimit{{"Quantity", 1, 2000, "", ""}}},
	{2, "Read Discrete Inputs", []specSeg{{sBE16, "StartAddress"}, {sBE16, "Quantity"}}, []specSeg{{sByteCount, "Data"}, {sBytes, "Data"}},
		[]qtyLimit{{"Quantity", 1, 2000, "", ""}}},
	{3, "Read Holding Registers", []specSeg{{sBE16, "StartAddress"}, {sBE16, "Quantity"}}, []specSeg{{sCountByte, "RegisterByteLen"}, {sBytes, "Data"}},
		[]qtyLimit{{"Quantity", 1, 125, "", ""}}},
	{4, "Read Input Registers", []specSeg{{sBE16, "StartAddress"}, {sBE16, "Quantity"}}, []specSeg{{sCountByte, "RegisterByteLen"}, {sBytes, "Data"}},
		[]qtyLimit{{"Quantity", 1, 125, "", ""}}},
	{5, "Write Single Coil", []specSeg{{sBE16, "Address"}, {sCoil, "CoilState"}}, []specSeg{{sBE16, "StartAddress"}, {sCoil, "CoilState"}}, nil},
	{6, "Write Single Register", []specSeg{{sBE16, "Address"}, {sBytes, "Data"}}, []specSeg{{sBE16, "Address"}, {sBytes, "Data"}}, nil},
	{15, "Write Multiple Coils", []specSeg{{sBE16, "StartAddress"}, {sBE16, "CoilCount"}, {sByteCount, "Data"}, {sBytes, "Data"}},
		[]specSeg{{sBE16, "StartAddress"}, {sBE16, "CoilCount"}}, []qtyLimit{{"CoilCount", 1, 1968, "ceil8", "Data"}}},
	{16, "Write Multiple Registers", []specSeg{{sBE16, "StartAddress"}, {sBE16, "RegisterCount"}, {sByteCount, "Data"}, {sBytes, "Data"}},
		[]specSeg{{sBE16, "StartAddress"}, {sBE16, "RegisterCount"}}, []qtyLimit{{"RegisterCount", 1, 123, "x2", "Data"}}},
	{17, "Read Server ID", nil, []specSeg{{sByteCount, "ServerID"}, {sBytes, "ServerID"}, {sByte, "Status"}, {sBytes, "AdditionalData"}}, nil},
	{23, "Read/Write Multiple Registers", []specSeg{{sBE16, "ReadStartAddress"}, {sBE16, "ReadQuantity"}, {sBE16, "WriteStartAddress"}, {sBE16, "WriteQuantity"}, {sByteCount, "WriteData"}, {sBytes, "WriteData"}},
		[]specSeg{{sCountByte, "RegisterByteLen"}, {sBytes, "Data"}},
		[]qtyLimit{{"ReadQuantity", 1, 125, "", ""}, {"WriteQuantity", 1, 121, "x2", "WriteData"}}},
}

const (
	maxTCPADU = 260
	maxRTUADU = 256
)

func specFor(fc int64) *fcSpec {
	for i := range specTable {
		if specTable[i].fc == fc {
			return &specTable[i]
		}
	}
	return nil
}

// findField looks up a (possibly promoted) field by name in an abstract struct value.
func findField(u *Universe, v AV, t types.Type, name string, depth int) (AV, types.Type, bool) {
	st, ok := t.Underlying().(*types.Struct)
	if !ok || depth > 3 {
		return nil, nil, false
	}
	for i := 0; i < st.NumFields(); i++ {
		if st.Field(i).Name() == name {
			return u.fieldOf(v, i), st.Field(i).Type(), true
		}
	}
	for i := 0; i < st.NumFields(); i++ {
		if st.Field(i).Embedded() {
			if fv, ft, ok := findField(u, u.fieldOf(v, i), st.Field(i).Type(), name, depth+1); ok {
				return fv, ft, true
			}
		}
	}
	return nil, nil, false
}

// functionCodeOf evaluates T.FunctionCode() to its constant.
func functionCodeOf(c *Ctx, tn *types.Named) (int64, bool) {
	ms := c.prog.MethodSets.MethodSet(tn)
	for i := 0; i < ms.Len(); i++ {
		if ms.At(i).Obj().Name() != "FunctionCode" {
			continue
		}
		fn := c.prog.MethodValue(ms.At(i))
		if fn == nil {
			return 0, false
		}
		return constResult(c, fn)
	}
	return 0, false
}

// constResult: the function returns the same integer constant on every path.
func constResult(c *Ctx, fn *ssa.Function) (int64, bool) {
	// follow synthetic promotion wrappers
	for depth := 0; depth < 4 && fn.Synthetic != "" && len(fn.Blocks) > 0; depth++ {
		var callee *ssa.Function
		for _, b := range fn.Blocks {
			for _, in := range b.Instrs {
				if ci, ok := in.(ssa.CallInstruction); ok {
					callee = ci.Common().StaticCallee()
				}
			}
		}
		if callee == nil {
			break
		}
		fn = callee
	}
	var val *int64
	for _, b := range fn.Blocks {
		for _, in := range b.Instrs {
			ret, ok := in.(*ssa.Return)
			if !ok {
				continue
			}
			if len(ret.Results) != 1 {
				return 0, false
			}
			k, ok := stripConv(ret.Results[0]).(*ssa.Const)
			if !ok || k.Value == nil {
				return 0, false
			}
			v := k.Int64()
			if val != nil && *val != v {
				return 0, false
			}
			val = &v
		}
	}
	if val == nil {
		return 0, false
	}
	return *val, true
}

// hasMBAP: the struct embeds a field whose type is named MBAPHeader (TCP framing).
func hasMBAP(tn *types.Named) bool {
	st, ok := tn.Underlying().(*types.Struct)
	if !ok {
		return false
	}
	for i := 0; i < st.NumFields(); i++ {
		if n, ok := st.Field(i).Type().(*types.Named); ok && n.Obj().Name() == "MBAPHeader" {
			return true
		}
	}
	return false
}

// expSeg is one expected segment of a frame: a value or a slice of bytes.
type expSeg struct {
	what string
	n    int   // 1 or 2 for integer values
	val  *Aff  // integer value (big-endian when n==2)
	cond *Form // for sCoil: val is 0xFF00 when cond holds else 0
	src  *ASlice
}

// expectedLayout instantiates the specification layout of a request or response of the
// given function code for receiver value recv of type tn. crcLo/crcHi may be nil (TCP).
func expectedLayout(u *Universe, recv AV, tn *types.Named, sp *fcSpec, segs []specSeg, tcp bool, L Aff) ([]expSeg, string) {
	var out []expSeg
	intField := func(name string) (*Aff, string) {
		fv, _, ok := findField(u, recv, tn, name, 0)
		if !ok {
			return nil, "unresolved anchor: no field " + name + " in " + tn.Obj().Name()
		}
		ai, ok := fv.(AInt)
		if !ok {
			return nil, "field " + name + " is not an integer"
		}
		a := ai.a
		if len(ai.conds) != 0 {
			if ai.fallback == nil {
				return nil, "field " + name + " is not an exact integer"
			}
			a = affSym(ai.fallback)
		}
		return &a, ""
	}
	if tcp {
		tid, why := intField("TransactionID")
		if tid == nil {
			return nil, why
		}
		zero := affConst(0)
		ln := L.addc(-6)
		out = append(out, expSeg{what: "transaction id", n: 2, val: tid}, expSeg{what: "protocol id 0", n: 2, val: &zero}, expSeg{what: "length field = bytes that follow", n: 2, val: &ln})
	}
	unit, why := intField("UnitID")
	if unit == nil {
		return nil, why
	}
	fc := affConst(sp.fc)
	out = append(out, expSeg{what: "unit id", n: 1, val: unit}, expSeg{what: fmt.Sprintf("function code %d", sp.fc), n: 1, val: &fc})
	for _, sg := range segs {
		fv, _, ok := findField(u, recv, tn, sg.field, 0)
		if !ok {
			return nil, "unresolved anchor: no field " + sg.field + " in " + tn.Obj().Name()
		}
		switch sg.kind {
		case sBE16, sByte, sCountByte:
			ai, ok := fv.(AInt)
			if !ok || len(ai.conds) != 0 {
				return nil, "field " + sg.field + " is not an exact integer"
			}
			a := ai.a
			n := 2
			if sg.kind != sBE16 {
				n = 1
			}
			out = append(out, expSeg{what: sg.field, n: n, val: &a})
		case sCoil:
			b, ok := fv.(ABool)
			if !ok {
				return nil, "field " + sg.field + " is not a bool"
			}
			out = append(out, expSeg{what: sg.field + " as 0xFF00/0x0000", n: 2, cond: b.f})
		case sByteCount:
			s, ok := fv.(ASlice)
			if !ok {
				return nil, "field " + sg.field + " is not a byte sequence"
			}
			ln := s.ln
			out = append(out, expSeg{what: "byte count = len(" + sg.field + ")", n: 1, val: &ln})
		case sBytes:
			s, ok := fv.(ASlice)
			if !ok {
				return nil, "field " + sg.field + " is not a byte sequence"
			}
			ss := s
			out = append(out, expSeg{what: sg.field + " bytes", src: &ss})
		}
	}
	return out, ""
}

// matchLayout compares the tiled writes with the expected segments under conj cj.
// trailer: number of trailing bytes (CRC) not described by exp.
func matchLayout(fr *Frame, cj Conj, segs []*Write, widths []Aff, exp []expSeg, trailer int) (bool, string) {
	i := 0
	intVal := func(w *Write) (Aff, bool) {
		ai, ok := w.val.(AInt)
		if !ok {
			return Aff{}, false
		}
		return fr.useIn(ai, DNF{cj}, "layout"), true
	}
	for _, e := range exp {
		if e.src != nil {
			// zero-length payloads produce no segment
			if cj.entails(atomEQ(e.src.ln, affConst(0))) || e.src.isNil {
				continue
			}
			if i >= len(segs) {
				return false, "missing segment for " + e.what
			}
			w := segs[i]
			if w.kind == wByte && e.src.ln.isConst() && e.src.ln.c >= 1 && e.src.ln.c <= 16 && i+int(e.src.ln.c) <= len(segs) {
				// a short fixed-size field written byte by byte: byte j of the field at offset j
				k := int(e.src.ln.c)
				okBytes := true
				for j := 0; j < k; j++ {
					wj := segs[i+j]
					v, isI := intVal(wj)
					if wj.kind != wByte || !isI || !cj.entails(atomEQ(v, fr.frameBytes(*e.src, affConst(int64(j)), 1, true))) {
						okBytes = false
					}
				}
				if okBytes {
					i += k
					continue
				}
				if v0, ok := intVal(w); ok {
					return false, fmt.Sprintf("%s: byte at offset %s holds %s, want byte 0 of the field (%s) (%s)", e.what, w.off.String(), v0.String(), fr.frameBytes(*e.src, affConst(0), 1, true).String(), w.pos)
				}
			}
			if w.kind != wCopy {
				return false, fmt.Sprintf("%s: expected a contiguous copy of the field at offset %s, found a different write (%s)", e.what, w.off.String(), w.pos)
			}
			src := w.val.(ASlice)
			want := ASlice{root: e.src.root, off: e.src.off, ln: widths[i]}
			got := ASlice{root: src.root, off: src.off, ln: widths[i]}
			if !sameBytes(cj, got, want) || !cj.entails(atomEQ(widths[i], e.src.ln)) {
				return false, fmt.Sprintf("%s: copied bytes are %s[%s:+%s], want the whole field (%s bytes)", e.what, src.root.key, src.off.String(), widths[i].String(), e.src.ln.String())
			}
			i++
			continue
		}
		if i >= len(segs) {
			return false, "missing segment for " + e.what
		}
		w := segs[i]
		checkVal := func(got Aff) bool {
			if e.cond != nil {
				on := dnfAnd(DNF{cj}, e.cond.dnf(false))
				off := dnfAnd(DNF{cj}, e.cond.dnf(true))
				return on.entails(atomEQ(got, affConst(0xFF00))) && off.entails(atomEQ(got, affConst(0)))
			}
			return cj.entails(atomEQ(got, *e.val))
		}
		switch {
		case e.n == 1:
			v, ok := intVal(w)
			if w.kind != wByte || !ok {
				return false, fmt.Sprintf("%s: expected one byte at offset %s (%s)", e.what, w.off.String(), w.pos)
			}
			if !checkVal(v) {
				return false, fmt.Sprintf("%s: byte at offset %s holds %s, want %s", e.what, w.off.String(), v.String(), e.val.String())
			}
			i++
		case e.n == 2 && w.kind == wBEn && w.n == 2:
			v, ok := intVal(w)
			if !ok || !checkVal(v) {
				want := "0xFF00/0x0000"
				if e.val != nil {
					want = e.val.String()
				}
				return false, fmt.Sprintf("%s: big-endian 16-bit value at offset %s is %s, want %s", e.what, w.off.String(), describeAV(w.val), want)
			}
			i++
		case e.n == 2 && w.kind == wByte && i+1 < len(segs) && segs[i+1].kind == wByte:
			hi, ok1 := intVal(w)
			lo, ok2 := intVal(segs[i+1])
			if !ok1 || !ok2 || !checkVal(hi.scale(256).add(lo)) {
				return false, fmt.Sprintf("%s: bytes at offset %s are not the big-endian encoding", e.what, w.off.String())
			}
			i += 2
		case e.n == 2 && w.kind == wLEn:
			return false, fmt.Sprintf("%s: written little-endian at offset %s", e.what, w.off.String())
		default:
			return false, fmt.Sprintf("%s: unexpected write kind at offset %s (%s)", e.what, w.off.String(), w.pos)
		}
	}
	// the trailer may be written as separate byte stores or as one multi-byte store: count bytes
	tb := int64(0)
	okTB := true
	for _, w := range widths[i:] {
		if !w.isConst() {
			okTB = false
		}
		tb += w.c
	}
	if !okTB || tb != int64(trailer) {
		return false, fmt.Sprintf("%d unexpected extra segment(s) after the specified fields", len(segs)-i-trailer)
	}
	return true, ""
}
