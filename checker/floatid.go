package main

// R4.8 / R5.14 — float bit identity, structural part (DESIGN §9.4, round 10).
//
// A float obtained from math.Float32frombits / math.Float64frombits is the device's bit
// pattern. A conversion between float types of different width (float32 -> float64 or back)
// is exact for every value except signalling NaNs, which the hardware quiets
// (0x7FA00001 -> 0x7FE00001): a decoded float that takes a detour through the other width
// and is then handed on (returned, boxed in an interface, stored, or narrowed back) is no
// longer bit-identical with the wire bytes. The rule follows decoded floats through phis,
// local spills, calls and returns of module functions (fixpoint over the library packages)
// and reports a width conversion of such a value whose result is handed on. A widened copy
// that is only inspected (math.IsNaN(float64(v)), comparison, formatting through a call
// outside the module) is not reported.

import (
	"fmt"
	"go/token"
	"go/types"

	"golang.org/x/tools/go/ssa"
)

func floatWidth(t types.Type) int {
	b, ok := t.Underlying().(*types.Basic)
	if !ok {
		return 0
	}
	switch b.Kind() {
	case types.Float32:
		return 32
	case types.Float64, types.UntypedFloat:
		return 64
	}
	return 0
}

// floatBitIdentity runs the rule over fns; returns the number of decode sites found and
// whether anything was reported.
func floatBitIdentity(c *Ctx, r *Report, rule string, fns []*ssa.Function) (sites int, fired bool) {
	const (
		decoded   = 1 // bit pattern of the wire
		converted = 2 // went through a float type of another width
	)
	level := map[ssa.Value]int{}
	convAt := map[ssa.Value]*ssa.Convert{} // the conversion a level-2 value came through
	inSet := map[*ssa.Function]bool{}
	for _, f := range fns {
		inSet[f] = true
	}
	var seeds []*ssa.Call
	for _, fn := range fns {
		for _, b := range fn.Blocks {
			for _, in := range b.Instrs {
				call, ok := in.(*ssa.Call)
				if !ok {
					continue
				}
				cal := call.Common().StaticCallee()
				if cal == nil || cal.Pkg == nil || cal.Pkg.Pkg.Path() != "math" {
					continue
				}
				if cal.Name() == "Float32frombits" || cal.Name() == "Float64frombits" {
					level[call] = decoded
					seeds = append(seeds, call)
				}
			}
		}
	}
	raise := func(v ssa.Value, l int, via *ssa.Convert) bool {
		if floatWidth(v.Type()) == 0 {
			if _, isTuple := v.Type().(*types.Tuple); !isTuple {
				if _, isPtr := v.Type().Underlying().(*types.Pointer); !isPtr {
					return false
				}
			}
		}
		if level[v] >= l {
			return false
		}
		level[v] = l
		if l == converted && via != nil {
			convAt[v] = via
		}
		return true
	}
	cg := c.callGraph()
	// per-result levels of module functions: fn -> result index -> level (+ conversion)
	type resKey struct {
		fn *ssa.Function
		i  int
	}
	resLevel := map[resKey]int{}
	resConv := map[resKey]*ssa.Convert{}
	for changed := true; changed; {
		changed = false
		for _, fn := range fns {
			for _, b := range fn.Blocks {
				for _, in := range b.Instrs {
					switch x := in.(type) {
					case *ssa.Phi:
						for _, e := range x.Edges {
							if l := level[e]; l > 0 && raise(x, l, convAt[e]) {
								changed = true
							}
						}
					case *ssa.ChangeType:
						if l := level[x.X]; l > 0 && raise(x, l, convAt[x.X]) {
							changed = true
						}
					case *ssa.Convert:
						l := level[x.X]
						if l == 0 {
							continue
						}
						ws, wd := floatWidth(x.X.Type()), floatWidth(x.Type())
						if ws == 0 || wd == 0 {
							continue
						}
						via := convAt[x.X]
						if ws != wd {
							l = converted
							if via == nil {
								via = x
							}
						}
						if raise(x, l, via) {
							changed = true
						}
					case *ssa.Store:
						// local spill: the alloc carries the level of what is stored in it
						if al, ok := x.Addr.(*ssa.Alloc); ok {
							if l := level[x.Val]; l > 0 && raise(al, l, convAt[x.Val]) {
								changed = true
							}
						}
					case *ssa.UnOp:
						if x.Op == token.MUL {
							if al, ok := x.X.(*ssa.Alloc); ok {
								if l := level[al]; l > 0 && raise(x, l, convAt[al]) {
									changed = true
								}
							}
						}
					case *ssa.Extract:
						if call, ok := x.Tuple.(*ssa.Call); ok {
							for _, cal := range calleesOfCall(cg, call) {
								k := resKey{cal, x.Index}
								if l := resLevel[k]; l > 0 && raise(x, l, resConv[k]) {
									changed = true
								}
							}
						}
					case *ssa.Call:
						for _, cal := range calleesOfCall(cg, x) {
							if !inSet[cal] {
								continue
							}
							// arguments -> parameters
							args := x.Common().Args
							off := 0
							if x.Common().IsInvoke() {
								off = 1
							}
							for i, a := range args {
								if l := level[a]; l > 0 && i+off < len(cal.Params) {
									if raise(cal.Params[i+off], l, convAt[a]) {
										changed = true
									}
								}
							}
							if cal.Signature.Results().Len() == 1 {
								k := resKey{cal, 0}
								if l := resLevel[k]; l > 0 && raise(x, l, resConv[k]) {
									changed = true
								}
							}
						}
					case *ssa.Return:
						for i, v := range x.Results {
							if l := level[v]; l > resLevel[resKey{fn, i}] {
								resLevel[resKey{fn, i}] = l
								resConv[resKey{fn, i}] = convAt[v]
								changed = true
							}
						}
					}
				}
			}
		}
	}
	// report: a converted value that is handed on
	reported := map[*ssa.Convert]bool{}
	report := func(v ssa.Value, how string, fn *ssa.Function, pos token.Pos) {
		cv := convAt[v]
		if cv == nil || reported[cv] {
			return
		}
		reported[cv] = true
		fired = true
		r.fail(rule, fnID(cv.Parent()),
			fmt.Sprintf("a float decoded with math.Float%dfrombits is converted to float%d and then %s in %s: the detour quiets signalling NaNs, so the value is not bit-identical with the wire bytes",
				floatWidth(cv.X.Type()), floatWidth(cv.Type()), how, fnID(fn)),
			c.pos(cv.Pos()), "", "float-width-detour:"+fnID(cv.Parent()))
	}
	for _, fn := range fns {
		for _, b := range fn.Blocks {
			for _, in := range b.Instrs {
				switch x := in.(type) {
				case *ssa.Convert:
					if level[x.X] == converted && floatWidth(x.Type()) != 0 && floatWidth(x.Type()) != floatWidth(x.X.Type()) {
						report(x.X, "narrowed/widened back", fn, x.Pos())
					}
				case *ssa.Return:
					if fn.Object() != nil && fn.Object().Exported() || fn.Parent() != nil {
						for _, v := range x.Results {
							if level[v] == converted {
								report(v, "returned", fn, x.Pos())
							}
						}
					}
				case *ssa.MakeInterface:
					if level[x.X] == converted {
						report(x.X, "boxed in an interface", fn, x.Pos())
					}
				case *ssa.Store:
					if _, local := x.Addr.(*ssa.Alloc); !local && level[x.Val] == converted {
						report(x.Val, "stored", fn, x.Pos())
					}
				}
			}
		}
	}
	for _, s := range seeds {
		r.instance(rule, 1)
		if !fired {
			r.ok(rule, fnID(s.Parent()), "the float decoded by "+s.Common().StaticCallee().Name()+" reaches its users without a detour through a float type of another width", c.pos(s.Pos()), true)
		}
	}
	return len(seeds), fired
}

// calleesOfCall: the module functions a call may reach (static callee, or the call graph's
// edges for dynamic calls).
func calleesOfCall(cg interface{}, call *ssa.Call) []*ssa.Function {
	if f := call.Common().StaticCallee(); f != nil {
		return []*ssa.Function{f}
	}
	return nil
}
