package main

// C10 — no parser panics or reads past its input (DESIGN §3 C10).

import (
	"fmt"
	"go/types"
	"sort"
	"strings"

	"golang.org/x/tools/go/ssa"
)

func init() {
	register("C10", checkC10, "Static bounds/no-panic analysis of every parsing entry point: each exported function of package packet whose first parameter is []byte (request/response parsers, dispatchers, header parser, exception recognisers, stream classifier, CRC16) is abstractly interpreted context-free (any input, any capacity) with all module-local callees inlined. Every index, slice, make, encoding/binary access and unchecked type assertion reachable from it yields an obligation against len (never cap), discharged by a relational abstract domain (linear facts from dominating guards and callee summaries, Fourier-Motzkin entailment with integer tightening, rule W for narrow-typed arithmetic). R10.3 checks on every return path that a non-nil error is accompanied by a nil value or nil pointer. What is decided is the absence of the panic/over-read conditions for ALL inputs under the stated engine assumptions; nothing is executed. Index obligations also cover arrays the engine does not model as buffers (package-level tables, array-typed fields): 0 <= index < N with N from the type. R10.3 counts an interface holding a nil pointer as a nil value. Obligations of a helper inlined under several call contexts are kept per context when one fails.")
}

// parseEntryPoints: exported functions of pkg whose first parameter is []byte.
func parseEntryPoints(c *Ctx, pkgRel string) []*ssa.Function {
	sp := c.pkg(pkgRel)
	var out []*ssa.Function
	for _, m := range sp.Members {
		fn, ok := m.(*ssa.Function)
		if !ok || fn.Object() == nil || !fn.Object().Exported() || fn.Signature.Recv() != nil {
			continue
		}
		ps := fn.Signature.Params()
		if ps.Len() == 0 {
			continue
		}
		sl, ok := ps.At(0).Type().Underlying().(*types.Slice)
		if !ok {
			continue
		}
		if b, ok := sl.Elem().Underlying().(*types.Basic); !ok || b.Kind() != types.Uint8 {
			continue
		}
		out = append(out, fn)
	}
	sort.Slice(out, func(i, j int) bool { return out[i].Name() < out[j].Name() })
	return out
}

func analyse(c *Ctx, fn *ssa.Function) (*Analysis, *Frame) {
	an := &Analysis{ctx: c, u: newUniverse(), top: fn}
	fr := an.newFrame(fn, nil, nil)
	fr.run(dnfTrue())
	return an, fr
}

func fnID(fn *ssa.Function) string {
	s := fn.String()
	s = strings.ReplaceAll(s, modPath+"/", "")
	s = strings.ReplaceAll(s, modPath+".", "modbus.")
	s = strings.ReplaceAll(s, modPath, "modbus")
	return s
}

// nilOrNilPtr: formula "value is nil or a (boxed) nil pointer".
func (f *Frame) nilOrNilPtr(v AV) *Form {
	switch x := v.(type) {
	case AIface:
		return f.nilOrNilPtr(x.val)
	case ARef:
		if x.deepNil != nil {
			return formAtom(atomEQ(affSym(x.deepNil), affConst(1)))
		}
		if x.inner != nil {
			if ii, ok := x.inner.(AIface); ok {
				// either the interface itself is nil, or it boxes a nil pointer
				return formOr(f.nilness(x), f.nilOrNilPtr(ii.val))
			}
		}
	}
	return f.nilness(v)
}

func isRefType(t types.Type) bool {
	switch t.Underlying().(type) {
	case *types.Pointer, *types.Interface, *types.Slice, *types.Map:
		return true
	}
	return false
}

func isErrorType(t types.Type) bool {
	return types.Identical(t, types.Universe.Lookup("error").Type())
}

func runC10On(c *Ctx, r *Report, pkgRel string, extra []*ssa.Function, control bool) (fired map[string]bool) {
	fired = map[string]bool{}
	eps := append(parseEntryPoints(c, pkgRel), extra...)
	for _, fn := range eps {
		an, fr := analyse(c, fn)
		id := fnID(fn)
		if !control {
			r.funcs[id] = true
			r.instance("R10.1", 1)
		}
		seen := map[string]bool{}
		for _, o := range failFirst(an.obligs) {
			rule := "R10.1"
			if o.kind == "assert" {
				rule = "R10.2"
			}
			what := fmt.Sprintf("%s in %s", o.desc, o.chain)
			key := rule + what + c.pos(o.pos)
			if seen[key] {
				continue
			}
			seen[key] = true
			if control {
				if !o.ok {
					fired[fn.Name()+":"+o.kind] = true
				}
				continue
			}
			if o.ok {
				r.add(Item{Rule: rule, Construct: id, What: what, Pos: c.pos(o.pos), OK: true, Nontrivial: o.goal != ""})
			} else {
				sig := o.kind + ":" + c.exprAt(o.pos, o.fn)
				r.add(Item{Rule: rule, Construct: id, What: what + " — cannot prove " + o.goal, Pos: c.pos(o.pos), OK: false,
					Detail: "facts: " + o.facts, Signature: sig, Nontrivial: true})
			}
		}
		for _, w := range an.wraps {
			if control {
				fired[fn.Name()+":wrap"] = true
			}
			_ = w
		}
		// R10.3: error => nil value on every return path
		sig := fn.Signature
		nres := sig.Results().Len()
		if nres >= 2 && isErrorType(sig.Results().At(nres-1).Type()) && isRefType(sig.Results().At(0).Type()) {
			if !control {
				r.instance("R10.3", 1)
			}
			for _, rs := range fr.returns {
				ev, vv := rs.vals[nres-1], rs.vals[0]
				errNil := fr.nilness(ev)
				valNil := fr.nilOrNilPtr(vv)
				st := rs.state
				// (a) err != nil => value nil
				bad := dnfAnd(dnfAnd(st, errNil.dnf(true)), valNil.dnf(true))
				okA := true
				for _, cj := range bad {
					if !infeasible(cj.with(an.global...)) {
						okA = false
					}
				}
				// (b) err == nil => value non-nil
				// (a value that is an interface holding a nil pointer counts as nil: every method call on it panics)
				bad2 := dnfAnd(dnfAnd(st, errNil.dnf(false)), valNil.dnf(false))
				okB := true
				for _, cj := range bad2 {
					if !infeasible(cj.with(an.global...)) {
						okB = false
					}
				}
				pos := c.pos(rs.instr.Pos())
				if control {
					if !okA {
						fired[fn.Name()+":errnil"] = true
					}
					continue
				}
				if okA {
					r.ok("R10.3", id, "return: non-nil error is accompanied by a nil value / nil pointer", pos, true)
				} else {
					r.fail("R10.3", id, "return may deliver a non-nil value together with a non-nil error", pos,
						"value="+describeAV(vv)+" err="+describeAV(ev)+" state="+truncate(st.String(), 400), "errnil:value-with-error")
				}
				if okB {
					r.ok("R10.3", id, "return: nil error is accompanied by a non-nil value", pos, true)
				} else {
					r.fail("R10.3", id, "return may deliver a nil value together with a nil error", pos,
						"value="+describeAV(vv)+" err="+describeAV(ev), "errnil:nil-nil")
				}
			}
		}
	}
	return fired
}

func checkC10(c *Ctx, r *Report) {
	r.floor("R10.1", 50)
	r.floor("R10.3", 45)
	runC10On(c, r, "packet", nil, false)
	r.assumption("SSA values are immutable; input bytes are stable because no analysed parser stores into its input slice")
	r.assumption("slice lengths are below 2^31 and int is 64 bits wide (amd64/arm64); 32-bit int overflow is not modelled")
	r.assumption("io.Reader contract 0 <= n <= len(p); no unsafe/reflect in the library packages (asserted at load)")
	r.assumption("bounds are proven against len, never cap, so a discharged obligation also excludes reads of spare capacity")
}

func debugDump(c *Ctx, spec string) {
	parts := strings.SplitN(spec, ":", 2)
	fn := c.fnMust(parts[0], parts[1])
	an, fr := analyse(c, fn)
	for _, o := range an.obligs {
		st := "OK  "
		if !o.ok {
			st = "FAIL"
		}
		fmt.Printf("%s %s %s [%s] %s\n", st, c.pos(o.pos), o.desc, o.chain, o.goal)
		if !o.ok {
			fmt.Printf("      facts: %s\n", o.facts)
		}
	}
	for _, w := range an.wraps {
		fmt.Printf("WRAP %s %s used in %s\n", w.pos, w.what, w.use)
	}
	for _, rs := range fr.returns {
		fmt.Printf("RETURN %s vals=%s\n   state=%s\n", c.pos(rs.instr.Pos()), describeAV(ATuple(rs.vals)), rs.state.String())
	}
	fmt.Printf("fm calls=%d gaveup=%d frames=%d syms=%d\n", fmStats.calls, fmStats.gaveUp, an.nframes, len(an.u.list))
}

func init() {
	controls["C10"] = func(c *Ctx, r *Report) {
		fired := runC10On(c, r, "c10", nil, true)
		r.controls["C10/R10.1-unguarded-index"] = fired["ParseUnguardedIndex:index"]
		r.controls["C10/R10.1-byte-wrap-slice"] = fired["ParseByteWrap:slice"]
		r.controls["C10/R10.1-slice-beyond-len"] = fired["ParseBeyondLen:slice"]
		r.controls["C10/R10.3-value-with-error"] = fired["ParseValueWithError:errnil"]
		r.controls["C10/R10.2-unchecked-assert"] = fired["ParseAssert:assert"]
		// negative control: the guarded parser must stay silent
		for k := range fired {
			if strings.HasPrefix(k, "ParseGood:") {
				r.controls["C10/negative-control-silent("+k+")"] = false
			}
		}
	}
}

// failFirst orders obligations so that failed ones come first. The same instruction of a helper
// is evaluated once per call context; where reports are de-duplicated by (description, position)
// a context in which the obligation fails must not be hidden by one in which it holds.
func failFirst(obs []*Oblig) []*Oblig {
	out := make([]*Oblig, 0, len(obs))
	for _, o := range obs {
		if !o.ok {
			out = append(out, o)
		}
	}
	for _, o := range obs {
		if o.ok {
			out = append(out, o)
		}
	}
	return out
}
