package main

// Configuration plumbing and connection-state rules shared by C07 / C08 / C19: what the
// constructors leave in the fields the exchange depends on.

import (
	"fmt"
	"go/constant"
	"go/types"
	"os"
	"sort"
	"strings"

	"golang.org/x/tools/go/ssa"
)

// fieldsFeeding collects the indices of fields of struct type tn whose address is loaded in the
// backward slice of v (bounded depth, through calls' arguments and receivers).
func fieldsFeeding(v ssa.Value, tn types.Type, depth int, into map[int]bool, seen map[ssa.Value]bool) {
	if v == nil || depth > 10 || seen[v] {
		return
	}
	seen[v] = true
	if fa, ok := v.(*ssa.FieldAddr); ok && types.Identical(deref(fa.X.Type()), tn) {
		into[fa.Field] = true
		return
	}
	if f, ok := v.(*ssa.Field); ok && types.Identical(f.X.Type(), tn) {
		into[f.Field] = true
		return
	}
	in, ok := v.(ssa.Instruction)
	if !ok {
		return
	}
	for _, op := range in.Operands(nil) {
		if op != nil && *op != nil {
			fieldsFeeding(*op, tn, depth+1, into, seen)
		}
	}
}

// durationRoles maps the time.Duration fields of a client type to the role their use in the
// client's methods gives them: "write" (argument of SetWriteDeadline), "read" (time.After /
// SetReadDeadline).
func durationRoles(c *Ctx, ci *clientInfo) map[int]string {
	roles := map[int]string{}
	for _, fn := range c.allFuncs("") {
		if fn.Signature.Recv() == nil || !types.Identical(deref(fn.Signature.Recv().Type()), ci.tn) {
			continue
		}
		for _, b := range fn.Blocks {
			for _, in := range b.Instrs {
				call, ok := in.(ssa.CallInstruction)
				if !ok {
					continue
				}
				cm := call.Common()
				role := ""
				switch {
				case cm.IsInvoke() && cm.Method.Name() == "SetWriteDeadline":
					role = "write"
				case cm.IsInvoke() && cm.Method.Name() == "SetReadDeadline":
					role = "read"
				case cm.StaticCallee() != nil && cm.StaticCallee().String() == "time.After":
					role = "read"
				}
				if role == "" {
					continue
				}
				fs := map[int]bool{}
				for _, a := range cm.Args {
					fieldsFeeding(a, ci.tn, 0, fs, map[ssa.Value]bool{})
				}
				for i := range fs {
					if isDuration(ci.st.Field(i).Type()) {
						roles[i] = role
					}
				}
			}
		}
	}
	return roles
}

func isDuration(t types.Type) bool {
	n, ok := t.(*types.Named)
	return ok && n.Obj().Pkg() != nil && n.Obj().Pkg().Path() == "time" && n.Obj().Name() == "Duration"
}

// configType returns the named struct type ClientConfig.
func configType(c *Ctx) *types.Named {
	m := c.pkg("").Type("ClientConfig")
	if m == nil {
		fatal("unresolved anchor: type ClientConfig")
	}
	return m.Type().(*types.Named)
}

// cfgStores: every store into a time.Duration field or a function-typed field of the client
// types must leave a usable value: a timeout proven >= 1ns where it is stored, a function
// proven non-nil; a value the caller passed to an option function for that very purpose is the
// caller's choice. A timeout taken from ClientConfig must come from the field whose name carries
// the role (Read.../Write...) the client's methods give the receiving field; and every
// ClientConfig field is consumed by some store.
func cfgStores(c *Ctx, r *Report, rule string, durations, funcs bool, hooks ...bool) {
	withHooks := len(hooks) > 0 && hooks[0]
	conf := configType(c)
	cst := conf.Underlying().(*types.Struct)
	consumed := map[int]bool{}
	for _, spec := range []struct {
		name   string
		serial bool
	}{{"Client", false}, {"SerialClient", true}} {
		ci := analyseClient(c, spec.name, spec.serial)
		roles := durationRoles(c, ci)
		want := map[int]bool{}
		for i := 0; i < ci.st.NumFields(); i++ {
			ft := ci.st.Field(i).Type()
			if durations && isDuration(ft) {
				want[i] = true
			}
			if _, isSig := ft.Underlying().(*types.Signature); funcs && isSig && (i == ci.asErr || i == ci.parse || strings.Contains(strings.ToLower(ci.st.Field(i).Name()), "dial")) {
				want[i] = true
			}
			if withHooks && i == ci.hooks {
				want[i] = true
			}
		}
		if durations {
			for i := range want {
				if isDuration(ci.st.Field(i).Type()) {
					r.instance(rule, 1)
					id := "modbus." + spec.name + "." + ci.st.Field(i).Name()
					if roles[i] != "" {
						r.ok(rule, id, "role of this timeout field from its use in the client's methods: "+roles[i], "-", false)
					} else {
						r.fail(rule, id, "a time.Duration field of the client is used for no deadline/timer", "-", "", "no-role")
					}
				}
			}
		}
		stores := storesToFields(c, "", ci.tn, want)
		frames := map[*ssa.Function][]*Frame{}
		for _, st := range stores {
			if frames[st.fn] == nil {
				frames[st.fn] = contextFrames(c, st.fn)
			}
			for _, fr := range frames[st.fn] {
				r.instance(rule, 1)
				fname := ci.st.Field(st.field).Name()
				id := fnID(st.fn)
				r.funcs[id] = true
				// which config field (if any) feeds the value
				cf := map[int]bool{}
				fieldsFeeding(st.val, conf, 0, cf, map[ssa.Value]bool{})
				for i := range cf {
					consumed[i] = true
				}
				// a configured value must be applied whenever it is set: every condition the store is
				// control-dependent on is computed from that same configuration field and constants only
				if len(cf) == 1 {
					for fi := range cf {
						if why := impureGuard(storeAt(st), conf, fi); why != "" {
							r.fail(rule, id, fmt.Sprintf("whether ClientConfig.%s is applied to %s depends on something other than that field being set", cst.Field(fi).Name(), fname), st.pos, why, "guard-not-pure:"+cst.Field(fi).Name())
						} else {
							r.ok(rule, id, fmt.Sprintf("ClientConfig.%s is applied to %s under conditions on that field alone", cst.Field(fi).Name(), fname), st.pos, true)
						}
					}
				}
				if st.field == ci.hooks {
					continue // hooks may legitimately be nil; only the plumbing above is examined
				}
				// an option closure storing its own argument: the caller's explicit choice
				src := st.val
				if u, ok := src.(*ssa.UnOp); ok {
					src = u.X
				}
				if fv, ok := src.(*ssa.FreeVar); ok && st.fn.Parent() != nil {
					r.ok(rule, id, fmt.Sprintf("%s receives the value the caller gave to the option function (%s)", fname, fv.Name()), st.pos, false)
					continue
				}
				// the same for an option written as a method of a value type: the client is a parameter of
				// the storing function and the stored value is (a conversion / field of) its receiver or
				// another parameter
				if fa, ok := st.instr.Addr.(*ssa.FieldAddr); ok {
					if _, baseIsParam := fa.X.(*ssa.Parameter); baseIsParam && len(cf) == 0 {
						v := st.val
						for depth := 0; depth < 6; depth++ {
							switch x := v.(type) {
							case *ssa.Convert:
								v = x.X
								continue
							case *ssa.ChangeType:
								v = x.X
								continue
							case *ssa.UnOp:
								v = x.X
								continue
							case *ssa.Field:
								v = x.X
								continue
							case *ssa.FieldAddr:
								v = x.X
								continue
							}
							break
						}
						if p, isParam := v.(*ssa.Parameter); isParam && p != fa.X {
							r.ok(rule, id, fmt.Sprintf("%s receives the value the caller gave to the option (%s)", fname, p.Name()), st.pos, false)
							continue
						}
					}
				}
				storeInstr := storeAt(st)
				state := fr.blockIn[storeInstr.Block().Index]
				if at, ok := fr.stateAt[storeInstr]; ok {
					state = at // facts established earlier in the store's own block (a helper's result)
				}
				if os.Getenv("MBDBG") != "" {
					fmt.Fprintf(os.Stderr, "cfgStore %s.%s in %s cf=%v state=%s val=%s\n", spec.name, fname, st.fn.Name(), cf, state.String(), describeAV(fr.val(st.val)))
				}
				if len(state) == 0 {
					r.ok(rule, id, fname+": store is unreachable", st.pos, false)
					continue
				}
				if isDuration(ci.st.Field(st.field).Type()) {
					ok := false
					desc := ""
					if k, isC := st.val.(*ssa.Const); isC && k.Value != nil {
						v, _ := constant.Int64Val(k.Value)
						ok = v >= 1
						desc = fmt.Sprintf("constant %dns", v)
					} else if ai, isI := fr.val(st.val).(AInt); isI {
						ok = state.entails(atomGE(ai.a, affConst(1)))
						desc = ai.a.String()
					}
					if ok {
						r.ok(rule, id, fmt.Sprintf("%s is only ever set to a positive duration here (%s >= 1ns proven at the store)", fname, desc), st.pos, true)
					} else {
						r.fail(rule, id, fmt.Sprintf("%s can be set to a zero/negative or unrelated duration: %s is not proven positive where it is stored", fname, desc), st.pos, truncate(state.String(), 200), "timeout-not-positive:"+fname)
					}
					// role pairing
					for i := range cf {
						cn := cst.Field(i).Name()
						role := roles[st.field]
						if role != "" && strings.HasPrefix(strings.ToLower(cn), role) {
							r.ok(rule, id, fmt.Sprintf("ClientConfig.%s feeds the client's %s timeout (%s)", cn, role, fname), st.pos, true)
						} else {
							r.fail(rule, id, fmt.Sprintf("ClientConfig.%s is stored into %s, which the client uses as its %s timeout", cn, fname, role), st.pos, "", "timeout-role:"+cn+"->"+fname)
						}
					}
					continue
				}
				// function field
				nf := fr.nilness(fr.val(st.val))
				if state.entailsForm(formNot(nf)) {
					r.ok(rule, id, fname+" is only ever set to a non-nil function here", st.pos, true)
				} else {
					r.fail(rule, id, fname+" can be overwritten with nil (the next exchange would call a nil function)", st.pos, describeAV(fr.val(st.val)), "nil-func:"+fname)
				}
			}
		}
	}
	// every ClientConfig field of the kinds examined is consumed
	var missing []string
	n := 0
	for i := 0; i < cst.NumFields(); i++ {
		ft := cst.Field(i).Type()
		_, isSig := ft.Underlying().(*types.Signature)
		if (durations && isDuration(ft)) || (funcs && isSig) || (withHooks && types.IsInterface(ft)) {
			n++
			if !consumed[i] {
				missing = append(missing, cst.Field(i).Name())
			}
		}
	}
	sort.Strings(missing)
	r.instance(rule, 1)
	if len(missing) == 0 {
		r.ok(rule, "modbus.ClientConfig", fmt.Sprintf("each of the %d timeout/function fields of ClientConfig is stored into a client field by some constructor", n), "-", true)
	} else {
		r.fail(rule, "modbus.ClientConfig", "a configured value is never applied: "+strings.Join(missing, ", "), "-", "", "config-ignored:"+strings.Join(missing, ","))
	}
}

func storeAt(st fieldStore) ssa.Instruction { return st.instr }

// cfgPassThrough: every exported constructor that receives a ClientConfig hands the given
// fields (by index) of that very configuration on to the function that applies it.
func cfgPassThrough(c *Ctx, r *Report, rule string, fieldFilter func(f *types.Var) bool) {
	conf := configType(c)
	cst := conf.Underlying().(*types.Struct)
	for _, fn := range c.allFuncs("") {
		if fn.Parent() != nil || fn.Signature.Recv() != nil || fn.Object() == nil || !fn.Object().Exported() {
			continue
		}
		isConf := func(t types.Type) bool {
			return types.Identical(t, conf) || types.Identical(t, types.NewPointer(conf))
		}
		pi := -1
		for i, p := range fn.Params {
			if isConf(p.Type()) {
				pi = i
			}
		}
		if pi < 0 {
			continue
		}
		id := fnID(fn)
		r.funcs[id] = true
		an := &Analysis{ctx: c, u: newUniverse(), top: fn, logCalls: true}
		noInl := map[*ssa.Function]bool{}
		an.noInline = func(f *ssa.Function) bool { return noInl[f] }
		// do not inline the callees that take a ClientConfig: their argument is what is examined
		for _, b := range fn.Blocks {
			for _, in := range b.Instrs {
				if call, ok := in.(*ssa.Call); ok {
					if sc := call.Common().StaticCallee(); sc != nil {
						for _, p := range sc.Params {
							if isConf(p.Type()) {
								noInl[sc] = true
							}
						}
					}
				}
			}
		}
		fr := an.newFrame(fn, nil, nil)
		fr.run(dnfTrue())
		// the configuration value behind an argument or parameter (by value, or by pointer to a
		// local copy whose address only this call receives)
		confValue := func(v AV, at *ssa.Call) AV {
			p, isPtr := v.(APtr)
			if !isPtr || p.obj == nil {
				return v
			}
			if p.obj.symbolic {
				return fr.loadPath(p.obj, p.path, conf, at)
			}
			if p.obj.alloc != nil && p.obj.alloc.Referrers() != nil {
				for _, rf := range *p.obj.alloc.Referrers() {
					if cl, isCall := rf.(ssa.CallInstruction); isCall && cl != ssa.CallInstruction(at) {
						return v // somebody else got hold of the copy
					}
				}
			}
			if lv, ok := fr.orderedLoad(p.obj, p.path, at); ok {
				return lv
			}
			return v
		}
		given := confValue(fr.val(fn.Params[pi]), nil)
		handed := 0
		for _, cr := range an.calls {
			if cr.frame != fr || cr.callee == nil || !noInl[cr.callee] {
				continue
			}
			for ai, p := range cr.callee.Params {
				if !isConf(p.Type()) || ai >= len(cr.args) {
					continue
				}
				handed++
				argv := confValue(cr.args[ai], cr.instr)
				for i := 0; i < cst.NumFields(); i++ {
					if !fieldFilter(cst.Field(i)) {
						continue
					}
					r.instance(rule, 1)
					got := describeAV(an.u.fieldOf(argv, i))
					wantv := describeAV(an.u.fieldOf(given, i))
					if got == wantv {
						r.ok(rule, id, fmt.Sprintf("hands the caller's ClientConfig.%s on to %s unchanged", cst.Field(i).Name(), cr.callee.Name()), posOfCall(c, cr), true)
					} else {
						r.fail(rule, id, fmt.Sprintf("the caller's ClientConfig.%s does not reach %s (it would be silently dropped)", cst.Field(i).Name(), cr.callee.Name()), posOfCall(c, cr), got+" vs "+wantv, "config-dropped:"+cst.Field(i).Name())
					}
				}
			}
		}
		if handed == 0 && !storesConfigItself(fn, conf) {
			r.instance(rule, 1)
			r.fail(rule, id, "receives a ClientConfig but neither applies it nor hands it on", c.pos(fn.Pos()), "", "config-unused")
		}
	}
}

func storesConfigItself(fn *ssa.Function, conf types.Type) bool {
	for _, b := range fn.Blocks {
		for _, in := range b.Instrs {
			if fa, ok := in.(*ssa.FieldAddr); ok && types.Identical(deref(fa.X.Type()), conf) {
				return true
			}
		}
	}
	return false
}

// connectStores: R8.7 — the transport field is only ever set to a connection whose dial error
// was tested and found nil (or to nil); a failed Connect leaves no half-open or typed-nil
// connection behind that Do would then use.
func connectStores(c *Ctx, r *Report, rule string) {
	ci := analyseClient(c, "Client", false)
	stores := storesToFields(c, "", ci.tn, map[int]bool{ci.transport: true})
	for _, st := range stores {
		r.instance(rule, 1)
		id := fnID(st.fn)
		r.funcs[id] = true
		if k, ok := st.val.(*ssa.Const); ok && k.IsNil() {
			r.ok(rule, id, "the transport field is cleared (nil)", st.pos, false)
			continue
		}
		ex, ok := st.val.(*ssa.Extract)
		var errVal ssa.Value
		if ok {
			if refs := ex.Tuple.Referrers(); refs != nil {
				for _, rf := range *refs {
					if e2, ok := rf.(*ssa.Extract); ok && e2 != ex && isErrorType(e2.Type()) {
						errVal = e2
					}
				}
			}
		}
		if st.fn.Signature.Recv() == nil {
			// constructors / options installing a user-provided transport
			r.ok(rule, id, "the transport is installed by a constructor/option from its argument", st.pos, false)
			continue
		}
		if errVal == nil {
			r.fail(rule, id, "the transport field is set from a value whose accompanying error is not examined", st.pos, st.val.String(), "transport-store-no-error")
			continue
		}
		_, fr := analyse(c, st.fn)
		state := fr.blockIn[st.instr.Block().Index]
		if len(state) == 0 || state.entailsForm(fr.nilness(fr.val(errVal))) {
			r.ok(rule, id, "the connection is stored only after its dial error was found nil", st.pos, true)
		} else {
			r.fail(rule, id, "the connection is stored before the dial error is examined: a failed Connect can leave a half-open or typed-nil connection that Do then uses", st.pos, truncate(state.String(), 200), "transport-store-before-errcheck")
		}
	}
}

// installedNoPanic: the functions the constructors install to classify and parse replies have
// no reachable index/slice/conversion/assertion failure on any input (the C10 obligations,
// evaluated from the installed entry points).
func installedNoPanic(c *Ctx, r *Report, rule string) {
	seen := map[*ssa.Function]bool{}
	var fns []*ssa.Function
	for _, in := range installedFns(c) {
		for _, f := range []*ssa.Function{in.parse, in.asErr} {
			if f != nil && !seen[f] {
				seen[f] = true
				fns = append(fns, f)
			}
		}
	}
	sort.Slice(fns, func(i, j int) bool { return fns[i].String() < fns[j].String() })
	for _, fn := range fns {
		r.instance(rule, 1)
		id := fnID(fn)
		r.funcs[id] = true
		an, _ := analyse(c, fn)
		bad := 0
		seenO := map[string]bool{}
		for _, o := range an.obligs {
			if o.ok {
				continue
			}
			k := c.pos(o.pos) + o.desc
			if seenO[k] {
				continue
			}
			seenO[k] = true
			bad++
			r.fail(rule, id, fmt.Sprintf("a reply can make the installed function panic: %s in %s — cannot prove %s", o.desc, o.chain, o.goal), c.pos(o.pos), "facts: "+o.facts, o.kind+":"+c.exprAt(o.pos, o.fn))
		}
		if bad == 0 {
			r.ok(rule, id, fmt.Sprintf("none of the %d index/slice/assertion obligations reachable from this installed function can fail, whatever the reply bytes", len(an.obligs)), c.pos(fn.Pos()), true)
		}
	}
}

// assertInvariant: "bool field b of struct T is true only if the value in interface field t
// has a dynamic type implementing A". Established when every function that stores to b or t
// does so on a struct it allocated itself (a constructor), stores into b the comma-ok result of
// v.(A) and into t that same v.
type assertInvariant struct {
	tn       *types.Named
	boolFld  int
	ifaceFld int
	asserted types.Type
}

// fieldAssertInvariants scans the module for such pairs.
func fieldAssertInvariants(c *Ctx) []assertInvariant {
	if c.assertInv != nil {
		return *c.assertInv
	}
	var out []assertInvariant
	type key struct {
		tn *types.Named
		f  int
	}
	type storeSite struct {
		fn   *ssa.Function
		base ssa.Value
		val  ssa.Value
	}
	stores := map[key][]storeSite{}
	for _, fn := range c.allFuncs("") {
		for _, b := range fn.Blocks {
			for _, in := range b.Instrs {
				st, ok := in.(*ssa.Store)
				if !ok {
					continue
				}
				fa, ok := st.Addr.(*ssa.FieldAddr)
				if !ok {
					continue
				}
				tn, ok := deref(fa.X.Type()).(*types.Named)
				if !ok {
					continue
				}
				stores[key{tn, fa.Field}] = append(stores[key{tn, fa.Field}], storeSite{fn, fa.X, st.Val})
			}
		}
	}
	for k, ss := range stores {
		stt, ok := k.tn.Underlying().(*types.Struct)
		if !ok {
			continue
		}
		if b, isB := stt.Field(k.f).Type().Underlying().(*types.Basic); !isB || b.Kind() != types.Bool {
			continue
		}
		// every store to the bool field: comma-ok of an assertion, on a fresh struct
		var inv *assertInvariant
		okAll := true
		for _, s := range ss {
			if _, fresh := s.base.(*ssa.Alloc); !fresh {
				okAll = false
				break
			}
			ta := assertBehind(s.val)
			if ta == nil {
				okAll = false
				break
			}
			// the asserted value is stored into an interface field of the same struct
			ifld := -1
			for k2, ss2 := range stores {
				if k2.tn != k.tn {
					continue
				}
				for _, s2 := range ss2 {
					if s2.fn == s.fn && s2.base == s.base && s2.val == ta.X {
						ifld = k2.f
					}
				}
			}
			if ifld < 0 {
				okAll = false
				break
			}
			cand := assertInvariant{k.tn, k.f, ifld, ta.AssertedType}
			if inv != nil && (inv.ifaceFld != cand.ifaceFld || !types.Identical(inv.asserted, cand.asserted)) {
				okAll = false
				break
			}
			inv = &cand
		}
		if !okAll || inv == nil {
			continue
		}
		// the interface field is stored nowhere else than next to such a bool store
		for _, s2 := range stores[key{k.tn, inv.ifaceFld}] {
			paired := false
			for _, s := range ss {
				if s.fn == s2.fn && s.base == s2.base {
					paired = true
				}
			}
			if !paired {
				okAll = false
			}
		}
		if okAll {
			out = append(out, *inv)
		}
	}
	c.assertInv = &out
	return out
}

// impureGuard: for every If whose one branch (only) leads to the instruction, the condition's
// backward slice may contain only constants, comparisons/conversions and loads of field fi of
// the configuration struct. Returns a description of the first offending operand, or "".
func impureGuard(in ssa.Instruction, conf types.Type, fi int) string {
	b := in.Block()
	for d := b.Idom(); d != nil; d = d.Idom() {
		iff, ok := d.Instrs[len(d.Instrs)-1].(*ssa.If)
		if !ok {
			continue
		}
		dom0, dom1 := d.Succs[0].Dominates(b), d.Succs[1].Dominates(b)
		if dom0 == dom1 {
			continue // b is reached from both branches (or from neither exclusively)
		}
		other := d.Succs[0]
		if dom0 {
			other = d.Succs[1]
		}
		if other == b || blockReaches(other, b) {
			continue // the branches rejoin before b: b does not depend on this test
		}
		var bad string
		seen := map[ssa.Value]bool{}
		var walk func(v ssa.Value, depth int)
		walk = func(v ssa.Value, depth int) {
			if bad != "" || v == nil || seen[v] || depth > 12 {
				return
			}
			seen[v] = true
			switch x := v.(type) {
			case *ssa.Const:
			case *ssa.FieldAddr:
				if !types.Identical(deref(x.X.Type()), conf) || x.Field != fi {
					bad = "reads " + x.String()
				}
			case *ssa.Field:
				if !types.Identical(x.X.Type(), conf) || x.Field != fi {
					bad = "reads " + x.String()
				}
			case *ssa.UnOp:
				walk(x.X, depth+1)
			case *ssa.BinOp:
				walk(x.X, depth+1)
				walk(x.Y, depth+1)
			case *ssa.Convert:
				walk(x.X, depth+1)
			case *ssa.ChangeType:
				walk(x.X, depth+1)
			case *ssa.Phi:
				for _, e := range x.Edges {
					walk(e, depth+1)
				}
			default:
				bad = "depends on " + v.String()
			}
		}
		walk(iff.Cond, 0)
		if bad != "" {
			return bad
		}
	}
	return ""
}

// contextFrames returns the frames in which the stores of fn are to be judged: fn analysed on
// its own, or — for an unexported helper that is only called statically from its own package
// and takes parameters (a shared "apply configuration" function given the defaults as
// arguments) — the frames of fn inlined under each of its callers, where the arguments are known.
func contextFrames(c *Ctx, fn *ssa.Function) []*Frame {
	standalone := func() []*Frame {
		_, fr := analyse(c, fn)
		return []*Frame{fr}
	}
	if fn.Parent() != nil || fn.Object() == nil || fn.Object().Exported() || len(fn.Params) == 0 {
		return standalone()
	}
	node := c.callGraph().Nodes[fn]
	if node == nil || len(node.In) == 0 {
		return standalone()
	}
	var callers []*ssa.Function
	seen := map[*ssa.Function]bool{}
	for _, e := range node.In {
		call, ok := e.Site.(*ssa.Call)
		if !ok || call.Common().StaticCallee() != fn || e.Caller.Func.Pkg != fn.Pkg {
			return standalone()
		}
		if !seen[e.Caller.Func] {
			seen[e.Caller.Func] = true
			callers = append(callers, e.Caller.Func)
		}
	}
	sort.Slice(callers, func(i, j int) bool { return callers[i].String() < callers[j].String() })
	var out []*Frame
	var collect func(f *Frame)
	collect = func(f *Frame) {
		for _, ch := range f.child {
			if ch.fn == fn {
				out = append(out, ch)
			} else {
				collect(ch)
			}
		}
	}
	for _, cf := range callers {
		_, fr := analyse(c, cf)
		collect(fr)
	}
	if len(out) == 0 {
		return standalone()
	}
	return out
}

// assertBehind: the bool value v is "x implements A": the ok result of a comma-ok assertion
// x.(A), or a phi of the constants true/false in which true arrives only from blocks
// dominated by the ok-branch of such an assertion and false from everywhere else (the form a
// single-case type switch or an if/else assignment takes).
func assertBehind(v ssa.Value) *ssa.TypeAssert {
	if ex, ok := v.(*ssa.Extract); ok && ex.Index == 1 {
		if ta, ok := ex.Tuple.(*ssa.TypeAssert); ok && ta.CommaOk {
			return ta
		}
		return nil
	}
	ph, ok := v.(*ssa.Phi)
	if !ok {
		return nil
	}
	var found *ssa.TypeAssert
	for i, e := range ph.Edges {
		k, isC := e.(*ssa.Const)
		if !isC || k.Value == nil {
			return nil
		}
		if k.Value.String() != "true" {
			continue
		}
		// the predecessor must be reached only through the true branch of `if ok`
		pred := ph.Block().Preds[i]
		var ta *ssa.TypeAssert
		for d := pred; d != nil; d = d.Idom() {
			id := d.Idom()
			if id == nil {
				break
			}
			iff, isIf := id.Instrs[len(id.Instrs)-1].(*ssa.If)
			if !isIf || !(id.Succs[0] == d || id.Succs[0].Dominates(d)) || id.Succs[1] == d || id.Succs[1].Dominates(d) {
				continue
			}
			if ex, ok := iff.Cond.(*ssa.Extract); ok && ex.Index == 1 {
				if t, ok := ex.Tuple.(*ssa.TypeAssert); ok && t.CommaOk {
					ta = t
					break
				}
			}
		}
		if ta == nil || (found != nil && found != ta) {
			return nil
		}
		found = ta
	}
	// every false edge must not be dominated by the ok-branch (otherwise the flag under-reports,
	// which is harmless) — no further condition needed for soundness of "true => implements"
	return found
}
