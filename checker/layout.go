package main

// Layout extraction (DESIGN 1.3): ordering the recorded writes of a buffer into a tiling
// of [0,L) and comparing segments with expected contents.

import (
	"fmt"

	"golang.org/x/tools/go/ssa"
)

// runMethod analyses method m with the given receiver value (and symbolic other
// parameters) from entry state st.
func runMethod(an *Analysis, m *ssa.Function, recv AV, st DNF) *Frame {
	fr := an.newFrame(m, nil, []AV{recv})
	fr.run(st)
	return fr
}

// consistent: conj c is compatible with some disjunct of d.
func consistent(c Conj, d DNF) bool {
	if len(d) == 0 {
		return false
	}
	for _, x := range d {
		if !infeasible(c.with(x...)) {
			return true
		}
	}
	return false
}

// writeWidth returns the number of bytes a write really stores under conj c (for a copy:
// min(len(dst), len(src)), decided by entailment) and whether that could be decided.
func writeWidth(c Conj, w *Write) (Aff, bool) {
	if w.kind != wCopy {
		return w.width, true
	}
	src, ok := w.val.(ASlice)
	if !ok {
		return Aff{}, false
	}
	if src.isNil {
		return Aff{}, true
	}
	if c.entails(atomLE(src.ln, w.width)) {
		return src.ln, true
	}
	if c.entails(atomLE(w.width, src.ln)) {
		return w.width, true
	}
	return Aff{}, false
}

// tile orders the writes of root into consecutive segments covering [0,L) under conj c.
func tile(c Conj, root *Root, L Aff) ([]*Write, []Aff, string) {
	var segs []*Write
	var widths []Aff
	pos := Aff{}
	used := map[*Write]bool{}
	for iter := 0; iter < 64; iter++ {
		if c.entails(atomEQ(pos, L)) {
			// all remaining writes must be empty or inconsistent with this path
			for _, w := range root.writes {
				if used[w] || !consistent(c, w.state) {
					continue
				}
				wd, ok := writeWidth(c, w)
				if !ok || !c.entails(atomEQ(wd, affConst(0))) {
					return nil, nil, fmt.Sprintf("write at %s (offset %s) is not part of the tiling of [0,%s)", w.pos, w.off.String(), L.String())
				}
			}
			return segs, widths, ""
		}
		var next *Write
		var nw Aff
		for _, w := range root.writes {
			if used[w] || !consistent(c, w.state) {
				continue
			}
			if !c.entails(atomEQ(w.off, pos)) {
				continue
			}
			wd, ok := writeWidth(c, w)
			if !ok {
				return nil, nil, fmt.Sprintf("cannot decide how many bytes the copy at %s stores", w.pos)
			}
			if c.entails(atomEQ(wd, affConst(0))) {
				used[w] = true
				continue
			}
			if next != nil {
				return nil, nil, fmt.Sprintf("two writes start at offset %s (%s and %s)", pos.String(), next.pos, w.pos)
			}
			next, nw = w, wd
		}
		if next == nil {
			return nil, nil, fmt.Sprintf("no write starts at offset %s (buffer length %s): gap or unwritten tail", pos.String(), L.String())
		}
		used[next] = true
		segs = append(segs, next)
		widths = append(widths, nw)
		pos = pos.add(nw)
	}
	return nil, nil, "tiling did not terminate"
}

// frameBytes returns Σ 256^k·D[off+k] for n bytes of a non-fresh root, big endian.
func (f *Frame) frameBytes(d ASlice, off Aff, n int, be bool) Aff {
	var a Aff
	for i := 0; i < n; i++ {
		abs := d.off.add(off).addc(int64(i))
		b := f.an.u.sym(fmt.Sprintf("%s[%s]", d.root.key, abs.String()), 0, 255)
		sh := uint(8 * (n - 1 - i))
		if !be {
			sh = uint(8 * i)
		}
		a = a.add(affSym(b).scale(1 << sh))
	}
	return a
}

// canonicalSlice resolves a slice of a buffer allocated by the analysed code to the slice
// it was copied from, when a single copy initialised exactly those bytes.
func canonicalSlice(c Conj, s ASlice, depth int) ASlice {
	if depth > 4 || s.isNil || s.root == nil || !s.root.fresh {
		return s
	}
	var hit *Write
	for _, w := range s.root.writes {
		if !consistent(c, w.state) {
			if debugTrace {
				println("canon: inconsistent write", w.pos, "root", s.root.key)
			}
			continue
		}
		wd, ok := writeWidth(c, w)
		if !ok {
			if debugTrace {
				println("canon: width undecided", w.pos, w.width.String())
			}
			return s
		}
		end := w.off.add(wd)
		send := s.off.add(s.ln)
		if c.entails(atomLE(end, s.off)) || c.entails(atomLE(send, w.off)) || c.entails(atomEQ(wd, affConst(0))) {
			continue // disjoint
		}
		if w.kind == wCopy && c.entails(atomLE(w.off, s.off)) && c.entails(atomLE(send, end)) && hit == nil {
			hit = w
			continue
		}
		return s
	}
	if hit == nil {
		return s
	}
	src := hit.val.(ASlice)
	ns := ASlice{root: src.root, off: src.off.add(s.off.sub(hit.off)), ln: s.ln, elem: s.elem}
	return canonicalSlice(c, ns, depth+1)
}

// sameBytes: slices a and b denote the same bytes under c (same canonical root, offset, length).
func sameBytes(c Conj, a, b ASlice) bool {
	a, b = canonicalSlice(c, a, 0), canonicalSlice(c, b, 0)
	if a.isNil || b.isNil {
		la, lb := a.ln, b.ln
		if a.isNil {
			la = Aff{}
		}
		if b.isNil {
			lb = Aff{}
		}
		return c.entails(atomEQ(la, affConst(0))) && c.entails(atomEQ(lb, affConst(0)))
	}
	if c.entails(atomEQ(a.ln, affConst(0))) && c.entails(atomEQ(b.ln, affConst(0))) {
		return true
	}
	return a.root == b.root && c.entails(atomEQ(a.off, b.off)) && c.entails(atomEQ(a.ln, b.ln))
}
