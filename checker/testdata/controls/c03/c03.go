// Package c03 holds positive controls for the C03 rules.
package c03

import (
	"encoding/binary"
	"errors"
)

func CRC16(data []byte) uint16 {
	crc := uint16(0xffff)
	for _, b := range data {
		crc ^= uint16(b)
	}
	return crc
}

// CRCSkipsLast does not read the last byte (R3.0).
func CRCSkipsLast(data []byte) uint16 {
	crc := uint16(0xffff)
	for i := 0; i < len(data)-1; i++ {
		crc ^= uint16(data[i])
	}
	return crc
}

type Swapped struct {
	UnitID uint8
	Data   []byte
}

// Bytes stores the CRC high byte first (R3.1 trailer).
func (r Swapped) Bytes() []byte {
	l := 2 + len(r.Data)
	b := make([]byte, l+2)
	b[0] = r.UnitID
	b[1] = 3
	copy(b[2:l], r.Data)
	crc := CRC16(b[:l])
	b[l] = uint8(crc >> 8)
	b[l+1] = uint8(crc)
	return b
}

type ShortRange struct {
	UnitID uint8
	Data   []byte
}

// Bytes computes the CRC over one byte too few (R3.1 range).
func (r ShortRange) Bytes() []byte {
	l := 2 + len(r.Data)
	b := make([]byte, l+2)
	b[0] = r.UnitID
	b[1] = 3
	copy(b[2:l], r.Data)
	crc := CRC16(b[:l-1])
	b[l] = uint8(crc)
	b[l+1] = uint8(crc >> 8)
	return b
}

type LateWrite struct {
	UnitID uint8
}

// Bytes writes a body byte after the CRC was computed (R3.1 write-after-crc).
func (r LateWrite) Bytes() []byte {
	b := make([]byte, 4)
	b[1] = 3
	crc := CRC16(b[:2])
	b[0] = r.UnitID
	b[2] = uint8(crc)
	b[3] = uint8(crc >> 8)
	return b
}

func inner(data []byte) (*Swapped, error) {
	if len(data) < 4 {
		return nil, errors.New("short")
	}
	return &Swapped{UnitID: data[0]}, nil
}

// VerifyButIgnore compares the CRC but parses anyway (R3.2).
func VerifyButIgnore(data []byte) (*Swapped, error) {
	n := len(data)
	if n < 4 {
		return nil, errors.New("short")
	}
	if binary.LittleEndian.Uint16(data[n-2:]) != CRC16(data[:n-2]) {
		_ = errors.New("crc")
	}
	return inner(data)
}

// VerifyWrongRange checks the trailer against the CRC of the whole frame (R3.2).
func VerifyWrongRange(data []byte) (*Swapped, error) {
	n := len(data)
	if n < 4 {
		return nil, errors.New("short")
	}
	if binary.LittleEndian.Uint16(data[n-2:]) != CRC16(data) {
		return nil, errors.New("crc")
	}
	return inner(data)
}
