// Package cclient holds positive and negative controls for the client read-loop rules
// (C07 R7.2/R7.3, C08 R8.x, C12 R12.3, C14 R14.5, C19 R19.x): Good is a faithful miniature of
// the library's network client and must stay silent; Bad carries one seeded defect per rule.
package cclient

import (
	"context"
	"errors"
	"fmt"
	"io"
	"os"
	"sync"
	"time"
)

type Request interface {
	Bytes() []byte
	ExpectedResponseLength() int
}

type Response interface{ FunctionCode() uint8 }

type Hooks interface {
	BeforeWrite(toWrite []byte)
	AfterEachRead(received []byte, n int, err error)
	BeforeParse(received []byte)
}

type Conn interface {
	Read(b []byte) (int, error)
	Write(b []byte) (int, error)
	Close() error
	SetReadDeadline(t time.Time) error
	SetWriteDeadline(t time.Time) error
}

type ClientError struct{ Err error }

func (e *ClientError) Error() string { return e.Err.Error() }

var ErrPacketTooLong = ClientError{Err: errors.New("received more bytes than valid Modbus packet size can be")}
var ErrClientNotConnected = ClientError{Err: errors.New("client is not connected")}

const packetMaxLen = 7 + 253

// Good is the negative control.
type Good struct {
	timeNow             func() time.Time
	writeTimeout        time.Duration
	readTimeout         time.Duration
	mu                  sync.RWMutex
	conn                Conn
	hooks               Hooks
	asProtocolErrorFunc func(data []byte) error
	parseResponseFunc   func(data []byte) (Response, error)
}

func (c *Good) Do(ctx context.Context, req Request) (Response, error) {
	c.mu.Lock()
	defer c.mu.Unlock()
	if req == nil {
		return nil, errors.New("request can not be nil")
	}
	if c.conn == nil {
		return nil, &ErrClientNotConnected
	}
	resp, err := c.do(ctx, req.Bytes(), req.ExpectedResponseLength())
	if err != nil {
		return nil, err
	}
	if c.hooks != nil {
		c.hooks.BeforeParse(resp)
	}
	return c.parseResponseFunc(resp)
}

func (c *Good) do(ctx context.Context, data []byte, expectedLen int) ([]byte, error) {
	if err := c.conn.SetWriteDeadline(c.timeNow().Add(c.writeTimeout)); err != nil {
		return nil, &ClientError{Err: err}
	}
	if c.hooks != nil {
		c.hooks.BeforeWrite(data)
	}
	if _, err := c.conn.Write(data); err != nil {
		return nil, &ClientError{Err: err}
	}
	const maxBytes = packetMaxLen + 10
	received := [maxBytes]byte{}
	total := 0
	readTimeout := time.After(c.readTimeout)
	for {
		select {
		case <-ctx.Done():
			return nil, ctx.Err()
		case <-readTimeout:
			return nil, &ClientError{Err: errors.New("total read timeout exceeded")}
		default:
		}
		_ = c.conn.SetReadDeadline(c.timeNow().Add(500 * time.Microsecond))
		n, err := c.conn.Read(received[total:maxBytes])
		if c.hooks != nil {
			c.hooks.AfterEachRead(received[total:total+n], n, err)
		}
		if err != nil && !(errors.Is(err, os.ErrDeadlineExceeded) || errors.Is(err, io.EOF)) {
			return nil, &ClientError{Err: err}
		}
		total += n
		if total > packetMaxLen {
			return nil, &ErrPacketTooLong
		}
		if errPacket := c.asProtocolErrorFunc(received[0:total]); errPacket != nil {
			return nil, &ClientError{Err: errPacket}
		}
		if total >= expectedLen {
			break
		}
		if errors.Is(err, io.EOF) {
			break
		}
	}
	if total == 0 {
		return nil, &ClientError{Err: errors.New("no bytes received")}
	}
	result := make([]byte, total)
	copy(result, received[:total])
	return result, nil
}

// Bad: seeded defects, one per rule family.
type Bad struct {
	timeNow             func() time.Time
	writeTimeout        time.Duration
	readTimeout         time.Duration
	mu                  sync.RWMutex
	conn                Conn
	hooks               Hooks
	asProtocolErrorFunc func(data []byte) error
	parseResponseFunc   func(data []byte) (Response, error)
}

func (c *Bad) Do(ctx context.Context, req Request) (Response, error) {
	c.mu.Lock()
	defer c.mu.Unlock()
	if req == nil {
		return nil, errors.New("request can not be nil")
	}
	if c.conn == nil {
		return nil, &ErrClientNotConnected
	}
	resp, err := c.do(ctx, req.Bytes(), req.ExpectedResponseLength())
	if c.hooks != nil {
		c.hooks.BeforeParse(resp) // DEFECT (R19.3): hook before the error test
	}
	if err != nil {
		return nil, err
	}
	return c.parseResponseFunc(resp)
}

func (c *Bad) do(ctx context.Context, data []byte, expectedLen int) ([]byte, error) {
	if err := c.conn.SetWriteDeadline(c.timeNow().Add(c.writeTimeout)); err != nil {
		return nil, err // DEFECT (R8.3): raw transport error
	}
	if c.hooks != nil {
		c.hooks.BeforeWrite(data[1:]) // DEFECT (R19.1): not the slice that is written
	}
	if _, err := c.conn.Write(data); err != nil {
		return nil, &ClientError{Err: fmt.Errorf("write failed: %v", err)} // DEFECT (R8.3): cause flattened into text
	}
	const maxBytes = packetMaxLen + 10
	received := [maxBytes]byte{}
	total := 0
	for {
		readTimeout := time.After(c.readTimeout) // DEFECT (R8.1): timer re-armed on every iteration
		select {
		case <-ctx.Done():
			return nil, ctx.Err()
		case <-readTimeout:
			return nil, &ClientError{Err: errors.New("total read timeout exceeded")}
		default:
		}
		_ = c.conn.SetReadDeadline(c.timeNow().Add(500 * time.Microsecond))
		n, err := c.conn.Read(received[total:maxBytes])
		if c.hooks != nil {
			c.hooks.AfterEachRead(received[0:n], n, err) // DEFECT (R19.2): wrong window
		}
		if err != nil && !(errors.Is(err, os.ErrDeadlineExceeded) || errors.Is(err, io.EOF)) {
			return nil, &ClientError{Err: err}
		}
		total += n
		if total > packetMaxLen-6 { // DEFECT (R8.4): legal replies refused as too long
			return nil, &ErrPacketTooLong
		}
		if errPacket := c.asProtocolErrorFunc(received[0:n]); errPacket != nil { // DEFECT (R7.3): last chunk only
			return nil, &ClientError{Err: errPacket}
		}
		if total >= expectedLen {
			break
		}
		if errors.Is(err, io.EOF) {
			break
		}
	}
	if total == 0 {
		return nil, &ClientError{Err: errors.New("no bytes received")}
	}
	return received[:total], nil // DEFECT (R7.2): aliases the receive buffer
}
