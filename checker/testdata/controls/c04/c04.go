// Package c04 holds positive controls for the C04 rules.
package c04

import (
	"errors"
	"math"
)

type ByteOrder uint8

type Regs struct {
	order ByteOrder
	start uint16
	end   uint16
	data  []byte
}

func NewRegs(data []byte, start uint16) (*Regs, error) {
	if len(data) < 2 || len(data)%2 != 0 {
		return nil, errors.New("bad")
	}
	return &Regs{order: 1, start: start, end: start + uint16(len(data)/2), data: data}, nil
}

// wrapGetter: `end - 2` wraps for a one-register window (R4.1, R4.4, rule W).
func (r Regs) wrapGetter(address uint16, order ByteOrder) ([]byte, error) {
	if address < r.start {
		return nil, errors.New("under")
	}
	if address > r.end-2 {
		return nil, errors.New("over")
	}
	i := int(address-r.start) * 2
	return r.data[i : i+4], nil
}

// badLayout: guarded correctly but returns the wrong registers (R4.2).
func (r Regs) badLayout(address uint16, order ByteOrder) ([]byte, error) {
	if address < r.start {
		return nil, errors.New("under")
	}
	if int(address)+2 > int(r.start)+len(r.data)/2 {
		return nil, errors.New("over")
	}
	i := int(address-r.start) * 2
	if order&4 != 0 {
		return []byte{r.data[i+3], r.data[i+2], r.data[i+1], r.data[i]}, nil
	}
	return r.data[i : i+4], nil
}

// spurious: refuses the last register of the window (R4.4 error-return clause).
func (r Regs) spurious(address uint16, order ByteOrder) ([]byte, error) {
	if address < r.start {
		return nil, errors.New("under")
	}
	if int(address)+1 >= int(r.start)+len(r.data)/2 {
		return nil, errors.New("over")
	}
	i := int(address-r.start) * 2
	return r.data[i : i+2], nil
}

// floatDetour: a decoded float32 routed through float64 and back (R4.8).
func floatDetour(u uint32) float32 {
	return float32(widen(math.Float32frombits(u)))
}

func widen(f float32) float64 { return float64(f) }

// floatInspect: a widened copy that is only inspected must not be reported.
func floatInspect(u uint32) (float32, bool) {
	f := math.Float32frombits(u)
	return f, math.IsNaN(float64(f))
}
