module controls

go 1.22
