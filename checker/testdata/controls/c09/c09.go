// Package c09 holds positive controls for the C09 rules (look-alike FC3 requests).
package c09

import (
	"encoding/binary"
	"errors"
)

type MBAPHeader struct {
	TransactionID uint16
	ProtocolID    uint16
}

func (h MBAPHeader) bytes(dst []byte, length uint16) {
	binary.BigEndian.PutUint16(dst[0:2], h.TransactionID)
	binary.BigEndian.PutUint16(dst[2:4], 0)
	binary.BigEndian.PutUint16(dst[4:6], length)
}

type pdu struct {
	UnitID       uint8
	StartAddress uint16
	Quantity     uint16
}

func (r pdu) FunctionCode() uint8         { return 3 }
func (r pdu) ExpectedResponseLength() int { return 9 + 2*int(r.Quantity) }
func (r pdu) encode(tid uint16) []byte {
	b := make([]byte, 12)
	MBAPHeader{TransactionID: tid}.bytes(b[0:6], 6)
	b[6] = r.UnitID
	b[7] = 3
	binary.BigEndian.PutUint16(b[8:10], r.StartAddress)
	binary.BigEndian.PutUint16(b[10:12], r.Quantity)
	return b
}

func header(data []byte) (uint16, error) {
	if len(data) < 12 || data[2] != 0 || data[3] != 0 || len(data) != 6+int(binary.BigEndian.Uint16(data[4:6])) || data[7] != 3 {
		return 0, errors.New("header")
	}
	return binary.BigEndian.Uint16(data[0:2]), nil
}

// GoodTCP: negative control.
type GoodTCP struct {
	MBAPHeader
	pdu
}

func NewGoodTCP(unit uint8, start, qty uint16) (*GoodTCP, error) {
	if qty == 0 || qty > 125 {
		return nil, errors.New("range")
	}
	return &GoodTCP{MBAPHeader{TransactionID: 9}, pdu{unit, start, qty}}, nil
}
func (r GoodTCP) Bytes() []byte { return r.pdu.encode(r.TransactionID) }
func ParseGoodTCP(data []byte) (*GoodTCP, error) {
	tid, err := header(data)
	if err != nil {
		return nil, err
	}
	q := binary.BigEndian.Uint16(data[10:12])
	if q < 1 || q > 125 {
		return nil, errors.New("quantity")
	}
	return &GoodTCP{MBAPHeader{TransactionID: tid}, pdu{data[6], binary.BigEndian.Uint16(data[8:10]), q}}, nil
}

// WideTCP: parser accepts 127 registers (R9.1).
type WideTCP struct {
	MBAPHeader
	pdu
}

func NewWideTCP(unit uint8, start, qty uint16) (*WideTCP, error) {
	if qty == 0 || qty > 125 {
		return nil, errors.New("range")
	}
	return &WideTCP{MBAPHeader{TransactionID: 9}, pdu{unit, start, qty}}, nil
}
func (r WideTCP) Bytes() []byte { return r.pdu.encode(r.TransactionID) }
func ParseWideTCP(data []byte) (*WideTCP, error) {
	tid, err := header(data)
	if err != nil {
		return nil, err
	}
	q := binary.BigEndian.Uint16(data[10:12])
	if q < 1 || q > 127 {
		return nil, errors.New("quantity")
	}
	return &WideTCP{MBAPHeader{TransactionID: tid}, pdu{data[6], binary.BigEndian.Uint16(data[8:10]), q}}, nil
}

// NarrowTCP: parser refuses legal quantities above 100 (R9.1, R9.3).
type NarrowTCP struct {
	MBAPHeader
	pdu
}

func NewNarrowTCP(unit uint8, start, qty uint16) (*NarrowTCP, error) {
	if qty == 0 || qty > 125 {
		return nil, errors.New("range")
	}
	return &NarrowTCP{MBAPHeader{TransactionID: 9}, pdu{unit, start, qty}}, nil
}
func (r NarrowTCP) Bytes() []byte { return r.pdu.encode(r.TransactionID) }
func ParseNarrowTCP(data []byte) (*NarrowTCP, error) {
	tid, err := header(data)
	if err != nil {
		return nil, err
	}
	q := binary.BigEndian.Uint16(data[10:12])
	if q < 1 || q > 100 {
		return nil, errors.New("quantity")
	}
	return &NarrowTCP{MBAPHeader{TransactionID: tid}, pdu{data[6], binary.BigEndian.Uint16(data[8:10]), q}}, nil
}

// CrossedTCP: parser takes the start address from the quantity's bytes (R9.3 field).
type CrossedTCP struct {
	MBAPHeader
	pdu
}

func NewCrossedTCP(unit uint8, start, qty uint16) (*CrossedTCP, error) {
	if qty == 0 || qty > 125 {
		return nil, errors.New("range")
	}
	return &CrossedTCP{MBAPHeader{TransactionID: 9}, pdu{unit, start, qty}}, nil
}
func (r CrossedTCP) Bytes() []byte { return r.pdu.encode(r.TransactionID) }
func ParseCrossedTCP(data []byte) (*CrossedTCP, error) {
	tid, err := header(data)
	if err != nil {
		return nil, err
	}
	q := binary.BigEndian.Uint16(data[10:12])
	if q < 1 || q > 125 {
		return nil, errors.New("quantity")
	}
	return &CrossedTCP{MBAPHeader{TransactionID: tid}, pdu{data[6], binary.BigEndian.Uint16(data[10:12]), q}}, nil
}
