// Package c13 holds positive controls for the C13 rules.
package c13

var lastRead uint16

type Registers struct {
	order uint8
	data  []byte
}

// SwapInPlace swaps two payload bytes through a sub-slice (R13.1 store).
func (r Registers) SwapInPlace(i int) byte {
	raw := r.data[i : i+2]
	raw[0], raw[1] = raw[1], raw[0]
	return raw[0]
}

// AppendAlias appends to a payload sub-slice (R13.1 append).
func (r Registers) AppendAlias() []byte {
	return append(r.data[:1], 0xff)
}

// Remember records the last address in a package-level variable (R13.2).
func (r Registers) Remember(a uint16) byte {
	lastRead = a
	return r.data[0]
}

// Reorder changes decoder state through a pointer receiver reached from an accessor (R13.2).
func (r *Registers) setOrder(o uint8) { r.order = o }
func Decode(r *Registers, o uint8) byte {
	r.setOrder(o)
	return r.data[0]
}

// Clean is the negative control.
func (r Registers) Clean(i int) uint16 {
	b := r.data[i : i+2]
	c := make([]byte, 2)
	copy(c, b)
	c[0], c[1] = c[1], c[0]
	return uint16(c[0])<<8 | uint16(c[1])
}
