// Package c10 holds positive controls for the C10 rules: every function below contains
// exactly one seeded defect that the named rule must report on every run.
package c10

import (
	"encoding/binary"
	"errors"
)

type T struct {
	A uint16
	D []byte
}

// ParseUnguardedIndex: index after a guard that is one short (R10.1 index).
func ParseUnguardedIndex(data []byte) (*T, error) {
	if len(data) < 7 {
		return nil, errors.New("short")
	}
	return &T{A: uint16(data[7])}, nil
}

// ParseByteWrap: slice bound computed in byte arithmetic (R10.1 slice + rule W).
func ParseByteWrap(data []byte) (*T, error) {
	if len(data) < 13 {
		return nil, errors.New("short")
	}
	n := data[12]
	if len(data) != 13+int(n) {
		return nil, errors.New("len")
	}
	return &T{D: data[13 : 13+n]}, nil
}

// ParseBeyondLen: slices up to a bound that only capacity could satisfy (R10.1 slice).
func ParseBeyondLen(data []byte) (*T, error) {
	if len(data) < 11 {
		return nil, errors.New("short")
	}
	return &T{A: binary.BigEndian.Uint16(data[10:12])}, nil
}

// ParseValueWithError: returns a partially filled packet together with an error (R10.3).
func ParseValueWithError(data []byte) (*T, error) {
	if len(data) < 2 {
		return &T{}, errors.New("short")
	}
	return &T{A: binary.BigEndian.Uint16(data[0:2])}, nil
}

// ParseAssert: unchecked type assertion on an error of unknown dynamic type (R10.2).
func ParseAssert(data []byte, err error) (*T, error) {
	if len(data) == 0 {
		return nil, err.(*myErr)
	}
	return &T{}, nil
}

type myErr struct{}

func (*myErr) Error() string { return "" }

// ParseGood is a negative control: fully guarded, nothing may fire here.
func ParseGood(data []byte) (*T, error) {
	if len(data) < 4 {
		return nil, errors.New("short")
	}
	n := int(data[2])
	if len(data) != 3+n {
		return nil, errors.New("len")
	}
	return &T{A: binary.BigEndian.Uint16(data[0:2]), D: data[3 : 3+n]}, nil
}
