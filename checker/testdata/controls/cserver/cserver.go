// Package cserver holds controls for the server lifecycle rules (C17 R17.8 shutdown scan,
// R17.9 / C08 R8.9 / C14 R14.6 lock leaks).
package cserver

import (
	"sync"
	"sync/atomic"
)

type conn struct {
	busy atomic.Bool
	c    interface{ Close() error }
}

type Srv struct {
	mu    sync.RWMutex
	conns map[*conn]struct{}
	err   error
}

// GoodShutdown: negative control (flag only lowered, busy connections left alone).
func (s *Srv) GoodShutdown() error {
	s.mu.Lock()
	defer s.mu.Unlock()
	for {
		allIdle := true
		for c := range s.conns {
			if c.busy.Load() {
				allIdle = false
				continue
			}
			c.c.Close()
			delete(s.conns, c)
		}
		if allIdle {
			return s.err
		}
	}
}

// BadShutdownFlag: the last connection visited decides.
func (s *Srv) BadShutdownFlag() error {
	s.mu.Lock()
	defer s.mu.Unlock()
	for {
		allIdle := true
		for c := range s.conns {
			allIdle = !c.busy.Load()
			if !allIdle {
				continue
			}
			c.c.Close()
			delete(s.conns, c)
		}
		if allIdle {
			return s.err
		}
	}
}

// BadShutdownCloses: closes connections that are in flight.
func (s *Srv) BadShutdownCloses() error {
	s.mu.Lock()
	defer s.mu.Unlock()
	for {
		allIdle := true
		for c := range s.conns {
			if c.busy.Load() {
				allIdle = false
			}
			c.c.Close()
			delete(s.conns, c)
		}
		if allIdle {
			return s.err
		}
	}
}

// LeakyClose: early return with the lock held.
func (s *Srv) LeakyClose() error {
	s.mu.Lock()
	if s.conns == nil {
		return nil
	}
	s.mu.Unlock()
	return s.err
}

// TidyClose: negative control.
func (s *Srv) TidyClose() error {
	s.mu.Lock()
	if s.conns == nil {
		s.mu.Unlock()
		return nil
	}
	s.mu.Unlock()
	return s.err
}
