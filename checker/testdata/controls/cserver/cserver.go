// Package cserver holds controls for the server lifecycle rules (C17 R17.8 shutdown scan,
// R17.9 / C08 R8.9 / C14 R14.6 lock leaks) and for the assembler step rules (C15 R15.1/R15.2).
package cserver

import (
	"bytes"
	"sync"
	"sync/atomic"
)

type conn struct {
	busy atomic.Bool
	c    interface{ Close() error }
}

type Srv struct {
	mu    sync.RWMutex
	conns map[*conn]struct{}
	err   error
}

// GoodShutdown: negative control (flag only lowered, busy connections left alone).
func (s *Srv) GoodShutdown() error {
	s.mu.Lock()
	defer s.mu.Unlock()
	for {
		allIdle := true
		for c := range s.conns {
			if c.busy.Load() {
				allIdle = false
				continue
			}
			c.c.Close()
			delete(s.conns, c)
		}
		if allIdle {
			return s.err
		}
	}
}

// BadShutdownFlag: the last connection visited decides.
func (s *Srv) BadShutdownFlag() error {
	s.mu.Lock()
	defer s.mu.Unlock()
	for {
		allIdle := true
		for c := range s.conns {
			allIdle = !c.busy.Load()
			if !allIdle {
				continue
			}
			c.c.Close()
			delete(s.conns, c)
		}
		if allIdle {
			return s.err
		}
	}
}

// BadShutdownCloses: closes connections that are in flight.
func (s *Srv) BadShutdownCloses() error {
	s.mu.Lock()
	defer s.mu.Unlock()
	for {
		allIdle := true
		for c := range s.conns {
			if c.busy.Load() {
				allIdle = false
			}
			c.c.Close()
			delete(s.conns, c)
		}
		if allIdle {
			return s.err
		}
	}
}

// LeakyClose: early return with the lock held.
func (s *Srv) LeakyClose() error {
	s.mu.Lock()
	if s.conns == nil {
		return nil
	}
	s.mu.Unlock()
	return s.err
}

// TidyClose: negative control.
func (s *Srv) TidyClose() error {
	s.mu.Lock()
	if s.conns == nil {
		s.mu.Unlock()
		return nil
	}
	s.mu.Unlock()
	return s.err
}

// ---- C15 R15.1 / R15.2 controls: the per-packet step of a stream assembler ----

// ErrShort stands for "not even a header yet".
var ErrShort = &errShort{msg: "short"}

type errShort struct{ msg string }

func (e *errShort) Error() string { return e.msg }

// LooksLikeModbusTCP is the controls' stream classifier: expected frame length from the header.
func LooksLikeModbusTCP(data []byte, allowUnSupportedFunctionCodes bool) (int, error) {
	if len(data) < 8 {
		return 0, ErrShort
	}
	return 6 + int(data[4])<<8 + int(data[5]), nil
}

type Asm struct {
	received bytes.Buffer
}

// StepGood: negative control.
func (m *Asm) StepGood() ([]byte, bool, bool) {
	n, err := LooksLikeModbusTCP(m.received.Bytes(), false)
	if err == ErrShort {
		return nil, false, false
	}
	if m.received.Len() < n {
		return nil, false, false
	}
	return m.received.Next(n), true, false
}

// StepEager consumes the frame before it has arrived completely.
func (m *Asm) StepEager() ([]byte, bool, bool) {
	n, err := LooksLikeModbusTCP(m.received.Bytes(), false)
	if err == ErrShort {
		return nil, false, false
	}
	return m.received.Next(n), true, false
}

// StepWithholds keeps waiting although exactly one complete request is buffered.
func (m *Asm) StepWithholds() ([]byte, bool, bool) {
	n, err := LooksLikeModbusTCP(m.received.Bytes(), false)
	if err == ErrShort {
		return nil, false, false
	}
	if m.received.Len() <= n {
		return nil, false, false
	}
	return m.received.Next(n), true, false
}

// StepLeftover answers but leaves the last byte of the answered frame in the buffer.
func (m *Asm) StepLeftover() ([]byte, bool, bool) {
	n, err := LooksLikeModbusTCP(m.received.Bytes(), false)
	if err == ErrShort {
		return nil, false, false
	}
	if m.received.Len() < n {
		return nil, false, false
	}
	return m.received.Next(n - 1), true, false
}
