// Package cshared holds controls for the shared-state rule (shared.go): package-level state
// that changes at run time must not be used on a codec path, with the synchronised idioms
// exempt.
package cshared

import (
	"sync"
	"sync/atomic"
)

var scratch [8]byte

// SharedScratch decodes through a package-level buffer: must be reported.
func SharedScratch(data []byte) []byte {
	copy(scratch[:], data)
	return scratch[:]
}

var lazyTable [4]uint16
var lazyReady bool

// LazyUnsynchronised fills a table on first use without synchronisation: must be reported.
func LazyUnsynchronised(i int) uint16 {
	if !lazyReady {
		lazyReady = true
		for k := range lazyTable {
			lazyTable[k] = uint16(k) * 3
		}
	}
	return lazyTable[i&3]
}

var onceTable [4]uint16
var once sync.Once

func fillOnce() {
	for k := range onceTable {
		onceTable[k] = uint16(k) * 3
	}
}

// OnceGuarded is the accepted lazy initialisation: must stay silent.
func OnceGuarded(i int) uint16 {
	once.Do(fillOnce)
	return onceTable[i&3]
}

var calls atomic.Uint64

// Counted increments a diagnostics counter nobody reads: must stay silent.
func Counted(x uint16) uint16 {
	calls.Add(1)
	return x + 1
}

var pool = sync.Pool{New: func() any { b := make([]byte, 0, 16); return &b }}

// PoolLeaks returns memory that is also put back into the pool: must be reported.
func PoolLeaks(data []byte) []byte {
	bp, _ := pool.Get().(*[]byte)
	defer pool.Put(bp)
	out := append((*bp)[:0], data...)
	return out
}

// PoolPrivate uses a pooled buffer as scratch only: must stay silent.
func PoolPrivate(data []byte) int {
	bp, _ := pool.Get().(*[]byte)
	defer pool.Put(bp)
	tmp := append((*bp)[:0], data...)
	n := 0
	for _, b := range tmp {
		n += int(b)
	}
	return n
}
