// Package c01 holds positive controls for the C01 rules: look-alike request types for
// function code 3 (read holding registers), each with one seeded encoding defect.
package c01

import (
	"encoding/binary"
	"errors"
)

type MBAPHeader struct {
	TransactionID uint16
	ProtocolID    uint16
}

func (h MBAPHeader) bytes(dst []byte, length uint16) {
	binary.BigEndian.PutUint16(dst[0:2], h.TransactionID)
	binary.BigEndian.PutUint16(dst[2:4], 0)
	binary.BigEndian.PutUint16(dst[4:6], length)
}

type pdu struct {
	UnitID       uint8
	StartAddress uint16
	Quantity     uint16
}

func (r pdu) FunctionCode() uint8 { return 3 }

func newPDU(unit uint8, start, qty uint16, max uint16) (pdu, error) {
	if qty == 0 || qty > max {
		return pdu{}, errors.New("range")
	}
	return pdu{UnitID: unit, StartAddress: start, Quantity: qty}, nil
}

// GoodTCP is the negative control.
type GoodTCP struct {
	MBAPHeader
	pdu
}

func NewGoodTCP(unit uint8, start, qty uint16) (*GoodTCP, error) {
	if qty == 0 || qty > 125 {
		return nil, errors.New("range")
	}
	return &GoodTCP{MBAPHeader{TransactionID: 7}, pdu{UnitID: unit, StartAddress: start, Quantity: qty}}, nil
}
func (r GoodTCP) ExpectedResponseLength() int { return 9 + 2*int(r.Quantity) }
func (r GoodTCP) Bytes() []byte {
	b := make([]byte, 12)
	r.MBAPHeader.bytes(b[0:6], 6)
	b[6] = r.UnitID
	b[7] = 3
	binary.BigEndian.PutUint16(b[8:10], r.StartAddress)
	binary.BigEndian.PutUint16(b[10:12], r.Quantity)
	return b
}

// SwappedTCP writes quantity before start address (R1.1 layout).
type SwappedTCP struct {
	MBAPHeader
	pdu
}

func NewSwappedTCP(unit uint8, start, qty uint16) (*SwappedTCP, error) {
	if qty == 0 || qty > 125 {
		return nil, errors.New("range")
	}
	return &SwappedTCP{MBAPHeader{TransactionID: 7}, pdu{UnitID: unit, StartAddress: start, Quantity: qty}}, nil
}
func (r SwappedTCP) ExpectedResponseLength() int { return 9 + 2*int(r.Quantity) }
func (r SwappedTCP) Bytes() []byte {
	b := make([]byte, 12)
	r.MBAPHeader.bytes(b[0:6], 6)
	b[6] = r.UnitID
	b[7] = 3
	binary.BigEndian.PutUint16(b[8:10], r.Quantity)
	binary.BigEndian.PutUint16(b[10:12], r.StartAddress)
	return b
}

// LenPlusOneTCP writes a length field one too large (R1.1 length).
type LenPlusOneTCP struct {
	MBAPHeader
	pdu
}

func NewLenPlusOneTCP(unit uint8, start, qty uint16) (*LenPlusOneTCP, error) {
	if qty == 0 || qty > 125 {
		return nil, errors.New("range")
	}
	return &LenPlusOneTCP{MBAPHeader{TransactionID: 7}, pdu{UnitID: unit, StartAddress: start, Quantity: qty}}, nil
}
func (r LenPlusOneTCP) ExpectedResponseLength() int { return 9 + 2*int(r.Quantity) }
func (r LenPlusOneTCP) Bytes() []byte {
	b := make([]byte, 12)
	r.MBAPHeader.bytes(b[0:6], 7)
	b[6] = r.UnitID
	b[7] = 3
	binary.BigEndian.PutUint16(b[8:10], r.StartAddress)
	binary.BigEndian.PutUint16(b[10:12], r.Quantity)
	return b
}

// GapTCP leaves the unit id byte unwritten (R1.1 tiling).
type GapTCP struct {
	MBAPHeader
	pdu
}

func NewGapTCP(unit uint8, start, qty uint16) (*GapTCP, error) {
	if qty == 0 || qty > 125 {
		return nil, errors.New("range")
	}
	return &GapTCP{MBAPHeader{TransactionID: 7}, pdu{UnitID: unit, StartAddress: start, Quantity: qty}}, nil
}
func (r GapTCP) ExpectedResponseLength() int { return 9 + 2*int(r.Quantity) }
func (r GapTCP) Bytes() []byte {
	b := make([]byte, 12)
	r.MBAPHeader.bytes(b[0:6], 6)
	b[7] = 3
	binary.BigEndian.PutUint16(b[8:10], r.StartAddress)
	binary.BigEndian.PutUint16(b[10:12], r.Quantity)
	return b
}

// LooseLimitTCP accepts 126 registers (R1.2).
type LooseLimitTCP struct {
	MBAPHeader
	pdu
}

func NewLooseLimitTCP(unit uint8, start, qty uint16) (*LooseLimitTCP, error) {
	if qty == 0 || qty > 126 {
		return nil, errors.New("range")
	}
	return &LooseLimitTCP{MBAPHeader{TransactionID: 7}, pdu{UnitID: unit, StartAddress: start, Quantity: qty}}, nil
}
func (r LooseLimitTCP) ExpectedResponseLength() int { return 9 + 2*int(r.Quantity) }
func (r LooseLimitTCP) Bytes() []byte {
	b := make([]byte, 12)
	r.MBAPHeader.bytes(b[0:6], 6)
	b[6] = r.UnitID
	b[7] = 3
	binary.BigEndian.PutUint16(b[8:10], r.StartAddress)
	binary.BigEndian.PutUint16(b[10:12], r.Quantity)
	return b
}

// PackMod7 packs coil j into bit j mod 7 (R1.4).
func PackMod7(coils []bool) []byte {
	n := len(coils)
	cnt := (n + 7) / 8
	res := make([]byte, cnt)
	for i := 0; i < n; i++ {
		if coils[i] {
			res[i/8] = res[i/8] | (1 << (i % 7))
		}
	}
	return res
}
