// Package c02 holds positive controls for the C02 rules (look-alike FC3/FC4 responses).
package c02

import (
	"encoding/binary"
	"errors"
)

type MBAPHeader struct {
	TransactionID uint16
	ProtocolID    uint16
}

func (h MBAPHeader) bytes(dst []byte, length uint16) {
	binary.BigEndian.PutUint16(dst[0:2], h.TransactionID)
	binary.BigEndian.PutUint16(dst[2:4], 0)
	binary.BigEndian.PutUint16(dst[4:6], length)
}

type body struct {
	UnitID          uint8
	RegisterByteLen uint8
	Data            []byte
}

func (r body) len() uint16 { return 3 + uint16(r.RegisterByteLen) }
func (r body) put(fc uint8, data []byte) {
	data[0] = r.UnitID
	data[1] = fc
	data[2] = r.RegisterByteLen
	copy(data[3:], r.Data)
}

// GoodTCP: negative control (FC3).
type GoodTCP struct {
	MBAPHeader
	body
}

func (r GoodTCP) FunctionCode() uint8 { return 3 }
func (r GoodTCP) Bytes() []byte {
	l := r.len()
	b := make([]byte, 6+l)
	r.MBAPHeader.bytes(b[0:6], l)
	r.body.put(3, b[6:6+l])
	return b
}
func ParseGoodTCP(data []byte) (*GoodTCP, error) {
	if len(data) < 11 {
		return nil, errors.New("short")
	}
	n := int(data[8])
	if len(data) != 9+n {
		return nil, errors.New("len")
	}
	return &GoodTCP{MBAPHeader{TransactionID: binary.BigEndian.Uint16(data[0:2])}, body{UnitID: data[6], RegisterByteLen: data[8], Data: data[9 : 9+n]}}, nil
}

// ShiftedTCP takes the payload one byte too early (R2.1).
type ShiftedTCP struct {
	MBAPHeader
	body
}

func (r ShiftedTCP) FunctionCode() uint8 { return 3 }
func (r ShiftedTCP) Bytes() []byte {
	l := r.len()
	b := make([]byte, 6+l)
	r.MBAPHeader.bytes(b[0:6], l)
	r.body.put(3, b[6:6+l])
	return b
}
func ParseShiftedTCP(data []byte) (*ShiftedTCP, error) {
	if len(data) < 11 {
		return nil, errors.New("short")
	}
	n := int(data[8])
	if len(data) != 9+n {
		return nil, errors.New("len")
	}
	return &ShiftedTCP{MBAPHeader{TransactionID: binary.BigEndian.Uint16(data[0:2])}, body{UnitID: data[6], RegisterByteLen: data[8], Data: data[8 : 8+n]}}, nil
}

// LooseTCP accepts frames longer than their byte count says (R2.2).
type LooseTCP struct {
	MBAPHeader
	body
}

func (r LooseTCP) FunctionCode() uint8 { return 4 }
func (r LooseTCP) Bytes() []byte {
	l := r.len()
	b := make([]byte, 6+l)
	r.MBAPHeader.bytes(b[0:6], l)
	r.body.put(4, b[6:6+l])
	return b
}
func ParseLooseTCP(data []byte) (*LooseTCP, error) {
	if len(data) < 11 {
		return nil, errors.New("short")
	}
	n := int(data[8])
	if len(data) < 9+n {
		return nil, errors.New("len")
	}
	return &LooseTCP{MBAPHeader{TransactionID: binary.BigEndian.Uint16(data[0:2])}, body{UnitID: data[6], RegisterByteLen: data[8], Data: data[9 : 9+n]}}, nil
}

type ErrTCP struct {
	TransactionID uint16
	UnitID        uint8
	Function      uint8
	Code          uint8
}

func (e *ErrTCP) Error() string { return "exception" }

// AsErrWrongUnit reports the function byte as the unit id (R2.3 field).
func AsErrWrongUnit(data []byte) error {
	if len(data) != 9 {
		return nil
	}
	if data[7]&0x80 != 0 {
		return &ErrTCP{TransactionID: binary.BigEndian.Uint16(data[0:2]), UnitID: data[7], Function: data[7] - 0x80, Code: data[8]}
	}
	return nil
}

// AsErrMisses0x80 does not recognise function byte 0x80 itself (R2.3 recognition).
func AsErrMisses0x80(data []byte) error {
	if len(data) != 9 {
		return nil
	}
	if data[7] > 0x80 {
		return &ErrTCP{TransactionID: binary.BigEndian.Uint16(data[0:2]), UnitID: data[6], Function: data[7] - 0x80, Code: data[8]}
	}
	return nil
}

type Response interface {
	FunctionCode() uint8
	Bytes() []byte
}

// DispatchCrossed sends function code 3 to the FC4 parser (R2.4) and treats the exception code 0x84 as a normal response (R2.3).
func DispatchCrossed(data []byte) (Response, error) {
	if len(data) < 8 {
		return nil, errors.New("short")
	}
	switch data[7] {
	case 3:
		return ParseLooseTCP(data)
	case 4, 0x84:
		return ParseGoodTCP(data)
	}
	return nil, errors.New("unknown")
}
