// Package c11 holds positive controls for the C11 rules.
package c11

import "errors"

// bitSetMod7: right byte, wrong bit (R11.1).
func bitSetMod7(data []byte, startBit uint16, bit uint16) (bool, error) {
	if bit < startBit {
		return false, errors.New("before")
	}
	t := bit - startBit
	if len(data)*8 <= int(t) {
		return false, errors.New("beyond")
	}
	return data[int(t/8)]&(1<<(t%7)) != 0, nil
}

// bitSetLoose: accepts one address beyond the payload (R11.3 range and bounds).
func bitSetLoose(data []byte, startBit uint16, bit uint16) (bool, error) {
	if bit < startBit {
		return false, errors.New("before")
	}
	t := bit - startBit
	if len(data)*8 < int(t) {
		return false, errors.New("beyond")
	}
	return data[int(t/8)]&(1<<(t%8)) != 0, nil
}

// bitSetStrict: refuses the last bit of the payload (R11.3 spurious error).
func bitSetStrict(data []byte, startBit uint16, bit uint16) (bool, error) {
	if bit < startBit {
		return false, errors.New("before")
	}
	t := bit - startBit
	if len(data)*8 <= int(t)+1 {
		return false, errors.New("beyond")
	}
	return data[int(t/8)]&(1<<(t%8)) != 0, nil
}
