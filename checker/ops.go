package main

// Arithmetic, conversions, calls and builtins of the abstract interpreter.

import (
	"fmt"
	"go/token"
	"go/types"
	"strings"

	"golang.org/x/tools/go/ssa"
)

// Write is one recorded effect on a buffer root (DESIGN 1.3).
type writeKind int

const (
	wByte writeKind = iota // single element store
	wBE16                  // PutUint16 big endian (width 2) ... generic PutUintN
	wLE16
	wBEn
	wLEn
	wCopy // copy from another slice
)

type Write struct {
	off   Aff
	width Aff
	kind  writeKind
	n     int // byte width for PutUintN
	val   AV  // value (byte store / PutUint) or source ASlice (copy)
	pos   string
	state DNF
	fn    *ssa.Function
}

func (f *Frame) narrowResult(x ssa.Value, math Aff, inherit []wrapCond, what string) AInt {
	t := x.Type()
	lo, hi, _ := intRange(t)
	r := AInt{a: math, conds: append([]wrapCond(nil), inherit...)}
	mlo, mhi := math.interval()
	if isNarrow(t) && (mlo < lo || mhi > hi) {
		r.conds = append(r.conds, wrapCond{a: math, lo: lo, hi: hi, what: what, pos: f.posStr(x.Pos())})
	}
	if len(r.conds) > 0 {
		r.fallback = f.an.u.sym(f.key+"val:"+x.Name(), lo, hi)
	}
	return r
}

func (f *Frame) opaqueInt(x ssa.Value) AInt {
	lo, hi, ok := intRange(x.Type())
	if !ok {
		lo, hi = -bigNum, bigNum
	}
	return AInt{a: affSym(f.an.u.sym(f.key+"val:"+x.Name(), lo, hi))}
}

func nonNeg(a Aff) bool { lo, _ := a.interval(); return lo >= 0 }

// nonNegHere: a >= 0 by its range or by the facts in force at this program point.
func (f *Frame) nonNegHere(a Aff) bool {
	if nonNeg(a) {
		return true
	}
	st := f.state()
	return len(st) > 0 && st.entails(atomGE(a, affConst(0)))
}

// settle drops the wrap conditions of a value that the facts in force here already
// prove; facts about SSA values persist to every later use.
func (f *Frame) settle(ai AInt) AInt {
	if len(ai.conds) == 0 {
		return ai
	}
	st := f.state()
	if len(st) == 0 {
		return ai
	}
	for _, c := range ai.conds {
		if !st.entails(atomGE(c.a, affConst(c.lo))) || !st.entails(atomLE(c.a, affConst(c.hi))) {
			return ai
		}
	}
	return AInt{a: ai.a}
}

// divAff: floor(a/c) as an affine form (constant-folded when a is constant).
func (f *Frame) divAff(a Aff, c int64) Aff {
	if a.isConst() {
		return affConst(floorDiv(a.c, c))
	}
	return affSym(f.divSym(a, c))
}

func (f *Frame) divSym(a Aff, c int64) *Sym {
	lo, hi := a.interval()
	if lo < 0 {
		lo = floorDiv(lo, c)
	} else {
		lo = 0
	}
	s := f.an.u.sym(fmt.Sprintf("(%s)/%d", a.String(), c), lo, floorDiv(hi, c))
	s.kind, s.arg, s.c = symDiv, &a, c
	return s
}

func (f *Frame) ceilDivSym(a Aff, c int64) *Sym {
	_, hi := a.interval()
	s := f.an.u.sym(fmt.Sprintf("ceil((%s)/%d)", a.String(), c), 0, (hi+c-1)/c)
	s.kind, s.arg, s.c = symCeilDiv, &a, c
	return s
}

// modAff returns a mod c as the affine form a - c*floor(a/c).
func (f *Frame) modAff(a Aff, c int64) Aff {
	if a.isConst() {
		return affConst(a.c - c*floorDiv(a.c, c))
	}
	return a.sub(affSym(f.divSym(a, c)).scale(c))
}

func constOf(a AInt) (int64, bool) {
	if len(a.conds) == 0 && a.a.isConst() {
		return a.a.c, true
	}
	return 0, false
}

func (f *Frame) binop(x *ssa.BinOp) AV {
	xv, yv := f.val(x.X), f.val(x.Y)
	switch x.Op {
	case token.EQL, token.NEQ, token.LSS, token.LEQ, token.GTR, token.GEQ:
		return f.compare(x, xv, yv)
	}
	if fx, ok := xv.(AFloat); ok {
		if fy, ok := yv.(AFloat); ok && x.Op == token.QUO && !fx.ceiled && !fy.ceiled {
			if c, ok := constOf(fy.num); ok && fy.den == 1 && c > 0 {
				return AFloat{num: fx.num, den: fx.den * c}
			}
		}
		return AOpaque{f.key + x.Name(), x.Type()}
	}
	if bx, ok := xv.(ABool); ok {
		if by, ok := yv.(ABool); ok {
			switch x.Op {
			case token.AND, token.LAND:
				return ABool{formAnd(bx.f, by.f)}
			case token.OR, token.LOR:
				return ABool{formOr(bx.f, by.f)}
			}
		}
	}
	ax, okx := xv.(AInt)
	ay, oky := yv.(AInt)
	if !okx || !oky || !isIntType(x.Type()) {
		if isIntType(x.Type()) {
			return f.opaqueInt(x)
		}
		return f.an.u.symbolic(f.key+x.Name(), x.Type())
	}
	ax, ay = f.settle(ax), f.settle(ay)
	inherit := append(append([]wrapCond(nil), ax.conds...), ay.conds...)
	what := fmt.Sprintf("%s %s %s", x.X.Name(), x.Op, x.Y.Name())
	if e := f.an.ctx.exprAt(x.Pos(), f.fn); e != "" {
		what = e
	}
	cy, yConst := constOf(ay)
	cx, xConst := constOf(ax)
	switch x.Op {
	case token.ADD:
		return f.narrowResult(x, ax.a.add(ay.a), inherit, what)
	case token.SUB:
		return f.narrowResult(x, ax.a.sub(ay.a), inherit, what)
	case token.MUL:
		if yConst {
			return f.narrowResult(x, ax.a.scale(cy), inherit, what)
		}
		if xConst {
			return f.narrowResult(x, ay.a.scale(cx), inherit, what)
		}
	case token.SHL:
		if yConst && cy >= 0 && cy < 40 {
			return f.narrowResult(x, ax.a.scale(1<<uint(cy)), inherit, what)
		}
		if xConst && cx == 1 {
			// 1 << y: opaque power of two; keep positivity
			r := f.opaqueInt(x)
			return r
		}
	case token.QUO:
		if yConst && cy > 0 && len(inherit) == 0 && f.nonNegHere(ax.a) {
			if cy == 1 {
				return ax
			}
			return AInt{a: affSym(f.divSym(ax.a, cy))}
		}
	case token.REM:
		if yConst && cy > 0 && len(inherit) == 0 && f.nonNegHere(ax.a) {
			return AInt{a: f.modAff(ax.a, cy)}
		}
	case token.OR, token.XOR:
		// bitwise OR (or XOR) of values whose set bits cannot overlap is their sum:
		// (uint16(hi) << 8) | uint16(lo) with lo < 2^8
		if len(inherit) == 0 {
			gran := func(a Aff) int64 { // largest power of two dividing every coefficient and the constant
				g := int64(0)
				for _, t := range a.terms {
					g = gcd(g, t.k)
				}
				g = gcd(g, a.c)
				if g < 0 {
					g = -g
				}
				if g == 0 {
					return 1 << 40
				}
				return g & -g
			}
			lx, hx := ax.a.interval()
			ly, hy := ay.a.interval()
			if lx >= 0 && ly >= 0 && (hy < gran(ax.a) || hx < gran(ay.a)) {
				return f.narrowResult(x, ax.a.add(ay.a), inherit, what)
			}
		}
	case token.SHR:
		if yConst && cy >= 0 && cy < 40 && len(inherit) == 0 && f.nonNegHere(ax.a) {
			return AInt{a: affSym(f.divSym(ax.a, 1<<uint(cy)))}
		}
	case token.AND:
		// x & (2^k - 1) = x mod 2^k ; x & 2^k tested against 0 handled in compare
		if yConst && cy > 0 && (cy&(cy+1)) == 0 && len(inherit) == 0 && f.nonNegHere(ax.a) {
			return AInt{a: f.modAff(ax.a, cy+1)}
		}
		if yConst && cy > 0 && (cy&(cy-1)) == 0 && len(inherit) == 0 && f.nonNegHere(ax.a) {
			// single-bit mask: result is 0 or 2^k; bit = floor(x/2^k) mod 2
			bit := f.modAff(affSym(f.divSym(ax.a, cy)), 2)
			return AInt{a: bit.scale(cy)}
		}
		if yConst && cy >= 0 {
			r := f.opaqueInt(x)
			if len(r.a.terms) == 1 && r.a.terms[0].s.hi > cy {
				r.a.terms[0].s.hi = cy
			}
			return r
		}
	}
	return f.opaqueInt(x)
}

func (f *Frame) compare(x *ssa.BinOp, xv, yv AV) AV {
	ax, okx := xv.(AInt)
	ay, oky := yv.(AInt)
	if okx && oky {
		a := f.use(ax, "comparison")
		b := f.use(ay, "comparison")
		var at Atom
		switch x.Op {
		case token.EQL:
			at = atomEQ(a, b)
		case token.NEQ:
			at = atomNE(a, b)
		case token.LSS:
			at = atomLT(a, b)
		case token.LEQ:
			at = atomLE(a, b)
		case token.GTR:
			at = atomGT(a, b)
		case token.GEQ:
			at = atomGE(a, b)
		}
		return ABool{formAtom(at)}
	}
	bx, bokx := xv.(ABool)
	by, boky := yv.(ABool)
	if bokx && boky && (x.Op == token.EQL || x.Op == token.NEQ) {
		eq := formOr(formAnd(bx.f, by.f), formAnd(formNot(bx.f), formNot(by.f)))
		if x.Op == token.NEQ {
			return ABool{formNot(eq)}
		}
		return ABool{eq}
	}
	// nil comparisons
	if x.Op == token.EQL || x.Op == token.NEQ {
		var other AV
		if isNilConst(x.Y) {
			other = xv
		} else if isNilConst(x.X) {
			other = yv
		}
		if other != nil {
			nf := f.nilness(other)
			if x.Op == token.NEQ {
				return ABool{formNot(nf)}
			}
			return ABool{nf}
		}
		// identity comparison of references (err == packet.ErrTCPDataTooShort)
		for _, pair := range [][2]AV{{xv, yv}, {yv, xv}} {
			if ref, ok := pair[0].(ARef); ok && ref.idSym != nil {
				if id, ok := f.an.u.identityOf(pair[1]); ok {
					at := atomEQ(affSym(ref.idSym), affConst(id))
					if x.Op == token.NEQ {
						return ABool{formNot(formAtom(at))}
					}
					return ABool{formAtom(at)}
				}
			}
		}
		s := f.an.u.boolSym(fmt.Sprintf("%seq(%s,%s)", f.key, describeAV(xv), describeAV(yv)))
		fm := formAtom(atomEQ(affSym(s), affConst(1)))
		if x.Op == token.NEQ {
			return ABool{formNot(fm)}
		}
		return ABool{fm}
	}
	s := f.an.u.boolSym(f.key + "cmp:" + x.Name())
	return ABool{formAtom(atomEQ(affSym(s), affConst(1)))}
}

func isNilConst(v ssa.Value) bool {
	c, ok := v.(*ssa.Const)
	return ok && c.Value == nil && !isIntType(c.Type()) && !isBoolType(c.Type())
}

func (f *Frame) unop(x *ssa.UnOp) AV {
	switch x.Op {
	case token.MUL:
		return f.load(x)
	case token.NOT:
		if b, ok := f.val(x.X).(ABool); ok {
			return ABool{formNot(b.f)}
		}
	case token.SUB:
		if a, ok := f.val(x.X).(AInt); ok {
			return f.narrowResult(x, a.a.neg(), a.conds, "-"+x.X.Name())
		}
	case token.ARROW:
		return f.an.u.symbolic(f.key+x.Name(), x.Type())
	}
	return f.an.u.symbolic(f.key+x.Name(), x.Type())
}

func (f *Frame) convert(x ssa.Value, from ssa.Value, to types.Type) AV {
	v := f.val(from)
	switch a := v.(type) {
	case AInt:
		if isIntType(to) {
			what := fmt.Sprintf("%s(%s)", types.TypeString(to, func(*types.Package) string { return "" }), from.Name())
			if e := f.an.ctx.exprAt(x.Pos(), f.fn); e != "" {
				what = e
			}
			a = f.settle(a)
			lo, hi, _ := intRange(to)
			if mlo, mhi := a.a.interval(); len(a.conds) == 0 && lo == 0 && isNarrow(to) && (mlo < lo || mhi > hi) && f.nonNegHere(a.a) {
				// unsigned truncation of a non-negative value is exactly "mod 2^w"
				return AInt{a: f.modAff(a.a, hi+1)}
			}
			return f.narrowResult(x, a.a, a.conds, what)
		}
		if isFloatType(to) {
			return AFloat{num: a, den: 1}
		}
	case AFloat:
		if isIntType(to) {
			if a.ceiled && a.den == 1 {
				return a.num
			}
			return f.opaqueInt(x)
		}
		if isFloatType(to) {
			return a
		}
	case ABool, ASlice, AStruct, AStructLit, APtr, ARef, AIface:
		return v
	}
	return f.an.u.symbolic(f.key+x.Name(), to)
}

func (f *Frame) typeAssert(x *ssa.TypeAssert) {
	v := f.val(x.X)
	// known dynamic type?
	known := false
	var inner AV
	switch iv := v.(type) {
	case AIface:
		if types.Identical(iv.typ, x.AssertedType) {
			known, inner = true, iv.val
		}
	case ARef:
		if ii, ok := iv.inner.(AIface); ok && types.Identical(ii.typ, x.AssertedType) {
			// may still be nil: only non-nil branch gives the type; a failed assertion on nil panics
			nf := f.nilness(iv)
			if f.state().entailsForm(formNot(nf)) {
				known, inner = true, ii.val
			}
		}
		if !known && !iv.dynUnknown && len(iv.dynTypes) > 0 {
			all := true
			for _, t := range iv.dynTypes {
				if !types.Identical(t, x.AssertedType) {
					all = false
				}
			}
			nf := f.nilness(iv)
			if all && f.state().entailsForm(formNot(nf)) {
				known = true
			}
		}
	}
	if !known && !x.CommaOk {
		// field invariant "bool field true => the interface field's value implements the asserted
		// type" (established in the constructors, cfg.go), with the bool field proven true here
		if ld, ok := x.X.(*ssa.UnOp); ok && ld.Op == token.MUL {
			if fa, ok := ld.X.(*ssa.FieldAddr); ok {
				if tn, ok := deref(fa.X.Type()).(*types.Named); ok {
					for _, inv := range fieldAssertInvariants(f.an.ctx) {
						if inv.tn != tn || inv.ifaceFld != fa.Field || !types.Identical(inv.asserted, x.AssertedType) {
							continue
						}
						if p, ok := f.val(fa.X).(APtr); ok && p.obj != nil {
							st := tn.Underlying().(*types.Struct)
							if bv, ok := f.loadPath(p.obj, pathStr(p.path, inv.boolFld), st.Field(inv.boolFld).Type(), x).(ABool); ok && f.state().entailsForm(bv.f) {
								known = true
							}
						}
					}
				}
			}
		}
	}
	upcast := false
	if ai, isIface := x.AssertedType.Underlying().(*types.Interface); isIface && !x.CommaOk && !known {
		// x.(I) where the static type of x already implements I (what go/ssa emits when a method
		// value is taken from an interface value): it fails only for a nil x
		if _, srcIface := x.X.Type().Underlying().(*types.Interface); srcIface && types.Implements(x.X.Type(), ai) {
			nf := f.nilness(v)
			if (nf.kind == fConst && !nf.b) || (nf.kind != fConst && f.state().entailsForm(formNot(nf))) {
				known, upcast = true, true
			}
		}
	}
	if !x.CommaOk {
		if _, isIface := x.AssertedType.Underlying().(*types.Interface); !isIface || true {
			if !known {
				f.obligFail("assert", x.Pos(), fmt.Sprintf("type assertion %s.(%s) without comma-ok: dynamic type not established",
					x.X.Name(), types.TypeString(x.AssertedType, nil)))
			} else {
				f.oblig("assert", x.Pos(), "type assertion with established dynamic type", Conj{}, nil)
			}
		}
		if inner != nil {
			f.set(x, inner)
		} else if upcast {
			f.set(x, v) // the same value seen through the asserted interface
		} else if _, toIface := x.AssertedType.Underlying().(*types.Interface); toIface {
			// an assertion that did not panic yields a non-nil interface value
			rv := f.newRef(f.key+x.Name(), x.Type())
			f.assume(atomEQ(affSym(rv.nilSym), affConst(0)))
			f.set(x, rv)
		} else {
			f.set(x, f.an.u.symbolic(f.key+x.Name(), x.Type()))
		}
		return
	}
	okSym := f.an.u.boolSym(f.key + "ok:" + x.Name())
	var val AV
	if inner != nil {
		val = inner
	} else {
		val = f.an.u.symbolic(f.key+x.Name()+"#0", x.AssertedType)
	}
	f.set(x, ATuple{val, ABool{formAtom(atomEQ(affSym(okSym), affConst(1)))}})
}

func (d DNF) entailsForm(fm *Form) bool {
	// d |= fm  iff  d ∧ ¬fm infeasible
	neg := fm.dnf(true)
	for _, c := range dnfAnd(d, neg) {
		if !infeasible(c) {
			return false
		}
	}
	return true
}

func (f *Frame) obligFail(kind string, pos token.Pos, desc string) {
	if f.an.quiet > 0 {
		return
	}
	if len(f.cur) == 0 {
		return // unreachable
	}
	st := f.state()
	o := &Oblig{kind: kind, fn: f.fn, root: f.an.top, pos: pos, desc: desc, ok: false, facts: st.String(), depth: f.depth, chain: f.chain()}
	f.an.obligs = append(f.an.obligs, o)
}

// ---- calls ----

func (f *Frame) call(x *ssa.Call) AV {
	if !f.an.logCalls || f.an.quiet > 0 {
		return f.call1(x, nil)
	}
	rec := &CallRec{instr: x, frame: f, state: f.cur, ghost: copyGhost(f.ghost)}
	f.an.calls = append(f.an.calls, rec)
	res := f.call1(x, rec)
	rec.res = res
	return res
}

func (f *Frame) call1(x *ssa.Call, rec *CallRec) AV {
	f.stateAt[x] = f.cur
	common := x.Common()
	resT := x.Type()
	key := f.key + x.Name()
	args := make([]AV, len(common.Args))
	for i, a := range common.Args {
		args[i] = f.val(a)
	}
	if rec != nil {
		rec.args = args
	}
	if common.IsInvoke() {
		if rec != nil {
			rec.method = common.Method.Name()
			rec.recv = f.val(common.Value)
		}
		return f.invoke(x, key, args)
	}
	if b, ok := common.Value.(*ssa.Builtin); ok {
		return f.builtin(x, b, args)
	}
	callee := common.StaticCallee()
	var bound AV // receiver captured by a method value
	if callee != nil && len(callee.FreeVars) > 0 {
		// a function literal called directly: it still sees the variables it captured
		if fv, ok := f.val(common.Value).(AFunc); ok && fv.fn == callee {
			f.pendingFree = fv.free
			bound = fv.recv
		}
	}
	if callee == nil {
		// dynamic call through a function value
		switch fv := f.val(common.Value).(type) {
		case AFunc:
			callee, bound = fv.fn, fv.recv
			f.pendingFree = fv.free
		case AFuncSet:
			if rec != nil {
				rec.dyn = fv
			}
			return f.callEach(x, fv, args, key, resT)
		}
	}
	// method values (x.M: a closure over the receiver) and method expressions (T.M: a thunk taking
	// the receiver first) are the method itself
	for i := 0; i < 3 && callee != nil; i++ {
		isBound := strings.HasPrefix(callee.Synthetic, "bound method wrapper")
		isThunk := strings.HasPrefix(callee.Synthetic, "thunk for")
		if !(isBound && bound != nil) && !isThunk {
			break
		}
		inner := soleCall(callee)
		if inner == nil {
			break
		}
		if isBound {
			args = append([]AV{bound}, args...)
			bound = nil
		}
		if inner.Common().IsInvoke() {
			if len(args) == 0 {
				break
			}
			if rec != nil {
				rec.method = inner.Common().Method.Name()
				rec.recv = args[0]
				rec.args = args[1:]
			}
			return f.invokeNamed(x, inner.Common().Method.Name(), key, args[1:])
		}
		sc := inner.Common().StaticCallee()
		if sc == nil {
			break
		}
		callee = sc
		if rec != nil {
			rec.args = args
		}
	}
	if rec != nil {
		rec.callee = callee
		if callee == nil {
			rec.dyn = f.val(common.Value)
		}
	}
	if callee == nil {
		f.escapeArgs(args)
		return f.symbolicResult(key, resT)
	}
	return f.callWith(x, callee, args, key, resT)
}

// resolveBound: a method value x.M is the method M applied to the receiver captured when the
// value was made.
func resolveBound(fv AFunc, args []AV) (*ssa.Function, []AV) {
	if fv.recv == nil {
		return fv.fn, args
	}
	for _, b := range fv.fn.Blocks {
		for _, in := range b.Instrs {
			if c, ok := in.(*ssa.Call); ok && !c.Common().IsInvoke() {
				if sc := c.Common().StaticCallee(); sc != nil {
					return sc, append([]AV{fv.recv}, args...)
				}
			}
		}
	}
	return fv.fn, args
}

// callEach evaluates a call through "one of these functions" once per alternative, under the
// paths on which that alternative is the value, and merges the results like a phi.
func (f *Frame) callEach(x *ssa.Call, fs AFuncSet, args []AV, key string, resT types.Type) AV {
	entry := f.cur
	var results []AV
	var outs []DNF
	for i, alt := range fs.alts {
		st := f.compress1(dnfAnd(entry, DNF{Conj{atomEQ(affSym(fs.sel), affConst(int64(i)))}}))
		if len(st) == 0 {
			continue
		}
		f.cur = st
		callee, a2 := resolveBound(alt, args)
		results = append(results, f.callWith(x, callee, a2, fmt.Sprintf("%s#alt%d", key, i), resT))
		outs = append(outs, f.cur)
	}
	if len(results) == 0 {
		f.cur = entry
		return f.symbolicResult(key, resT)
	}
	if len(results) == 1 {
		f.cur = outs[0]
		return results[0]
	}
	if tup, isTuple := resT.(*types.Tuple); isTuple {
		mt := make(ATuple, tup.Len())
		for k := 0; k < tup.Len(); k++ {
			comp := make([]AV, len(results))
			for i, r := range results {
				if rt, ok := r.(ATuple); ok && k < len(rt) {
					comp[i] = rt[k]
				} else {
					comp[i] = f.an.u.symbolic(fmt.Sprintf("%s#alt%d.%d", key, i, k), tup.At(k).Type())
				}
			}
			mt[k] = f.mergedValue(fmt.Sprintf("%s.%d", key, k), tup.At(k).Type(), comp)
		}
		var merged DNF
		for i, r := range results {
			st := outs[i]
			if rt, ok := r.(ATuple); ok {
				for k := range mt {
					if k < len(rt) {
						st = f.bindMerged(mt[k], rt[k], st)
					}
				}
			}
			merged = append(merged, st...)
		}
		f.cur = merged
		return mt
	}
	m := f.mergedValue(key, resT, results)
	var merged DNF
	for i := range results {
		merged = append(merged, f.bindMerged(m, results[i], outs[i])...)
	}
	f.cur = merged
	return m
}

// callWith: the call of a resolved callee.
func (f *Frame) callWith(x *ssa.Call, callee *ssa.Function, args []AV, key string, resT types.Type) AV {
	if f.an.onCall != nil {
		f.an.onCall(f, x, callee, args)
	}
	if r, ok := f.knownExternal(x, callee, args, key); ok {
		return r
	}
	if name, ok := f.an.uninterp[callee]; ok {
		parts := make([]string, len(args))
		nw := map[*Root]int{}
		for i, a := range args {
			parts[i] = describeAV(a)
			if s, ok := a.(ASlice); ok && s.root != nil {
				nw[s.root] = len(s.root.writes)
			}
		}
		res := f.symbolicResult(name+"("+strings.Join(parts, ",")+")", x.Type())
		f.an.ucalls = append(f.an.ucalls, UCall{fn: callee, args: args, res: res, state: f.cur, pos: x.Pos(), frame: f, nwrite: nw})
		return res
	}
	if callee.Blocks != nil && f.an.ctx.inModule(callee) && f.depth < maxDepth && !f.recursive(callee) && (f.an.noInline == nil || !f.an.noInline(callee)) {
		return f.inline(x, callee, args, key)
	}
	f.escapeArgs(args)
	return f.symbolicResult(key, resT)
}

func (f *Frame) recursive(fn *ssa.Function) bool {
	for fr := f; fr != nil; fr = fr.parent {
		if fr.fn == fn {
			return true
		}
	}
	return false
}

// escapeArgs: a slice handed to code the analysis does not follow may be modified by it.
func (f *Frame) escapeArgs(args []AV) {
	for _, a := range args {
		if s, ok := a.(ASlice); ok && s.root != nil && s.root.fresh && !s.isNil {
			s.root.extVer++
		}
	}
}

func (f *Frame) symbolicResult(key string, t types.Type) AV {
	if tup, ok := t.(*types.Tuple); ok {
		r := make(ATuple, tup.Len())
		for i := 0; i < tup.Len(); i++ {
			r[i] = f.symbolicRef(fmt.Sprintf("%s#%d", key, i), tup.At(i).Type())
		}
		return r
	}
	return f.symbolicRef(key, t)
}

func (f *Frame) symbolicRef(key string, t types.Type) AV {
	switch t.Underlying().(type) {
	case *types.Interface, *types.Pointer, *types.Signature, *types.Map, *types.Chan:
		return f.newRef(key, t)
	}
	return f.an.u.symbolic(key, t)
}

// soleCall: the one call instruction of a synthetic wrapper.
func soleCall(fn *ssa.Function) *ssa.Call {
	var out *ssa.Call
	for _, b := range fn.Blocks {
		for _, in := range b.Instrs {
			if c, ok := in.(*ssa.Call); ok {
				if _, isB := c.Common().Value.(*ssa.Builtin); isB {
					continue
				}
				if out != nil {
					return nil
				}
				out = c
			}
		}
	}
	return out
}

func (f *Frame) invoke(x *ssa.Call, key string, args []AV) AV {
	return f.invokeNamed(x, x.Common().Method.Name(), key, args)
}

func (f *Frame) invokeNamed(x *ssa.Call, name string, key string, args []AV) AV {
	res := f.symbolicResult(key, x.Type())
	f.escapeArgs(args)
	// io.Reader contract: Read(p []byte) (n int, err error) has 0 <= n <= len(p)
	if name == "Read" && len(args) == 1 {
		if s, ok := args[0].(ASlice); ok {
			if tup, ok := res.(ATuple); ok && len(tup) == 2 {
				if n, ok := tup[0].(AInt); ok {
					f.assume(atomGE(n.a, affConst(0)), atomLE(n.a, s.ln))
				}
			}
		}
	}
	return res
}

func (f *Frame) builtin(x *ssa.Call, b *ssa.Builtin, args []AV) AV {
	key := f.key + x.Name()
	switch b.Name() {
	case "len":
		switch s := args[0].(type) {
		case ASlice:
			return AInt{a: s.ln}
		}
		return AInt{a: affSym(f.an.u.sym("len("+describeAV(args[0])+")", 0, maxLen))}
	case "cap":
		if s, ok := args[0].(ASlice); ok && s.root.fresh {
			return AInt{a: s.root.ln.sub(s.off)}
		}
		return AInt{a: affSym(f.an.u.sym("cap("+describeAV(args[0])+")", 0, maxLen))}
	case "copy":
		dst, ok1 := args[0].(ASlice)
		src, ok2 := args[1].(ASlice)
		n := f.an.u.sym(key, 0, maxLen)
		if ok1 && ok2 {
			f.assume(atomLE(affSym(n), dst.ln), atomLE(affSym(n), src.ln))
			if !dst.isNil {
				dst.root.addWrite(&Write{off: dst.off, width: dst.ln, kind: wCopy, val: src, pos: f.posStr(x.Pos()), state: f.cur, fn: f.fn})
			}
		}
		return AInt{a: affSym(n)}
	case "append":
		if s, ok := args[0].(ASlice); ok {
			if len(args) == 2 {
				if t, ok := args[1].(ASlice); ok {
					// appending within the capacity of a buffer this code made (its length beyond the slice's
					// own: make with a capacity, or a shorter view of it) writes into that buffer
					if s.root != nil && s.root.fresh && s.root.extVer == 0 && !s.isNil && t.root != nil && len(f.state()) > 0 &&
						f.state().entails(atomLE(s.off.add(s.ln).add(t.ln), s.root.ln)) {
						at := s.off.add(s.ln)
						replicated := false
						if t.root.fresh && t.root.extVer == 0 && t.ln.isConst() && t.off.isConst() && int(t.ln.c) == len(t.root.writes) {
							// the packed operands: one byte store per element
							replicated = true
							for _, w := range t.root.writes {
								if w.kind != wByte || !w.off.isConst() || w.off.c < t.off.c || w.off.c >= t.off.c+t.ln.c {
									replicated = false
								}
							}
							if replicated {
								for _, w := range t.root.writes {
									s.root.addWrite(&Write{off: at.addc(w.off.c - t.off.c), width: affConst(1), kind: wByte, val: w.val, pos: f.posStr(x.Pos()), state: f.cur, fn: f.fn})
								}
							}
						}
						if !replicated {
							s.root.addWrite(&Write{off: at, width: t.ln, kind: wCopy, val: t, pos: f.posStr(x.Pos()), state: f.cur, fn: f.fn})
						}
						return ASlice{root: s.root, off: s.off, ln: s.ln.add(t.ln), elem: s.elem}
					}
					// result: fresh-or-shared root; model as new root with len = len(s)+len(t)
					ln := s.ln.add(t.ln)
					r := &Root{key: "append@" + key, ln: ln}
					return ASlice{root: r, ln: ln, elem: s.elem}
				}
			}
		}
		return f.an.u.symbolic(key, x.Type())
	case "min", "max":
		if len(args) == 2 {
			a, ok1 := args[0].(AInt)
			c, ok2 := args[1].(AInt)
			if ok1 && ok2 && len(a.conds) == 0 && len(c.conds) == 0 {
				lo, hi, _ := intRange(x.Type())
				m := f.an.u.sym(key, lo, hi)
				if b.Name() == "min" {
					f.assume(atomLE(affSym(m), a.a), atomLE(affSym(m), c.a))
				} else {
					f.assume(atomGE(affSym(m), a.a), atomGE(affSym(m), c.a))
				}
				return AInt{a: affSym(m)}
			}
		}
	case "recover":
		return f.newRef(key, x.Type())
	}
	return f.symbolicResult(key, x.Type())
}

func funcFullName(fn *ssa.Function) string {
	return fn.String()
}

// knownExternal models the few library functions whose effect matters.
func (f *Frame) knownExternal(x *ssa.Call, callee *ssa.Function, args []AV, key string) (AV, bool) {
	name := funcFullName(callee)
	switch name {
	case "math.Ceil":
		if fl, ok := args[0].(AFloat); ok && !fl.ceiled {
			if len(fl.num.conds) == 0 && nonNeg(fl.num.a) && fl.den > 0 {
				if fl.den == 1 {
					return AFloat{num: fl.num, den: 1, ceiled: true}, true
				}
				return AFloat{num: AInt{a: affSym(f.ceilDivSym(fl.num.a, fl.den))}, den: 1, ceiled: true}, true
			}
		}
		return AOpaque{key, x.Type()}, true
	case "math/rand.Intn", "math/rand.Int31n", "math/rand.Int63n":
		// contract: 0 <= result < n
		if n, ok := args[0].(AInt); ok {
			if cn, isC := constOf(n); isC && cn > 0 {
				return AInt{a: affSym(f.an.u.sym(key, 0, cn-1))}, true
			}
		}
		return AInt{a: affSym(f.an.u.sym(key, 0, bigNum))}, true
	case "errors.Is":
		// errors.Is(x, t) is x == t when no value x can hold wraps another error or customises
		// the comparison (no Unwrap / Is method on any of its possible dynamic types)
		if ref, ok := args[0].(ARef); ok && ref.idSym != nil && !ref.dynUnknown {
			plain := true
			for _, t := range ref.dynTypes {
				ms := types.NewMethodSet(t)
				for i := 0; i < ms.Len(); i++ {
					if n := ms.At(i).Obj().Name(); n == "Unwrap" || n == "Is" {
						plain = false
					}
				}
				if !types.Comparable(t) {
					plain = false
				}
			}
			if id, ok := f.an.u.identityOf(args[1]); ok && plain {
				return ABool{formAtom(atomEQ(affSym(ref.idSym), affConst(id)))}, true
			}
		}
		s := f.an.u.boolSym("errors.Is(" + describeAV(args[0]) + "," + describeAV(args[1]) + ")")
		return ABool{formAtom(atomEQ(affSym(s), affConst(1)))}, true
	case "errors.New", "fmt.Errorf":
		return AIface{val: AOpaque{key, x.Type()}, typ: types.Typ[types.Invalid]}, true
	}
	if strings.HasPrefix(name, "(*bytes.Buffer).") && len(args) >= 1 {
		if p, ok := args[0].(APtr); ok && p.obj != nil {
			bkey := p.obj.key + f.pathNames(p.obj, p.path)
			g := f.ghostOf(bkey)
			fresh := func(ln Aff) ghostBuf {
				for fr := f; fr != nil; fr = fr.parent {
					if fr.ghostTouched == nil {
						fr.ghostTouched = map[string]bool{}
					}
					fr.ghostTouched[bkey] = true
				}
				return ghostBuf{ln: ln, root: &Root{key: fmt.Sprintf("buf(%s)#%d", bkey, g.ver+1), ln: ln}, ver: g.ver + 1}
			}
			switch strings.TrimPrefix(name, "(*bytes.Buffer).") {
			case "Len":
				return AInt{a: g.ln}, true
			case "Bytes":
				return ASlice{root: g.root, off: Aff{}, ln: g.ln, elem: types.Typ[types.Uint8]}, true
			case "Reset":
				f.ghost[bkey] = fresh(Aff{})
				return ATuple{}, true
			case "Write":
				if s, ok := args[1].(ASlice); ok {
					f.ghost[bkey] = fresh(g.ln.add(s.ln))
					return ATuple{AInt{a: s.ln}, ANil{}}, true
				}
			case "Next":
				if n, ok := args[1].(AInt); ok {
					na := f.use(n, "Buffer.Next")
					st := f.state()
					if len(st) > 0 && st.entails(atomLE(na, g.ln)) && st.entails(atomGE(na, affConst(0))) {
						f.ghost[bkey] = fresh(g.ln.sub(na))
						return ASlice{root: g.root, off: Aff{}, ln: na, elem: types.Typ[types.Uint8]}, true
					}
					// fewer bytes than requested may be returned
					m := f.an.u.sym(key+":nextlen", 0, maxLen)
					f.assume(atomLE(affSym(m), na), atomLE(affSym(m), g.ln))
					f.ghost[bkey] = fresh(g.ln.sub(affSym(m)))
					return ASlice{root: g.root, off: Aff{}, ln: affSym(m), elem: types.Typ[types.Uint8]}, true
				}
			case "Truncate":
				if n, ok := args[1].(AInt); ok {
					f.ghost[bkey] = ghostBuf{ln: f.use(n, "Buffer.Truncate"), root: g.root, ver: g.ver + 1}
					return ATuple{}, true
				}
			}
		}
	}
	// encoding/binary byte orders
	var be, isBin bool
	switch {
	case len(name) > 35 && name[:35] == "(encoding/binary.bigEndian).":
	}
	recvBig := "(encoding/binary.bigEndian)."
	recvLit := "(encoding/binary.littleEndian)."
	var meth string
	if len(name) > len(recvBig) && name[:len(recvBig)] == recvBig {
		be, isBin, meth = true, true, name[len(recvBig):]
	} else if len(name) > len(recvLit) && name[:len(recvLit)] == recvLit {
		be, isBin, meth = false, true, name[len(recvLit):]
	}
	if !isBin {
		return nil, false
	}
	var n int
	put := false
	switch meth {
	case "Uint16":
		n = 2
	case "Uint32":
		n = 4
	case "Uint64":
		n = 8
	case "PutUint16":
		n, put = 2, true
	case "PutUint32":
		n, put = 4, true
	case "PutUint64":
		n, put = 8, true
	default:
		return nil, false
	}
	s, ok := args[1].(ASlice)
	if !ok {
		f.obligFail("binary", x.Pos(), "encoding/binary call on a slice the analysis cannot describe")
		return f.symbolicResult(key, x.Type()), true
	}
	f.oblig("binary", x.Pos(), fmt.Sprintf("binary.%s needs len >= %d, have %s[%s:+%s]", meth, n, s.root.key, s.off.String(), s.ln.String()),
		Conj{atomGE(s.ln, affConst(int64(n)))}, []string{s.root.key})
	if put {
		k := wBEn
		if !be {
			k = wLEn
		}
		s.root.addWrite(&Write{off: s.off, width: affConst(int64(n)), kind: k, n: n, val: args[2], pos: f.posStr(x.Pos()), state: f.cur, fn: f.fn})
		return ATuple{}, true
	}
	if s.root.fresh && n <= 4 {
		if v, ok := f.readFresh(s.root, s.off, n, be); ok {
			return v, true
		}
		return f.opaqueInt(x), true
	}
	if n > 4 {
		return f.opaqueInt(x), true
	}
	// value = Σ 256^k * byte
	var a Aff
	for i := 0; i < n; i++ {
		off := s.off.addc(int64(i))
		b := f.an.u.sym(fmt.Sprintf("%s[%s]", s.root.key, off.String()), 0, 255)
		sh := uint(8 * (n - 1 - i))
		if !be {
			sh = uint(8 * i)
		}
		a = a.add(affSym(b).scale(1 << sh))
	}
	return AInt{a: a}, true
}

// inline analyses the callee in the caller's context and merges its return sites.
func (f *Frame) inline(x *ssa.Call, callee *ssa.Function, args []AV, key string) AV {
	ch := f.an.newFrame(callee, f, args)
	// a function literal called where it was made sees the enclosing function's variables
	if free := f.pendingFree; len(free) == len(callee.FreeVars) {
		for i, fv := range callee.FreeVars {
			if free[i] != nil {
				ch.vals[fv] = free[i]
			}
		}
	}
	f.pendingFree = nil
	f.child[x] = ch
	ch.run(f.cur)
	sites := ch.returns
	// ghost state after the call: where all return sites agree
	if len(sites) > 0 {
		merged := copyGhost(sites[0].ghost)
		for _, s := range sites[1:] {
			for k, v := range merged {
				w, ok := s.ghost[k]
				if !ok || !w.ln.equal(v.ln) || w.root != v.root {
					ln := f.an.u.sym(fmt.Sprintf("buflen(%s)@%s", k, key), 0, maxLen)
					merged[k] = ghostBuf{ln: affSym(ln), root: &Root{key: fmt.Sprintf("buf(%s)@%s", k, key), ln: affSym(ln)}, ver: v.ver + 1}
				}
			}
		}
		f.ghost = merged
	}
	if len(sites) == 0 {
		f.cur = nil
		return f.symbolicResult(key, x.Type())
	}
	sig := callee.Signature
	nres := sig.Results().Len()
	if nres == 0 {
		var st DNF
		for _, s := range sites {
			st = append(st, s.state...)
		}
		f.cur = f.compress(st)
		return ATuple{}
	}
	merged := make([]AV, nres)
	for j := 0; j < nres; j++ {
		vals := make([]AV, len(sites))
		for i, s := range sites {
			vals[i] = s.vals[j]
		}
		merged[j] = f.mergedValue(fmt.Sprintf("%s#%d", key, j), sig.Results().At(j).Type(), vals)
	}
	var st DNF
	for _, s := range sites {
		d := s.state
		for j := 0; j < nres; j++ {
			if describeAV(merged[j]) == describeAV(s.vals[j]) {
				continue
			}
			d = ch.bindMergedIn(f, merged[j], s.vals[j], d)
		}
		st = append(st, d...)
	}
	// flags local to the callee that the results do not refer to carry no further information
	st = f.compress1(st) // prune infeasible disjuncts before forgetting callee-local flags
	live := map[*Sym]bool{}
	for _, m := range merged {
		liveFlags(m, live, 0)
	}
	for i, c := range st {
		var nc Conj
		for _, a := range c {
			drop := false
			allBool := len(a.a.terms) > 0
			for _, t := range a.a.terms {
				if !t.s.isBool {
					allBool = false
				}
			}
			if allBool {
				for _, t := range a.a.terms {
					if strings.HasPrefix(t.s.key, "nil("+ch.key) || strings.HasPrefix(t.s.key, "nilptr("+ch.key) || strings.HasPrefix(t.s.key, ch.key) {
						if !live[t.s] {
							drop = true
						}
					}
				}
			}
			if !drop {
				nc = append(nc, a)
			}
		}
		st[i] = nc
	}
	f.cur = f.compress(st)
	if nres == 1 {
		return merged[0]
	}
	return ATuple(merged)
}

// liveFlags collects the boolean flag symbols an abstract value refers to.
func liveFlags(v AV, into map[*Sym]bool, depth int) {
	if depth > 6 {
		return
	}
	switch x := v.(type) {
	case ARef:
		if x.nilSym != nil {
			into[x.nilSym] = true
		}
		if x.deepNil != nil {
			into[x.deepNil] = true
		}
		if x.inner != nil {
			liveFlags(x.inner, into, depth+1)
		}
	case AIface:
		liveFlags(x.val, into, depth+1)
	case ASlice:
		if x.nilSym != nil {
			into[x.nilSym] = true
		}
	case ABool:
		collectFormSyms(x.f, into)
	case AStructLit:
		for _, f := range x.fields {
			liveFlags(f, into, depth+1)
		}
	case ATuple:
		for _, f := range x {
			liveFlags(f, into, depth+1)
		}
	}
}

func collectFormSyms(f *Form, into map[*Sym]bool) {
	if f == nil {
		return
	}
	switch f.kind {
	case fAtom:
		for _, t := range f.atom.a.terms {
			into[t.s] = true
		}
	case fNot:
		collectFormSyms(f.l, into)
	case fAnd, fOr:
		collectFormSyms(f.l, into)
		collectFormSyms(f.r, into)
	}
}

// bindMergedIn binds using the caller frame's helper (states are self-contained DNFs).
func (ch *Frame) bindMergedIn(caller *Frame, merged, incoming AV, st DNF) DNF {
	return caller.bindMerged(merged, incoming, st)
}

// readFresh reads n bytes at absolute offset abs of a buffer allocated by the analysed code,
// resolving them through the recorded writes: exactly one write must cover the bytes and
// every other write must be provably disjoint (under the facts in force).
func (f *Frame) readFresh(root *Root, abs Aff, n int, be bool) (AV, bool) {
	if v, ok := f.readFresh1(root, abs, n, be); ok {
		return v, true
	}
	// byte by byte: each byte may have been written by a store of its own
	if n > 1 {
		var a Aff
		okAll := true
		for i := 0; i < n && okAll; i++ {
			bv, ok := f.readFresh1(root, abs.addc(int64(i)), 1, be)
			bi, isI := bv.(AInt)
			if !ok || !isI {
				okAll = false
				break
			}
			st := f.state()
			ba := f.useIn(bi, st, "read-back")
			if lo, hi := ba.interval(); (lo < 0 || hi > 255) && !(st.entails(atomGE(ba, affConst(0))) && st.entails(atomLE(ba, affConst(255)))) {
				okAll = false
				break
			}
			sh := uint(8 * (n - 1 - i))
			if !be {
				sh = uint(8 * i)
			}
			a = a.add(ba.scale(1 << sh))
		}
		if okAll {
			return AInt{a: a}, true
		}
	}
	// unresolved: the bytes are whatever the buffer holds after the writes seen so far; two
	// reads of the same location with no write in between see the same content
	var a Aff
	for i := 0; i < n; i++ {
		b := f.an.u.sym(fmt.Sprintf("%s[%s]#%d.%d", root.key, abs.addc(int64(i)).String(), len(root.writes), root.extVer), 0, 255)
		sh := uint(8 * (n - 1 - i))
		if !be {
			sh = uint(8 * i)
		}
		a = a.add(affSym(b).scale(1 << sh))
	}
	return AInt{a: a}, true
}

func (f *Frame) readFresh1(root *Root, abs Aff, n int, be bool) (AV, bool) {
	st := f.state()
	if len(st) == 0 || root.extVer > 0 {
		return nil, false // handed to unfollowed code: contents unknown
	}
	end := abs.addc(int64(n))
	var cover *Write
	for _, w := range root.writes {
		wend := w.off.add(w.width)
		if st.entails(atomLE(w.off, abs)) && st.entails(atomLE(end, wend)) {
			if cover != nil {
				return nil, false
			}
			cover = w
			continue
		}
		if st.entails(atomLE(wend, abs)) || st.entails(atomLE(end, w.off)) {
			continue
		}
		if w.kind == wCopy {
			// a copy writes min(len(dst), len(src)) bytes: it may be shorter than its window
			if src, ok := w.val.(ASlice); ok && st.entails(atomLE(w.off.add(src.ln), abs)) {
				continue
			}
		}
		return nil, false
	}
	if cover == nil {
		// never written: zero (make / local arrays are zero-initialised)
		return AInt{a: affConst(0)}, true
	}
	switch cover.kind {
	case wByte:
		if n == 1 {
			return cover.val, true
		}
	case wBEn, wLEn:
		v, ok := cover.val.(AInt)
		if !ok {
			return nil, false
		}
		val := f.useIn(v, st, "read-back")
		rel := abs.sub(cover.off)
		if !rel.isConst() {
			return nil, false
		}
		k := int(rel.c)
		if k == 0 && n == cover.n && (cover.kind == wBEn) == be {
			return AInt{a: val}, true
		}
		// sub-bytes of the stored integer
		var a Aff
		for i := 0; i < n; i++ {
			pos := k + i // byte position within the write (0 = first byte in memory)
			var sh uint
			if cover.kind == wBEn {
				sh = uint(8 * (cover.n - 1 - pos))
			} else {
				sh = uint(8 * pos)
			}
			var b Aff
			if sh == 0 {
				b = f.modAff(val, 256)
			} else {
				b = f.modAff(f.divAff(val, 1<<sh), 256)
			}
			osh := uint(8 * (n - 1 - i))
			if !be {
				osh = uint(8 * i)
			}
			a = a.add(b.scale(1 << osh))
		}
		return AInt{a: a}, true
	case wCopy:
		src, ok := cover.val.(ASlice)
		if !ok || src.isNil {
			return nil, false
		}
		rel := abs.sub(cover.off)
		// bytes must lie within the copied length min(dst, src)
		if !st.entails(atomLE(rel.addc(int64(n)), src.ln)) {
			return nil, false
		}
		sabs := src.off.add(rel)
		if src.root.fresh {
			return f.readFresh(src.root, sabs, n, be)
		}
		var a Aff
		for i := 0; i < n; i++ {
			b := f.an.u.sym(fmt.Sprintf("%s[%s]", src.root.key, sabs.addc(int64(i)).String()), 0, 255)
			sh := uint(8 * (n - 1 - i))
			if !be {
				sh = uint(8 * i)
			}
			a = a.add(affSym(b).scale(1 << sh))
		}
		return AInt{a: a}, true
	}
	return nil, false
}
