package main

import (
	"flag"
	"fmt"
	"os"
	"path/filepath"
	"sort"
	"strconv"
	"strings"
)

type checkFn func(c *Ctx, r *Report)

var checks = map[string]checkFn{}
var explanations = map[string]string{}

func register(id string, fn checkFn, explanation string) {
	checks[id] = fn
	explanations[id] = explanation
}

func main() {
	prop := flag.String("p", "", "property id (C01..C19) or 'all'")
	tier := flag.String("tier", "quick", "quick|thorough")
	repo := flag.String("repo", "/repo", "repository under analysis")
	verif := flag.String("verif", "/verif", "verification directory (evidence, known findings)")
	dump := flag.String("dump", "", "debug: dump analysis of function (pkgRel:Name)")
	noControls := flag.Bool("nocontrols", false, "skip positive controls (debug)")
	out := flag.String("out", "", "evidence output directory (default <verif>/evidence)")
	flag.Parse()
	if t := os.Getenv("VERIF_TIER"); t != "" && *tier == "" {
		*tier = t
	}
	seed := 0
	if s := os.Getenv("VERIF_SEED"); s != "" {
		seed, _ = strconv.Atoi(s)
	}
	abs, _ := filepath.Abs(*repo)
	repoRootForRel = abs
	ctx := load(abs, modPath, 4)

	if *dump != "" {
		debugDump(ctx, *dump)
		return
	}
	var ids []string
	if *prop == "all" {
		for id := range checks {
			ids = append(ids, id)
		}
		sort.Strings(ids)
	} else {
		ids = strings.Split(*prop, ",")
	}
	var cctx *Ctx
	exit := 0
	for _, id := range ids {
		fn, ok := checks[id]
		if !ok {
			fatal("no check registered for %q", id)
		}
		r := newReport(id, *tier)
		func() {
			defer func() {
				if e := recover(); e != nil {
					fmt.Fprintf(os.Stderr, "mbcheck: analyser panic in %s: %v\n", id, e)
					panic(e)
				}
			}()
			fn(ctx, r)
			for _, lp := range ctx.loadProblems {
				r.undecided("load", "module", lp, "-")
			}
			if !*noControls {
				if cf, ok := controls[id]; ok {
					if cctx == nil {
						cdir := filepath.Join(*verif, "checker", "testdata", "controls")
						save := repoRootForRel
						cctx = load(cdir, "controls", 1)
						repoRootForRel = save
					}
					cf(cctx, r)
				}
			}
		}()
		if e := r.finish(*verif, *out, seed, explanations[id]); e > exit {
			exit = e
		}
	}
	os.Exit(exit)
}

// controls: per property, a function that runs the property's rules on the control
// packages and records which seeded instances fired.
var controls = map[string]func(c *Ctx, r *Report){}
