package main

// C01 — encoded requests are exactly the specified ADUs (DESIGN §3 C01).

import (
	"fmt"
	"go/types"

	"golang.org/x/tools/go/ssa"
)

func init() {
	register("C01", checkC01, "For each of the 20 request types (10 function codes x TCP/RTU) the encoder Bytes() is abstractly interpreted under the success state of its constructor (\"any request the library agrees to construct\"), symbolically in every field value. R1.1: the recorded writes must tile the buffer without gap or overlap and equal the specification layout (MBAP: transaction id, protocol 0, length = bytes that follow; unit id; function code; big-endian fields; byte count = len(payload); payload; RTU: CRC trailer) instantiated through the field-role table. R1.2: on the constructor's success path every quantity lies within the specification's per-function limits and the payload length is tied to the quantity as specified. R1.3: the frame length is at most 260 (TCP) / 256 (RTU). R1.4: CoilsToBytes puts coil j at bit j mod 8 of byte j div 8 for every j in 0..n-1 and returns ceil(n/8) bytes. R1.W: no narrow-typed arithmetic in constructor or encoder can wrap. The random transaction id value is not constrained (any value is legal). R1.5 for an arbitrary struct (exported fields rewritten after construction) the ten TCP encoders still write the constant 0 into the protocol-identifier bytes 2..3. R1.5 also requires bytes 0..1 to be the struct's own TransactionID for any struct contents. R1.6 nothing reachable from request construction and encoding uses a package-level variable that is not constant after initialisation (shared-state rule: module-wide set of variables stored to or handed out outside init; locks, write-only atomics, sync.Once initialisers whose other uses are dominated by the Do call, and private sync.Pool objects are exempt). R1.7 no method declared on a request type (or on a struct it embeds) stores through its receiver or writes memory derived from the request's byte fields (derived-pointer analysis of C13 rooted at every such method, including those fmt calls implicitly).")
}

// requestTypes: named struct types of the package with an ExpectedResponseLength method.
func requestTypes(c *Ctx, pkgRel string) map[*types.Named]bool {
	out := map[*types.Named]bool{}
	sp := c.pkg(pkgRel)
	for _, m := range sp.Members {
		t, ok := m.(*ssa.Type)
		if !ok {
			continue
		}
		tn, ok := t.Type().(*types.Named)
		if !ok {
			continue
		}
		if _, isStruct := tn.Underlying().(*types.Struct); !isStruct {
			continue
		}
		ms := c.prog.MethodSets.MethodSet(tn)
		for i := 0; i < ms.Len(); i++ {
			if ms.At(i).Obj().Name() == "ExpectedResponseLength" {
				out[tn] = true
			}
		}
	}
	return out
}

func checkC01(c *Ctx, r *Report) {
	// R1.7: a request stays what its constructor built: no method declared on a request type (or on
	// a struct it embeds) stores through its receiver or writes the request's own data, so that
	// encoding after any other method call (a String() run by fmt, an accessor) still gives the
	// frame of the constructor's arguments
	{
		reqs := requestTypes(c, "packet")
		fam := packetFamily(c, "packet", func(tn *types.Named) bool { return reqs[tn] })
		r.instance("R1.7", packetValuesImmutable(c, r, "R1.7", "packet", fam, nil))
		r.floor("R1.7", 40)
	}
	r.floor("R1.1", 20)
	r.floor("R1.2", 20)
	r.floor("R1.3", 20)
	r.floor("R1.4", 1)
	crc := c.fnMust("packet", "CRC16")
	reqs := requestTypes(c, "packet")
	for _, m := range bytesMethods(c, "packet") {
		tn := m.Signature.Recv().Type().(*types.Named)
		if !reqs[tn] {
			continue
		}
		tcp := hasMBAP(tn)
		rtu := callsDirect(m, crc)
		if !tcp && !rtu {
			continue // bare PDU types
		}
		id := fnID(m)
		r.funcs[id] = true
		r.instance("R1.1", 1)
		r.instance("R1.2", 1)
		r.instance("R1.3", 1)
		er := runEncoder(c, "packet", m, crc)
		pos := c.pos(m.Pos())
		if !er.okay {
			r.undecided("R1.1", id, "encoder not interpretable: "+er.why, pos)
			continue
		}
		c01Encoder(c, r, er, id, tcp, false)
		if tcp {
			r.instance("R1.5", 1)
			c01ConstProtocol(c, r, "R1.5", m)
		}
	}
	r.floor("R1.5", 10)
	// R1.6: what an encoder emits is a function of the request alone (no package-level state on
	// the path: a lazily built table, a reused scratch buffer)
	sharedStateRule(c, r, "R1.6", "packet request encoders", "request construction and encoding", append(codecRoots(c, "packet", true), crc))
	r.floor("R1.6", 40)
	// R1.4 coil packing
	pack := c.fnMust("packet", "CoilsToBytes")
	r.instance("R1.4", 1)
	c01Packing(c, r, pack)
	r.assumption("encoders are analysed under their constructor's success state (R1.5 alone also covers structs whose exported fields were changed afterwards); hand-built structs that bypass the constructors are otherwise outside \"agrees to construct\"")
	r.assumption("CRC16 is uninterpreted here; its placement is C03's R3.1")
	r.assumption("slice lengths are below 2^31; int is 64 bits wide")
}

func c01Packing(c *Ctx, r *Report, pack *ssa.Function) map[string]bool {
	fired := map[string]bool{}
	pid := fnID(pack)
	pi := analyseCoilPacking(c, pack)
	rep := func(ok bool, what, detail, sig string) {
		if !ok {
			fired[sig] = true
		}
		if r == nil {
			return
		}
		if ok {
			r.ok("R1.4", pid, what, pi.pos, true)
		} else {
			r.fail("R1.4", pid, what, pi.pos, detail, sig)
		}
	}
	if r != nil {
		r.funcs[pid] = true
	}
	if !pi.ok {
		fired["undecided"] = true
		if r != nil {
			r.undecided("R1.4", pid, "packing function not interpretable: "+pi.why, c.pos(pack.Pos()))
		}
		return fired
	}
	wantIdx := affSym(pi.fr.divSym(pi.j, 8))
	wantSh := pi.fr.modAff(pi.j, 8)
	rep(pi.state.entails(atomEQ(pi.idx, wantIdx)), "coil j is stored in byte j div 8", "byte index = "+pi.idx.String(), "byte="+pi.idx.String())
	rep(pi.state.entails(atomEQ(pi.sh, wantSh)), "coil j is stored in bit j mod 8 (least significant bit first)", "bit = "+pi.sh.String(), "bit="+pi.sh.String())
	rep(pi.loopOK, "every coil 0..n-1 is visited exactly once", pi.why, "loop-coverage")
	rep(pi.lenOK, "result has ceil(n/8) bytes", "", "length")
	return fired
}

// c01Encoder checks R1.1–R1.3 and R1.W for one request encoder run.
func c01Encoder(c *Ctx, r *Report, er encRun, id string, tcp, control bool) map[string]bool {
	fired := map[string]bool{}
	pos := c.pos(er.m.Pos())
	rep := func(rule string, ok bool, what, detail, sig string) {
		if !ok {
			fired[rule+":"+sig] = true
		}
		if control {
			return
		}
		if ok {
			r.ok(rule, id, what, pos, true)
		} else {
			r.fail(rule, id, what, pos, detail, sig)
		}
	}
	fc, ok := functionCodeOf(c, er.tn)
	if !ok {
		if !control {
			r.undecided("R1.1", id, "FunctionCode() is not a constant", pos)
		}
		fired["R1.1:undecided"] = true
		return fired
	}
	sp := specFor(fc)
	if sp == nil {
		rep("R1.1", false, fmt.Sprintf("function code %d is not one of the ten supported functions", fc), "", "unknown-fc")
		return fired
	}
	L := er.res.root.ln
	if !(er.rst.entails(atomEQ(er.res.off, affConst(0))) && er.rst.entails(atomEQ(er.res.ln, L))) {
		rep("R1.1", false, "returned slice is not the whole buffer", "", "not-whole-buffer")
		return fired
	}
	exp, why := expectedLayout(er.an.u, er.recv, er.tn, sp, sp.req, tcp, L)
	if exp == nil {
		if !control {
			r.undecided("R1.1", id, why, pos)
		}
		fired["R1.1:undecided"] = true
		return fired
	}
	trailer := 0
	if !tcp {
		trailer = 2
	}
	allOK := true
	for _, cj := range er.rst {
		segs, widths, why := tile(cj, er.res.root, L)
		if why != "" {
			rep("R1.1", false, "frame buffer is not written as one gap-free, overlap-free sequence", why, "tiling")
			allOK = false
			break
		}
		if ok, why := matchLayout(er.fr, cj, segs, widths, exp, trailer); !ok {
			rep("R1.1", false, "encoded frame differs from the specification layout of "+sp.name, why, "layout:"+why)
			allOK = false
			break
		}
	}
	if allOK {
		rep("R1.1", true, fmt.Sprintf("frame = specification layout of FC%d (%s, %s), %d fields, length %s", fc, sp.name, map[bool]string{true: "TCP", false: "RTU"}[tcp], len(exp), L.String()), "", "")
	}
	// R1.2 limits
	for _, lim := range sp.lim {
		fv, _, ok := findField(er.an.u, er.recv, er.tn, lim.field, 0)
		ai, isI := fv.(AInt)
		if !ok || !isI {
			if !control {
				r.undecided("R1.2", id, "quantity field "+lim.field+" not found or not an integer", pos)
			}
			continue
		}
		q := er.fr.useIn(ai, er.rst, "limit")
		lo, hi := er.rst.bounds(q)
		within := lo >= lim.lo && hi <= lim.hi
		rep("R1.2", within, fmt.Sprintf("%s accepted by the constructor lies in [%d,%d] (specification [%d,%d])", lim.field, lo, hi, lim.lo, lim.hi),
			fmt.Sprintf("constructor accepts %s in [%d,%d], specification allows [%d,%d]", lim.field, lo, hi, lim.lo, lim.hi),
			fmt.Sprintf("limit:%s=[%d,%d] spec=[%d,%d]", lim.field, lo, hi, lim.lo, lim.hi))
		if within && (lo > lim.lo || hi < lim.hi) && !control {
			r.info("R1.2", id, fmt.Sprintf("constructor is stricter than the specification: %s in [%d,%d], specification [%d,%d]", lim.field, lo, hi, lim.lo, lim.hi), pos)
		}
		if lim.rel != "" {
			pv, _, ok := findField(er.an.u, er.recv, er.tn, lim.payload, 0)
			ps, isS := pv.(ASlice)
			if ok && isS {
				var okRel bool
				switch lim.rel {
				case "x2":
					okRel = er.rst.entails(atomEQ(ps.ln, q.scale(2)))
				case "ceil8":
					okRel = er.rst.entails(atomGE(ps.ln.scale(8), q)) && er.rst.entails(atomLE(ps.ln.scale(8), q.addc(7)))
				}
				rep("R1.2", okRel, fmt.Sprintf("len(%s) is tied to %s as the specification says (%s)", lim.payload, lim.field, lim.rel), "", "payload-rel:"+lim.field)
			}
		}
	}
	// R1.3 frame size
	max := int64(maxRTUADU)
	if tcp {
		max = maxTCPADU
	}
	_, lhi := er.rst.bounds(L)
	rep("R1.3", lhi <= max, fmt.Sprintf("frame length is at most %d (limit %d)", lhi, max), fmt.Sprintf("frame can be %d bytes long, limit %d", lhi, max), fmt.Sprintf("size:%d>%d", lhi, max))
	// R1.W
	seen := map[string]bool{}
	for _, w := range er.an.wraps {
		k := w.what + w.pos
		if seen[k] {
			continue
		}
		seen[k] = true
		rep("R1.W", false, fmt.Sprintf("narrow-typed arithmetic %s may wrap (%s)", w.what, w.use), "at "+w.pos, "wrap:"+w.what)
	}
	if len(er.an.wraps) == 0 {
		rep("R1.W", true, "no narrow-typed arithmetic of constructor or encoder can wrap", "", "")
	}
	return fired
}

func init() {
	controls["C01"] = func(c *Ctx, r *Report) {
		run := func(tn string) map[string]bool {
			er := runEncoder(c, "c01", c.fnMust("c01", tn+".Bytes"), nil)
			if !er.okay {
				return map[string]bool{"notok": true}
			}
			return c01Encoder(c, r, er, tn, true, true)
		}
		has := func(m map[string]bool, prefix string) bool {
			for k := range m {
				if len(k) >= len(prefix) && k[:len(prefix)] == prefix {
					return true
				}
			}
			return false
		}
		good := run("GoodTCP")
		if len(good) != 0 {
			r.controls["C01/negative-control-silent"] = false
		}
		r.controls["C01/R1.1-swapped-fields"] = has(run("SwappedTCP"), "R1.1:layout")
		r.controls["C01/R1.1-length-field"] = has(run("LenPlusOneTCP"), "R1.1:layout")
		r.controls["C01/R1.1-gap"] = has(run("GapTCP"), "R1.1:tiling")
		r.controls["C01/R1.2-loose-limit"] = has(run("LooseLimitTCP"), "R1.2:limit")
		r.controls["C01/R1.4-bit-position"] = has(c01Packing(c, nil, c.fnMust("c01", "PackMod7")), "bit=")
	}
}

// c01ConstProtocol: R1.5 — the request types export their fields, so a caller can change them
// after construction; the protocol identifier on the wire must not depend on that: for a fully
// symbolic receiver (no constructor premise) every write that covers bytes 2..3 of a TCP frame
// stores the constant 0.
func c01ConstProtocol(c *Ctx, r *Report, rule string, m *ssa.Function) {
	id := fnID(m)
	pos := c.pos(m.Pos())
	tn := m.Signature.Recv().Type().(*types.Named)
	an := &Analysis{ctx: c, u: newUniverse(), top: m}
	recv := an.u.symbolic("r", tn)
	fr := runMethod(an, m, recv, dnfTrue())
	if len(fr.returns) != 1 {
		r.undecided(rule, id, "encoder does not have exactly one return", pos)
		return
	}
	res, ok := fr.returns[0].vals[0].(ASlice)
	if !ok || res.root == nil || !res.root.fresh {
		r.undecided(rule, id, "encoder does not return a buffer it allocated", pos)
		return
	}
	covered := 0
	bad := ""
	for _, w := range res.root.writes {
		if !w.off.isConst() || !w.width.isConst() {
			continue
		}
		lo, hi := w.off.c, w.off.c+w.width.c
		if hi <= 2 || lo >= 4 {
			continue
		}
		v, isI := w.val.(AInt)
		if lo == 2 && hi == 4 && isI && v.a.isConst() && v.a.c == 0 && len(v.conds) == 0 {
			covered++
			continue
		}
		bad = fmt.Sprintf("write at %s stores %s into bytes %d..%d", w.pos, describeAV(w.val), lo, hi-1)
	}
	// the transaction id on the wire is the struct's transaction id for any struct contents (a
	// parsed request is re-encoded with the id it carried, including 0)
	if tv, _, okF := findField(an.u, recv, tn, "TransactionID", 0); okF {
		if want, isI := tv.(AInt); isI {
			okT := false
			why := "no write covers bytes 0..1"
			for _, w := range res.root.writes {
				if !w.off.isConst() || !w.width.isConst() || w.off.c+w.width.c <= 0 || w.off.c >= 2 {
					continue
				}
				v, isV := w.val.(AInt)
				if w.off.c == 0 && w.width.c == 2 && w.kind == wBEn && isV && len(v.conds) == 0 && v.a.equal(want.a) {
					okT = true
				} else {
					why = fmt.Sprintf("write at %s stores %s into bytes 0..1", w.pos, describeAV(w.val))
					okT = false
					break
				}
			}
			if okT {
				r.ok(rule, id, "transaction id bytes 0..1 are the struct's TransactionID, big-endian, for any struct contents", pos, true)
			} else {
				r.fail(rule, id, "the transaction id on the wire is not always the struct's TransactionID", pos, why, "transaction-id-not-field")
			}
		}
	}
	if bad == "" && covered > 0 {
		r.ok(rule, id, "protocol identifier bytes 2..3 are the constant 0 whatever the struct's (exported) fields hold", pos, true)
	} else {
		if bad == "" {
			bad = "no write covers bytes 2..3"
		}
		r.fail(rule, id, "the protocol identifier on the wire depends on the struct contents (or is not written as 0)", pos, bad, "protocol-id-not-constant")
	}
}
