package main

// C12 — over RTU, a bad-CRC reply is never surfaced as data or as a device exception
// (DESIGN §3 C12).

import (
	"fmt"
	"go/types"
	"sort"
	"strings"

	"golang.org/x/tools/go/ssa"
)

func init() {
	register("C12", checkC12, "R12.1: every store to the parseResponseFunc / asProtocolErrorFunc fields of Client and SerialClient in the module is enumerated (type-resolved FieldAddr stores); the only writers are the constructors, and for each constructor that installs an RTU-family parser (one that can reach an RTU response parser) the values held by both fields when it returns are static functions. R12.2: both installed functions are CRC-guarded: with CRC16 uninterpreted, every return that can carry reply content (a non-nil response or a non-nil error) is reached only under little-endian(data[len-2:]) == CRC16(data[:len-2]) on the function's own parameter, and inner parsers are only called under that equality. R12.3: in do() every *ClientError cause is a constant-content error, a transport error or the recogniser's result, and the only success value is what parseResponseFunc returns, so nothing else can carry reply content to the caller. User-supplied functions (NewClient with a custom config) are outside the property. R12.4 the recogniser is applied to received[0:total], not to a single chunk. R12.5 Do hands do()'s result to parseResponseFunc unchanged (no trimming before the CRC check). R12.6 = C03 R3.4 (checksum constants / table). R12.7 wherever Do consults the recogniser outside the read loop, its argument is the whole received frame (do()'s result). R12.8 = shared-state rule from both clients' Do and CRC16 (the verdict on a reply depends on the reply alone). R12.9 = C07 R7.2 chunk accounting (every byte a Read delivered is counted and received[0:total] is what gets verified).")
}

type fieldStore struct {
	fn    *ssa.Function
	field int
	val   ssa.Value
	pos   string
	instr *ssa.Store
}

// storesToFields enumerates stores to the given fields of named type tn in package pkgRel.
func storesToFields(c *Ctx, pkgRel string, tn *types.Named, fields map[int]bool) []fieldStore {
	var out []fieldStore
	for _, fn := range c.allFuncs(pkgRel) {
		for _, b := range fn.Blocks {
			for _, in := range b.Instrs {
				st, ok := in.(*ssa.Store)
				if !ok {
					continue
				}
				fa, ok := st.Addr.(*ssa.FieldAddr)
				if !ok || !fields[fa.Field] {
					continue
				}
				if !types.Identical(deref(fa.X.Type()), tn) {
					continue
				}
				out = append(out, fieldStore{fn: fn, field: fa.Field, val: st.Val, pos: c.pos(st.Pos()), instr: st})
			}
		}
	}
	sort.Slice(out, func(i, j int) bool { return out[i].pos < out[j].pos })
	return out
}

// reachesRTUParser: fn can (transitively, statically) call an RTU response parser.
func reachesRTUParser(c *Ctx, fn *ssa.Function) bool {
	rtu := map[*ssa.Function]bool{}
	for _, pi := range packetParsers(c, "packet", false) {
		if !pi.tcp {
			rtu[pi.fn] = true
		}
	}
	seen := map[*ssa.Function]bool{}
	var walk func(f *ssa.Function) bool
	walk = func(f *ssa.Function) bool {
		if f == nil || seen[f] || f.Blocks == nil {
			return false
		}
		seen[f] = true
		if rtu[f] {
			return true
		}
		for _, b := range f.Blocks {
			for _, in := range b.Instrs {
				if ci, ok := in.(ssa.CallInstruction); ok {
					if walk(ci.Common().StaticCallee()) {
						return true
					}
				}
				// a parser handed on as a function value (to a shared checking helper) is reached too
				for _, op := range in.Operands(nil) {
					if op == nil || *op == nil {
						continue
					}
					if fv, ok := (*op).(*ssa.Function); ok && walk(fv) {
						return true
					}
				}
			}
		}
		return false
	}
	return walk(fn)
}

func checkC12(c *Ctx, r *Report) {
	r.floor("R12.1", 6) // stores to the two fields: at least three writers (the pinned tree has 10 store sites; helpers shared by constructors reduce the count)
	r.floor("R12.2", 2)
	r.floor("R12.3", 2)
	crc := c.fnMust("packet", "CRC16")
	// R12.9: what is CRC-checked is what was received: the read loop counts every byte a Read
	// delivered (also one that came together with a tolerated error) and hands on received[0:total]
	// (C07 R7.2); bytes dropped from the middle can turn a corrupted stream into a frame that verifies
	clientLoopItems(c, r, "R7.2", "R12.9", "advances by exactly the count")
	clientLoopItems(c, r, "R7.2", "R12.9", "the frame handed on is a copy of received[0:total]")
	r.floor("R12.9", 4)
	// R12.8: the verdict on a reply depends on the reply alone: nothing on the request path of either
	// client keeps package-level state (a checksum table filled lazily would be shared by all clients)
	sharedStateRule(c, r, "R12.8", "modbus client request path", "the request path of both clients (send, read loop, CRC verification, parsing)",
		[]*ssa.Function{c.fnMust("", "*Client.Do"), c.fnMust("", "*SerialClient.Do"), crc})
	r.floor("R12.8", 25)
	guardedFns := map[*ssa.Function]string{}
	for _, spec := range []struct {
		name   string
		serial bool
	}{{"Client", false}, {"SerialClient", true}} {
		ci := analyseClient(c, spec.name, spec.serial)
		fields := map[int]bool{ci.asErr: true, ci.parse: true}
		stores := storesToFields(c, "", ci.tn, fields)
		writers := map[*ssa.Function]bool{}
		for _, st := range stores {
			r.instance("R12.1", 1)
			writers[st.fn] = true
		}
		// constructors: functions of the package returning *T
		var ctors []*ssa.Function
		for _, fn := range c.allFuncs("") {
			if fn.Signature.Recv() != nil || fn.Signature.Results().Len() != 1 || fn.Parent() != nil {
				continue
			}
			if p, ok := fn.Signature.Results().At(0).Type().(*types.Pointer); ok && types.Identical(p.Elem(), ci.tn) {
				ctors = append(ctors, fn)
			}
		}
		isCtor := map[*ssa.Function]bool{}
		for _, f := range ctors {
			isCtor[f] = true
		}
		for w := range writers {
			id := fnID(w)
			r.funcs[id] = true
			isOption := false
			if w.Parent() != nil && w.Signature.Recv() == nil && w.Signature.Params().Len() == 1 && w.Signature.Results().Len() == 0 {
				if pt, ok := w.Signature.Params().At(0).Type().(*types.Pointer); ok && types.Identical(pt.Elem(), ci.tn) {
					isOption = true // an option closure func(*T): it installs what its caller passed in
					for _, st := range stores {
						if st.fn != w {
							continue
						}
						v := st.val
						if u, ok := v.(*ssa.UnOp); ok {
							v = u.X
						}
						if _, fromCaller := v.(*ssa.FreeVar); !fromCaller {
							isOption = false // installs something of its own choosing: treated like any other writer
						}
					}
				}
			}
			if isCtor[w] {
				r.ok("R12.1", id, "writes the response-function fields as a constructor of "+spec.name, c.pos(w.Pos()), true)
			} else if isOption {
				r.info("R12.1", id, "an option function lets the caller install its own response function (user-supplied functions are outside the property)", c.pos(w.Pos()))
			} else {
				r.fail("R12.1", id, "a function that is not a constructor of "+spec.name+" stores to parseResponseFunc/asProtocolErrorFunc", c.pos(w.Pos()), "", "non-constructor-writer")
			}
		}
		for _, ctor := range ctors {
			id := fnID(ctor)
			an := &Analysis{ctx: c, u: newUniverse(), top: ctor}
			fr := an.newFrame(ctor, nil, nil)
			fr.run(dnfTrue())
			for _, rs := range fr.returns {
				var obj *Obj
				switch v := rs.vals[0].(type) {
				case APtr:
					obj = v.obj
				case ARef:
					if p, ok := v.inner.(APtr); ok {
						obj = p.obj
					}
				}
				if obj == nil {
					r.undecided("R12.1", id, "constructor result is not a tracked object", c.pos(rs.instr.Pos()))
					continue
				}
				// the object is handed to option functions, but the two fields are unexported and the
				// store enumeration above shows that only constructors write them: reading them after
				// the options loop is sound
				obj.escaped = false
				pv := fr.loadPath(obj, pathStr("", ci.parse), ci.st.Field(ci.parse).Type(), rs.instr)
				ev := fr.loadPath(obj, pathStr("", ci.asErr), ci.st.Field(ci.asErr).Type(), rs.instr)
				pf, pStatic := pv.(AFunc)
				ef, eStatic := ev.(AFunc)
				rtuFamily := pStatic && reachesRTUParser(c, pf.fn)
				if !pStatic {
					// may hold a user-supplied function (NewClient): outside the property unless the
					// constructor's name-independent behaviour installs RTU parsers on other paths
					r.info("R12.1", id, "parseResponseFunc may be user-supplied when this constructor returns (outside the property)", c.pos(rs.instr.Pos()))
					continue
				}
				if !rtuFamily {
					r.info("R12.1", id, "installs a TCP parser ("+pf.fn.Name()+")", c.pos(rs.instr.Pos()))
					continue
				}
				r.instance("R12.2", 1)
				r.funcs[id] = true
				if eStatic {
					r.ok("R12.1", id, fmt.Sprintf("RTU constructor leaves static functions in both fields: %s / %s", pf.fn.Name(), ef.fn.Name()), c.pos(rs.instr.Pos()), true)
					guardedFns[pf.fn] = "parse"
					guardedFns[ef.fn] = "recognise"
				} else {
					r.fail("R12.1", id, "RTU constructor can return with a non-static (possibly TCP or user) recogniser in asProtocolErrorFunc", c.pos(rs.instr.Pos()), describeAV(ev), "recogniser-not-static")
					guardedFns[pf.fn] = "parse"
				}
			}
		}
		// ---- R12.3 ----
		r.instance("R12.3", 1)
		c12Sources(c, r, ci)
	}
	// ---- R12.2 ----
	var fns []*ssa.Function
	for f := range guardedFns {
		fns = append(fns, f)
	}
	sort.Slice(fns, func(i, j int) bool { return fns[i].String() < fns[j].String() })
	for _, f := range fns {
		r.funcs[fnID(f)] = true
		tmp := newReport(r.Prop, r.Tier)
		c03Verifier(c, tmp, f, crc, false)
		for _, it := range tmp.items {
			it.Rule = "R12.2"
			it.What = "(" + guardedFns[f] + " function installed by the RTU clients) " + it.What
			r.add(it)
		}
	}
	// R12.4: CRC-guardedness of the recogniser is about its argument: the clients must hand it
	// exactly the bytes received so far, not a prefix or a single chunk
	clientLoopItems(c, r, "R7.3", "R12.4", "the recogniser sees received[0:total]")
	// R12.5: the CRC-verifying parser is given exactly what was received: Do hands do()'s result
	// to parseResponseFunc unchanged (no trimming or re-slicing in between) (C19 R19.3)
	for _, spec := range []struct {
		name   string
		serial bool
	}{{"Client", false}, {"SerialClient", true}} {
		ci := analyseClient(c, spec.name, spec.serial)
		tmp := newReport(r.Prop, r.Tier)
		c19Client(c, tmp, ci, false)
		r.instance("R12.5", copyItems(tmp, r, "R19.3", "R12.5", "the parsed frame is do()'s result"))
	}
	r.floor("R12.5", 2)
	// R12.7: the recogniser's verdict is only CRC-guarded for the bytes it is shown: wherever the
	// clients consult it outside the read loop (in Do), it must be shown the whole received frame
	for _, spec := range []struct {
		name   string
		serial bool
	}{{"Client", false}, {"SerialClient", true}} {
		ci := analyseClient(c, spec.name, spec.serial)
		r.instance("R12.7", 1)
		if ci.problem != "" {
			r.undecided("R12.7", fnID(ci.Do), ci.problem, c.pos(ci.Do.Pos()))
			continue
		}
		var doRes AV
		for _, cr := range ci.an.calls {
			if ci.inTop(cr) && cr.callee == ci.do {
				if t, ok := cr.res.(ATuple); ok && len(t) == 2 {
					doRes = t[0]
				}
			}
		}
		extra := ci.dynCalls(ci.top, ci.asErr)
		okAll := true
		for _, cr := range extra {
			if doRes == nil || len(cr.args) != 1 || describeAV(cr.args[0]) != describeAV(doRes) {
				okAll = false
				r.fail("R12.7", fnID(ci.Do), "Do consults the exception recogniser on something other than the whole received frame (a prefix of a corrupted reply can pass the recogniser's own CRC test)", posOfCall(c, cr), describeAV(cr.args[0]), "recogniser-on-part")
			}
		}
		if okAll {
			r.ok("R12.7", fnID(ci.Do), fmt.Sprintf("outside the read loop the recogniser is consulted %d time(s), always on the whole received frame", len(extra)), c.pos(ci.Do.Pos()), true)
		}
	}
	r.floor("R12.7", 2)
	// R12.6: the guard is only as good as the checksum: its constants (initial value, reflected
	// polynomial or the lookup table derived from it) are the specification's (C03 R3.4)
	{
		tmp := newReport(r.Prop, r.Tier)
		c03Constants(c, tmp, crc)
		r.instance("R12.6", copyItems(tmp, r, "R3.4", "R12.6"))
		r.floor("R12.6", 1)
	}
	r.assumption("CRC16 is uninterpreted; a reply whose trailer differs from CRC16 of its body fails the equality on every path")
	r.assumption("functions supplied by the user through ClientConfig are outside the property")
}

// c12Sources: R12.3 — what can flow to the caller out of do().
func c12Sources(c *Ctx, r *Report, ci *clientInfo) {
	id := fnID(ci.do)
	if ci.problem != "" {
		r.undecided("R12.3", id, ci.problem, c.pos(ci.do.Pos()))
		return
	}
	frames := []*Frame{ci.inner}
	visited := map[*Frame]bool{ci.inner: true}
	for fi := 0; fi < len(frames); fi++ {
		fr := frames[fi]
		for _, rs := range fr.returns {
			if len(rs.state) == 0 {
				continue
			}
			pos := c.pos(rs.instr.Pos())
			nres := len(rs.vals)
			cls := ci.errorClass(fr, rs.vals[nres-1])
			if strings.HasPrefix(cls, "call:") && cls != "call:flush" {
				// forwarded from an inlined helper of the client: its returns are examined in turn
				if ch := ci.childOfCall(rs.vals[nres-1]); ch != nil && ch.fn.Pkg == ci.do.Pkg {
					if !visited[ch] {
						visited[ch] = true
						frames = append(frames, ch)
					}
					continue
				}
			}
			switch {
			case cls == "nil":
				continue
			case cls == "ClientError":
				ifc := rs.vals[nres-1].(AIface)
				p := ifc.val.(APtr)
				cause := fr.loadPath(p.obj, ".0", types.Universe.Lookup("error").Type(), rs.instr)
				cc := ci.errorClass(fr, cause)
				ok := cc == "errors.New" || cc == "asProtocolErrorFunc" || strings.HasPrefix(cc, "raw-transport:") || cc == "raw-invoke:Flush" || cc == "call:flush"
				if ok {
					r.ok("R12.3", id, "*ClientError cause is of class "+cc+" (constant, transport or recogniser result)", pos, true)
				} else {
					r.fail("R12.3", id, "*ClientError can wrap a value of unexpected origin", pos, cc, "cause:"+cc)
				}
			case strings.HasPrefix(cls, "ClientError("), cls == "ctx.Err":
				r.ok("R12.3", id, "returns the constant-content error "+cls, pos, true)
			default:
				r.fail("R12.3", id, "do() can return an error of unexpected origin", pos, cls, "class:"+cls)
			}
		}
	}
	// Do: the only non-nil response is parseResponseFunc's result
	tops := []*Frame{ci.top}
	seenTop := map[*Frame]bool{ci.top: true}
	for ti := 0; ti < len(tops); ti++ {
		tf := tops[ti]
		for _, rs := range tf.returns {
			if len(rs.state) == 0 {
				continue
			}
			vn := tf.nilOrNilPtr(rs.vals[0])
			if vn.kind == fConst && vn.b {
				continue
			}
			// a response forwarded from a helper Do delegates to: examined at the helper's returns
			if ch := ci.childOfCall(rs.vals[0]); ch != nil && ch.fn.Pkg == ci.Do.Pkg && ch != ci.inner && ch.within(ci.top) {
				if !seenTop[ch] {
					seenTop[ch] = true
					tops = append(tops, ch)
				}
				continue
			}
			ok := false
			if ref, isR := rs.vals[0].(ARef); isR {
				for _, cr := range ci.dynCalls(ci.top, ci.parse) {
					if t, isT := cr.res.(ATuple); isT && len(t) == 2 {
						if r0, isR0 := t[0].(ARef); isR0 && r0.key == ref.key {
							ok = true
						}
					}
				}
			}
			if ok {
				r.ok("R12.3", fnID(ci.Do), "the only response value Do can return is parseResponseFunc's result", c.pos(rs.instr.Pos()), true)
			} else {
				r.fail("R12.3", fnID(ci.Do), "Do can return a response that did not come from parseResponseFunc", c.pos(rs.instr.Pos()), describeAV(rs.vals[0]), "response-origin")
			}
		}
	}
}
