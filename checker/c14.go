package main

// C14 — one client instance can be shared by goroutines without interleaving or races
// (DESIGN §3 C14). Lock-set analysis of sync.RWMutex discipline.

import (
	"fmt"
	"go/types"
	"sort"
	"strings"

	"golang.org/x/tools/go/ssa"
)

func init() {
	register("C14", checkC14, "Must-hold lock-set dataflow per function on the client's own sync.RWMutex field (Lock -> exclusive, RLock -> shared, Unlock/RUnlock -> none, deferred unlocks keep the lock to function exit), with requires-lock summaries for unexported methods propagated to all call sites. R14.1 field partition: a field is init-only if every store to it goes through a pointer that is fresh in the storing function (allocated there, or returned by a function that returns its own fresh allocation) or through the parameter of a function of the constructor's option type; otherwise it is guarded. R14.2 every read of a guarded field holds the mutex (shared or exclusive), every write of one and every Read/Write/Close/Set*Deadline/Flush on the transport value holds it exclusively, and lock-relying unexported methods are only called with it held. R14.3 in Do the lock taken at entry is released only by the deferred unlock, and the transport write, all reads and the parse lie inside that critical section (no unlock anywhere in the functions Do reaches). R14.4 Close tests the transport for nil under the lock before using it. By the semantics of sync.RWMutex this excludes interleaved frames, cross-delivered replies and data races on the client's own state for every schedule. Not decided: fairness; the transport's own thread safety. R14.5 do() returns a fresh copy of a call-local receive buffer (replies of different calls never share memory). R14.6 no return of a function that takes the mutex leaves it held without a deferred unlock registered on all paths (may-analysis). R14.7 no function stores to a field of an existing ClientError: the package-level sentinel errors Do returns are shared by all goroutines. R14.8 = shared-state rule from every exported method of both clients (package-level state is not protected by the client's mutex). R14.9 = C07 R7.1 restricted to expectations that are too short (bytes left unread shift the stream for the next caller); deviations pinned by the suite are known findings, too-long expectations observations. R14.10 = C08 R8.1 timer clause: the total-timeout channel a call selects on is created by time.After inside that call, before its loop (a timer kept in the client and re-armed per request can deliver one caller's stale tick to the next caller).")
}

type lockState int

const (
	lkNone lockState = iota
	lkShared
	lkExcl
)

func (l lockState) String() string { return [...]string{"none", "shared", "exclusive"}[l] }

func minLock(a, b lockState) lockState {
	if a < b {
		return a
	}
	return b
}

type fieldAccess struct {
	fn    *ssa.Function
	field int
	write bool
	lock  lockState
	pos   string
	fresh bool // base pointer is fresh in fn (configuration time)
}

type transportCall struct {
	fn     *ssa.Function
	method string
	lock   lockState
	pos    string
}

type lockInfo struct {
	tn        *types.Named
	st        *types.Struct
	mutex     int
	transport int
	fns       []*ssa.Function
	accesses  []fieldAccess
	tcalls    []transportCall
	// lockAtCall: lock state at each static call site of a method of the type
	callSites map[*ssa.Function][]struct {
		caller *ssa.Function
		lock   lockState
		pos    string
	}
	entryLock map[*ssa.Function]lockState
	unlocks   map[*ssa.Function][]string // non-deferred unlock positions
	deferred  map[*ssa.Function]int
	leaks     map[*ssa.Function][]string // returns reachable with a lock taken here still held
	lockers   map[*ssa.Function]bool     // functions that take the lock themselves
}

// isMutexOp recognises (*sync.RWMutex).Lock etc. on the client's mutex field.
func (li *lockInfo) mutexOp(cm *ssa.CallCommon) (string, bool) {
	callee := cm.StaticCallee()
	if callee == nil || callee.Pkg == nil || callee.Pkg.Pkg.Path() != "sync" {
		return "", false
	}
	if len(cm.Args) == 0 {
		return "", false
	}
	fa, ok := cm.Args[0].(*ssa.FieldAddr)
	if !ok || fa.Field != li.mutex || !types.Identical(deref(fa.X.Type()), li.tn) {
		return "", false
	}
	return callee.Name(), true
}

func freshBase(v ssa.Value, fresh map[*ssa.Function]bool) bool {
	switch x := v.(type) {
	case *ssa.Alloc:
		return true
	case *ssa.Call:
		if c := x.Common().StaticCallee(); c != nil && fresh[c] {
			return true
		}
	case *ssa.Phi:
		for _, e := range x.Edges {
			if !freshBase(e, fresh) {
				return false
			}
		}
		return true
	}
	return false
}

// returnsFresh: the function returns a pointer it allocated itself (or got from such a function).
func returnsFresh(fn *ssa.Function, tn *types.Named, memo map[*ssa.Function]bool, depth int) bool {
	if v, ok := memo[fn]; ok {
		return v
	}
	memo[fn] = false
	if fn.Blocks == nil || depth > 4 || fn.Signature.Results().Len() == 0 {
		return false
	}
	p, ok := fn.Signature.Results().At(0).Type().(*types.Pointer)
	if !ok || !types.Identical(p.Elem(), tn) {
		return false
	}
	okAll := true
	for _, b := range fn.Blocks {
		for _, in := range b.Instrs {
			if ret, ok := in.(*ssa.Return); ok {
				switch x := ret.Results[0].(type) {
				case *ssa.Alloc:
				case *ssa.Call:
					c := x.Common().StaticCallee()
					if c == nil || !returnsFresh(c, tn, memo, depth+1) {
						okAll = false
					}
				default:
					okAll = false
				}
			}
		}
	}
	memo[fn] = okAll
	return okAll
}

func analyseLocks(c *Ctx, pkgRel, typeName string) *lockInfo {
	sp := c.pkg(pkgRel)
	tn := sp.Type(typeName).Type().(*types.Named)
	st := tn.Underlying().(*types.Struct)
	li := &lockInfo{tn: tn, st: st, mutex: -1, transport: -1, callSites: map[*ssa.Function][]struct {
		caller *ssa.Function
		lock   lockState
		pos    string
	}{}, entryLock: map[*ssa.Function]lockState{}, unlocks: map[*ssa.Function][]string{}, deferred: map[*ssa.Function]int{},
		leaks: map[*ssa.Function][]string{}, lockers: map[*ssa.Function]bool{}}
	for i := 0; i < st.NumFields(); i++ {
		ft := st.Field(i).Type()
		if n, ok := ft.(*types.Named); ok && n.Obj().Pkg() != nil && n.Obj().Pkg().Path() == "sync" && strings.HasSuffix(n.Obj().Name(), "Mutex") {
			li.mutex = i
		}
		if _, ok := ft.Underlying().(*types.Interface); ok && hasMethods(ft, "Read", "Write") {
			li.transport = i
		}
	}
	if li.mutex < 0 {
		fatal("unresolved anchor: %s has no mutex field", typeName)
	}
	memo := map[*ssa.Function]bool{}
	fresh := map[*ssa.Function]bool{}
	for _, fn := range c.allFuncs(pkgRel) {
		if returnsFresh(fn, tn, memo, 0) {
			fresh[fn] = true
		}
	}
	// option-type functions: func(*T) with a single parameter and no result, declared as a named func type
	isOptionFn := func(fn *ssa.Function) bool {
		sig := fn.Signature
		if sig.Recv() != nil || sig.Params().Len() != 1 || sig.Results().Len() != 0 {
			return false
		}
		p, ok := sig.Params().At(0).Type().(*types.Pointer)
		return ok && types.Identical(p.Elem(), tn) && fn.Parent() != nil
	}
	// an option can also be written as a method of a small value type whose method value has the
	// option type: unexported method, receiver is not the client, one parameter *T, no result
	isOptionMethod := func(fn *ssa.Function) bool {
		sig := fn.Signature
		if sig.Recv() == nil || fn.Object() == nil || fn.Object().Exported() || sig.Params().Len() != 1 || sig.Results().Len() != 0 {
			return false
		}
		if types.Identical(deref(sig.Recv().Type()), tn) {
			return false
		}
		p, ok := sig.Params().At(0).Type().(*types.Pointer)
		return ok && types.Identical(p.Elem(), tn)
	}
	for _, fn := range c.allFuncs(pkgRel) {
		touches := false
		for _, b := range fn.Blocks {
			for _, in := range b.Instrs {
				if fa, ok := in.(*ssa.FieldAddr); ok && types.Identical(deref(fa.X.Type()), tn) {
					touches = true
				}
			}
		}
		if !touches {
			continue
		}
		li.fns = append(li.fns, fn)
	}
	sort.Slice(li.fns, func(i, j int) bool { return li.fns[i].String() < li.fns[j].String() })
	// first pass with entry lock none; then raise entry locks of unexported methods to the
	// minimum over their call sites and repeat
	for iter := 0; iter < 8; iter++ {
		li.accesses, li.tcalls = nil, nil
		for k := range li.callSites {
			delete(li.callSites, k)
		}
		for _, fn := range li.fns {
			li.scan(c, fn, fresh, isOptionFn(fn) || isOptionMethod(fn))
		}
		changed := false
		for _, fn := range li.fns {
			if fn.Object() == nil || fn.Object().Exported() || fn.Signature.Recv() == nil {
				continue
			}
			sites := li.callSites[fn]
			if len(sites) == 0 {
				continue
			}
			m := lkExcl
			for _, s := range sites {
				m = minLock(m, s.lock)
			}
			if li.entryLock[fn] != m {
				li.entryLock[fn] = m
				changed = true
			}
		}
		if !changed {
			break
		}
	}
	return li
}

// scan runs the lock-set dataflow over fn and records field accesses, transport calls and
// method call sites with the lock state in force.
func (li *lockInfo) scan(c *Ctx, fn *ssa.Function, fresh map[*ssa.Function]bool, optionFn bool) {
	in := map[*ssa.BasicBlock]lockState{}
	order := rpo(fn)
	if len(order) == 0 {
		return
	}
	entry := li.entryLock[fn]
	for _, b := range order {
		in[b] = lkExcl + 1 // top
	}
	in[order[0]] = entry
	li.unlocks[fn] = nil
	li.deferred[fn] = 0
	for iter := 0; iter < 4; iter++ {
		for _, b := range order {
			st := in[b]
			if st > lkExcl {
				continue
			}
			for _, instr := range b.Instrs {
				switch x := instr.(type) {
				case *ssa.Call:
					if op, ok := li.mutexOp(x.Common()); ok {
						switch op {
						case "Lock":
							st = lkExcl
						case "RLock":
							st = lkShared
						case "Unlock", "RUnlock":
							st = lkNone
						}
					}
				}
			}
			for _, s := range b.Succs {
				if in[s] > lkExcl {
					in[s] = st
				} else {
					in[s] = minLock(in[s], st)
				}
			}
		}
	}
	// may-analysis for lock leaks: can an exit be reached with a lock this function took still
	// held and no deferred unlock registered?
	{
		type leakState struct {
			held     bool // may hold a lock acquired in this function
			deferred bool // a deferred unlock is registered on every path
			seen     bool
		}
		li.leaks[fn] = nil
		ls := map[*ssa.BasicBlock]leakState{order[0]: {seen: true}}
		for iter := 0; iter < 6; iter++ {
			for _, b := range order {
				st := ls[b]
				if !st.seen {
					continue
				}
				for _, instr := range b.Instrs {
					switch x := instr.(type) {
					case *ssa.Defer:
						if op, ok := li.mutexOp(x.Common()); ok && (op == "Unlock" || op == "RUnlock") {
							st.deferred = true
						}
					case *ssa.Call:
						if op, ok := li.mutexOp(x.Common()); ok {
							switch op {
							case "Lock", "RLock":
								st.held = true
							case "Unlock", "RUnlock":
								st.held = false
							}
						}
					case *ssa.Return:
						if st.held && !st.deferred && iter == 5 {
							li.leaks[fn] = append(li.leaks[fn], c.pos(x.Pos()))
						}
					}
				}
				for _, sc := range b.Succs {
					o := ls[sc]
					if !o.seen {
						ls[sc] = leakState{held: st.held, deferred: st.deferred, seen: true}
					} else {
						ls[sc] = leakState{held: o.held || st.held, deferred: o.deferred && st.deferred, seen: true}
					}
				}
			}
		}
		li.lockers[fn] = false
		for _, b := range order {
			for _, instr := range b.Instrs {
				if call, ok := instr.(*ssa.Call); ok {
					if op, ok := li.mutexOp(call.Common()); ok && (op == "Lock" || op == "RLock") {
						li.lockers[fn] = true
					}
				}
			}
		}
	}
	for _, b := range order {
		st := in[b]
		if st > lkExcl {
			continue
		}
		for _, instr := range b.Instrs {
			pos := c.pos(instr.Pos())
			switch x := instr.(type) {
			case *ssa.Defer:
				if op, ok := li.mutexOp(x.Common()); ok && (op == "Unlock" || op == "RUnlock") {
					li.deferred[fn]++
				}
			case *ssa.Call:
				cm := x.Common()
				if op, ok := li.mutexOp(cm); ok {
					switch op {
					case "Lock":
						st = lkExcl
					case "RLock":
						st = lkShared
					case "Unlock", "RUnlock":
						st = lkNone
						li.unlocks[fn] = append(li.unlocks[fn], pos)
					}
					continue
				}
				// transport method call: invoke on a value loaded from the transport field
				if cm.IsInvoke() {
					if li.fromTransport(cm.Value) {
						li.tcalls = append(li.tcalls, transportCall{fn, cm.Method.Name(), st, pos})
					}
				}
				// type-asserted transport (Flusher): call on TypeAssert of the transport value
				if cm.IsInvoke() {
					if ta, ok := cm.Value.(*ssa.TypeAssert); ok && li.fromTransport(ta.X) {
						li.tcalls = append(li.tcalls, transportCall{fn, cm.Method.Name(), st, pos})
					}
				}
				// a transport method bound as a method value (read := c.conn.Read) and called later
				if mc, ok := cm.Value.(*ssa.MakeClosure); ok && len(mc.Bindings) == 1 {
					if wf, ok := mc.Fn.(*ssa.Function); ok && strings.HasPrefix(wf.Synthetic, "bound method wrapper") {
						bv := mc.Bindings[0]
						if ta, ok := bv.(*ssa.TypeAssert); ok {
							bv = ta.X
						}
						if inner := soleCall(wf); inner != nil && inner.Common().IsInvoke() && li.fromTransport(bv) {
							li.tcalls = append(li.tcalls, transportCall{fn, inner.Common().Method.Name(), st, pos})
						}
					}
				}
				callee := cm.StaticCallee()
				if callee != nil && strings.HasPrefix(callee.Synthetic, "thunk for") {
					// a method expression T.m(recv, ...) is a call of m
					if inner := soleCall(callee); inner != nil && inner.Common().StaticCallee() != nil {
						callee = inner.Common().StaticCallee()
					}
				}
				if callee != nil && callee.Signature.Recv() != nil {
					if types.Identical(deref(callee.Signature.Recv().Type()), li.tn) {
						li.callSites[callee] = append(li.callSites[callee], struct {
							caller *ssa.Function
							lock   lockState
							pos    string
						}{fn, st, pos})
					}
				}
			case *ssa.FieldAddr:
				if !types.Identical(deref(x.X.Type()), li.tn) || x.Field == li.mutex {
					continue
				}
				isFresh := freshBase(x.X, fresh) || (optionFn && x.X == ssa.Value(fn.Params[len(fn.Params)-1]))
				if fv, ok := x.X.(*ssa.FreeVar); ok {
					_ = fv
				}
				if refs := x.Referrers(); refs != nil {
					for _, rf := range *refs {
						switch u := rf.(type) {
						case *ssa.Store:
							if u.Addr == x {
								li.accesses = append(li.accesses, fieldAccess{fn, x.Field, true, st, pos, isFresh})
							}
						case *ssa.UnOp:
							li.accesses = append(li.accesses, fieldAccess{fn, x.Field, false, st, pos, isFresh})
						}
					}
				}
			}
		}
	}
}

func (li *lockInfo) fromTransport(v ssa.Value) bool {
	u, ok := v.(*ssa.UnOp)
	if !ok {
		return false
	}
	fa, ok := u.X.(*ssa.FieldAddr)
	return ok && li.transport >= 0 && fa.Field == li.transport && types.Identical(deref(fa.X.Type()), li.tn)
}

func checkC14(c *Ctx, r *Report) {
	r.floor("R14.2", 2)
	r.floor("R14.3", 2)
	for _, name := range []string{"Client", "SerialClient"} {
		li := analyseLocks(c, "", name)
		c14Type(c, r, li, name, false)
		lockLeakRule(c, r, li, "R14.6", name)
	}
	r.floor("R14.6", 4)
	// R14.9: each caller gets the reply to its own request only if the read loop consumes exactly one
	// reply per request: ExpectedResponseLength of every request type equals the length of the reply
	// the specification prescribes (C07 R7.1). One byte too few leaves a byte in the stream that the
	// next caller reads as the start of its reply; the deviations pinned by the test suite are the
	// same known findings as under C07.
	{
		crc := c.fnMust("packet", "CRC16")
		reqs := requestTypes(c, "packet")
		tmp := newReport(r.Prop, r.Tier)
		n := 0
		for _, m := range bytesMethods(c, "packet") {
			tn := m.Signature.Recv().Type().(*types.Named)
			if !reqs[tn] {
				continue
			}
			tcp := hasMBAP(tn)
			if !tcp && !callsDirect(m, crc) {
				continue
			}
			n++
			c07Expected(c, tmp, tn, tcp, false)
		}
		for _, it := range tmp.items {
			if it.Rule != "R7.1" {
				continue
			}
			it.Rule = "R14.9"
			if !it.OK && strings.Contains(it.Detail, "never-short") {
				// too long an expectation makes that caller time out (C07), but every byte of its reply
				// has been consumed: the next caller's stream is not shifted
				it.OK, it.Info = true, true
				it.What = "observation: " + it.What + " (expects too many bytes: this caller times out, later callers are unaffected)"
			}
			r.add(it)
		}
		r.instance("R14.9", n)
		r.floor("R14.9", 20)
	}
	// R14.10 = C08 R8.1 timer clause: the total-timeout channel a call waits on is made by this call
	// (one time.After before its loop). A timer kept in the client and re-armed per request carries a
	// stale tick from one caller's exchange into the next caller's, which then gives up on a reply
	// that is on its way and leaves it in the stream for the caller after it.
	{
		for _, spec := range []struct {
			name   string
			serial bool
		}{{"Client", false}, {"SerialClient", true}} {
			tmp := newReport(r.Prop, r.Tier)
			c08Client(c, tmp, analyseClient(c, spec.name, spec.serial), false)
			r.instance("R14.10", copyItems(tmp, r, "R8.1", "R14.10", "time.After", "timer"))
		}
		r.floor("R14.10", 2)
	}
	// R14.8: the client's mutex protects the client's own fields only; package-level state written
	// from any of its methods would be shared by all goroutines and all clients without that lock
	{
		var roots []*ssa.Function
		for _, name := range []string{"Client", "SerialClient"} {
			for _, m := range methodsOf(c, "", name) {
				if m.Object() != nil && m.Object().Exported() {
					roots = append(roots, m)
				}
			}
		}
		sharedStateRule(c, r, "R14.8", "modbus client methods", "the exported methods of both clients", roots)
		r.floor("R14.8", 30)
	}
	// R14.7: the errors Do hands out include pointers to package-level values (the not-connected and
	// too-long sentinels) that every goroutine shares: nothing may write to a ClientError after its
	// construction (a caching Error() would race outside the client's mutex)
	{
		if ce := c.pkg("").Type("ClientError"); ce != nil {
			tn := ce.Type().(*types.Named)
			st, _ := tn.Underlying().(*types.Struct)
			all := map[int]bool{}
			for i := 0; st != nil && i < st.NumFields(); i++ {
				all[i] = true
			}
			nbad := 0
			for _, fs := range storesToFields(c, "", tn, all) {
				fa := fs.instr.Addr.(*ssa.FieldAddr)
				if al, ok := fa.X.(*ssa.Alloc); ok && al.Parent() == fs.fn {
					continue // field of a value being constructed
				}
				nbad++
				r.fail("R14.7", fnID(fs.fn), "a ClientError is modified after construction; the shared sentinel errors returned by Do would be written by several goroutines", fs.pos, "", "error-value-mutated")
			}
			r.instance("R14.7", 1)
			if nbad == 0 {
				r.ok("R14.7", "modbus.ClientError", "no function stores to a field of an existing ClientError (the package-level sentinel errors stay immutable)", "-", true)
			}
		}
		r.floor("R14.7", 1)
	}
	// R14.5: what a caller receives must not alias memory the client reuses for the next call:
	// do() returns a fresh copy of a function-local receive buffer
	clientLoopItems(c, r, "R7.2", "R14.5", "the frame handed on is a copy of received[0:total]")
	for _, name := range []string{"Client", "SerialClient"} {
		ci := analyseClient(c, name, name == "SerialClient")
		local := ci.problem == "" && ci.recvBuf != nil && ci.recvBuf.fresh
		if local {
			r.ok("R14.5", fnID(ci.do), "the receive buffer is local to the call (not shared client state)", c.pos(ci.do.Pos()), true)
		} else {
			r.fail("R14.5", fnID(ci.do), "the receive buffer is not a local of do(): replies of different calls can share memory", c.pos(ci.do.Pos()), ci.problem, "shared-receive-buffer")
		}
	}
	r.assumption("sync.RWMutex semantics: exclusive sections are mutually exclusive with all others; the transport value's own methods need not be thread safe because they are only called under the exclusive lock")
	r.assumption("configuration-time writes (constructors, option functions) happen before the client is shared")
}

func c14Type(c *Ctx, r *Report, li *lockInfo, name string, control bool) map[string]bool {
	fired := map[string]bool{}
	rep := func(rule string, ok bool, construct, what, detail, sig, pos string) {
		if !ok {
			fired[rule+":"+sig] = true
		}
		if control {
			return
		}
		if ok {
			r.ok(rule, construct, what, pos, true)
		} else {
			r.fail(rule, construct, what, pos, detail, sig)
		}
	}
	for _, fn := range li.fns {
		if !control {
			r.funcs[fnID(fn)] = true
		}
	}
	// ---- R14.1 partition ----
	guarded := map[int]bool{}
	for _, a := range li.accesses {
		if a.write && !a.fresh {
			guarded[a.field] = true
		}
	}
	if !control {
		r.instance("R14.1", li.st.NumFields()-1)
		for i := 0; i < li.st.NumFields(); i++ {
			if i == li.mutex {
				continue
			}
			kind := "init-only (all writers hold a fresh pointer or are option functions)"
			if guarded[i] {
				kind = "guarded (written through the shared receiver)"
			}
			r.ok("R14.1", "modbus."+name+"."+li.st.Field(i).Name(), "field is "+kind, "-", true)
		}
	}
	// ---- R14.2 ----
	if !control {
		r.instance("R14.2", 1)
	}
	for _, a := range li.accesses {
		if !guarded[a.field] || a.fresh {
			continue
		}
		fname := li.st.Field(a.field).Name()
		if a.write {
			rep("R14.2", a.lock == lkExcl, fnID(a.fn), "write of guarded field "+fname+" holds the mutex exclusively", "lock state: "+a.lock.String(), "write-unlocked:"+fname, a.pos)
		} else {
			rep("R14.2", a.lock >= lkShared, fnID(a.fn), "read of guarded field "+fname+" holds the mutex", "lock state: "+a.lock.String(), "read-unlocked:"+fname, a.pos)
		}
	}
	for _, tc := range li.tcalls {
		rep("R14.2", tc.lock == lkExcl, fnID(tc.fn), "transport."+tc.method+" is called holding the mutex exclusively", "lock state: "+tc.lock.String(), "transport-call-lock:"+tc.method+":"+tc.lock.String(), tc.pos)
	}
	for fn, l := range li.entryLock {
		if l > lkNone {
			rep("R14.2", true, fnID(fn), fmt.Sprintf("unexported method relies on the caller's lock; all %d call sites hold it (%s)", len(li.callSites[fn]), l.String()), "", "", c.pos(fn.Pos()))
		}
	}
	// ---- R14.3 whole exchange ----
	if do := findMethod(li, "Do"); do != nil {
		if !control {
			r.instance("R14.3", 1)
		}
		id := fnID(do)
		// lock at entry: first mutex op in the entry block is Lock, before any field access
		firstLock := false
		for _, in := range do.Blocks[0].Instrs {
			if call, ok := in.(*ssa.Call); ok {
				if op, ok := li.mutexOp(call.Common()); ok {
					firstLock = op == "Lock"
					break
				}
			}
		}
		rep("R14.3", firstLock, id, "Do takes the exclusive lock first", "", "do-no-exclusive-lock", c.pos(do.Pos()))
		rep("R14.3", li.deferred[do] == 1 && len(li.unlocks[do]) == 0, id, "Do releases the lock only through its single deferred unlock", fmt.Sprintf("deferred=%d explicit=%v", li.deferred[do], li.unlocks[do]), "do-early-unlock", c.pos(do.Pos()))
		// no unlock in anything Do reaches
		seen := map[*ssa.Function]bool{}
		var walk func(fn *ssa.Function)
		clean := true
		walk = func(fn *ssa.Function) {
			if seen[fn] || fn == nil || fn.Blocks == nil {
				return
			}
			seen[fn] = true
			if fn != do && (len(li.unlocks[fn]) > 0 || li.deferred[fn] > 0) {
				clean = false
			}
			for _, b := range fn.Blocks {
				for _, in := range b.Instrs {
					if ci, ok := in.(ssa.CallInstruction); ok {
						if callee := ci.Common().StaticCallee(); callee != nil && c.inModule(callee) {
							walk(callee)
						}
					}
				}
			}
		}
		walk(do)
		rep("R14.3", clean, id, "no function reachable from Do unlocks the mutex, so write, reads and parse of one call form one critical section", "", "callee-unlocks", c.pos(do.Pos()))
	}
	// ---- R14.4 ----
	if cl := findMethod(li, "Close"); cl != nil {
		if !control {
			r.instance("R14.4", 1)
		}
		okc := false
		for _, a := range li.accesses {
			if a.fn == cl && a.field == li.transport && !a.write && a.lock == lkExcl {
				okc = true
			}
		}
		// nil test dominates the Close call
		nilTested := false
		for _, b := range cl.Blocks {
			if iff, ok := b.Instrs[len(b.Instrs)-1].(*ssa.If); ok {
				if cmp, ok := iff.Cond.(*ssa.BinOp); ok && (li.fromTransport(cmp.X) || li.fromTransport(cmp.Y)) {
					nilTested = true
				}
			}
		}
		// ... or the transport is handed to a helper of the module that tests that parameter for nil
		if !nilTested {
			for _, b := range cl.Blocks {
				for _, in := range b.Instrs {
					call, ok := in.(*ssa.Call)
					if !ok {
						continue
					}
					sc := call.Common().StaticCallee()
					if sc == nil || sc.Blocks == nil || !c.inModule(sc) {
						continue
					}
					for i, a := range call.Common().Args {
						if !li.fromTransport(a) || i >= len(sc.Params) {
							continue
						}
						fromParam := func(v ssa.Value) bool {
							for k := 0; k < 4; k++ {
								switch x := v.(type) {
								case *ssa.MakeInterface:
									v = x.X
									continue
								case *ssa.ChangeInterface:
									v = x.X
									continue
								case *ssa.ChangeType:
									v = x.X
									continue
								}
								break
							}
							return v == ssa.Value(sc.Params[i])
						}
						for _, hb := range sc.Blocks {
							if iff, ok := hb.Instrs[len(hb.Instrs)-1].(*ssa.If); ok {
								if cmp, ok := iff.Cond.(*ssa.BinOp); ok && (fromParam(cmp.X) && isNilConst(cmp.Y) || fromParam(cmp.Y) && isNilConst(cmp.X)) {
									nilTested = true
								}
							}
						}
					}
				}
			}
		}
		rep("R14.4", okc && nilTested, fnID(cl), "Close reads the transport under the exclusive lock and tests it for nil before use", "", "close-discipline", c.pos(cl.Pos()))
	}
	return fired
}

func findMethod(li *lockInfo, name string) *ssa.Function {
	for _, fn := range li.fns {
		if fn.Name() == name && fn.Signature.Recv() != nil {
			return fn
		}
	}
	return nil
}

// lockLeakRule: every function of the type that takes the mutex releases it on every path to
// every return (explicitly, or through a deferred unlock registered on all paths): otherwise
// the next call on the same value blocks forever.
func lockLeakRule(c *Ctx, r *Report, li *lockInfo, rule, typeName string) {
	var fns []*ssa.Function
	for fn, is := range li.lockers {
		if is {
			fns = append(fns, fn)
		}
	}
	sort.Slice(fns, func(i, j int) bool { return fns[i].String() < fns[j].String() })
	for _, fn := range fns {
		r.instance(rule, 1)
		id := fnID(fn)
		r.funcs[id] = true
		if len(li.leaks[fn]) == 0 {
			r.ok(rule, id, "every return is reached with the "+typeName+" mutex released or with a deferred unlock registered on all paths", c.pos(fn.Pos()), true)
		} else {
			seen := map[string]bool{}
			for _, p := range li.leaks[fn] {
				if seen[p] {
					continue
				}
				seen[p] = true
				r.fail(rule, id, "a return can be reached with the "+typeName+" mutex still held and no deferred unlock: every later call on this value blocks forever", p, "", "lock-leak")
			}
		}
	}
}
