package main

// Loading (DESIGN 1.1): go/packages LoadAllSyntax, SSA, call graph. Any load or type
// error is fatal (exit 2).

import (
	"bytes"
	"fmt"
	"go/ast"
	"go/printer"
	"go/token"
	"go/types"
	"os"
	"path/filepath"
	"sort"
	"strings"

	"golang.org/x/tools/go/callgraph"
	"golang.org/x/tools/go/callgraph/cha"
	"golang.org/x/tools/go/callgraph/vta"
	"golang.org/x/tools/go/packages"
	"golang.org/x/tools/go/ssa"
	"golang.org/x/tools/go/ssa/ssautil"
)

const modPath = "github.com/aldas/go-modbus-client"

type Ctx struct {
	loadProblems []string           // conditions under which no analysis may conclude
	assertInv    *[]assertInvariant // cached field invariants (cfg.go)
	repo         string
	modRoot      string // module path prefix considered "in module"
	fset         *token.FileSet
	pkgs         []*packages.Package
	prog         *ssa.Program
	spkgs        map[string]*ssa.Package
	byPath       map[string]*packages.Package
	cg           *callgraph.Graph
	files        map[*token.File]*ast.File

	globalStores map[*ssa.Global][2]int
	immutable    map[string]bool // (struct type, field) never written after construction (frame.go)
	mutGlobals   map[*ssa.Global]string
	constTables  map[*ssa.Global]*constTable
}

var repoRootForRel string

func relPath(p string) string {
	if repoRootForRel != "" {
		if r, err := filepath.Rel(repoRootForRel, p); err == nil && !strings.HasPrefix(r, "..") {
			return r
		}
	}
	return p
}

func fatal(format string, a ...interface{}) {
	fmt.Fprintf(os.Stderr, "mbcheck: fatal: "+format+"\n", a...)
	os.Exit(2)
}

func load(dir, mod string, minPkgs int) *Ctx {
	env := append(os.Environ(), "GOFLAGS=-mod=mod", "GOPROXY=off", "GOSUMDB=off", "GOWORK=off")
	cfg := &packages.Config{Mode: packages.LoadAllSyntax, Dir: dir, Env: env, Tests: false}
	pkgs, err := packages.Load(cfg, "./...")
	if err != nil {
		fatal("load %s: %v", dir, err)
	}
	nerr := 0
	packages.Visit(pkgs, nil, func(p *packages.Package) {
		for _, e := range p.Errors {
			fmt.Fprintf(os.Stderr, "load error: %v\n", e)
			nerr++
		}
	})
	if nerr > 0 {
		fatal("%d load/type errors in %s", nerr, dir)
	}
	if len(pkgs) < minPkgs {
		fatal("only %d packages loaded from %s (need >= %d)", len(pkgs), dir, minPkgs)
	}
	prog, spk := ssautil.AllPackages(pkgs, ssa.InstantiateGenerics)
	prog.Build()
	// an instantiation of a generic function belongs to the package of its origin (go/ssa leaves
	// Pkg nil for instances): the rules compare packages to tell module helpers from library code
	for fn := range ssautil.AllFunctions(prog) {
		if fn.Pkg == nil && fn.Origin() != nil && fn.Origin().Pkg != nil {
			fn.Pkg = fn.Origin().Pkg
		}
	}
	c := &Ctx{repo: dir, modRoot: mod, fset: prog.Fset, pkgs: pkgs, prog: prog, spkgs: map[string]*ssa.Package{},
		byPath: map[string]*packages.Package{}, files: map[*token.File]*ast.File{}}
	for i, p := range pkgs {
		c.byPath[p.PkgPath] = p
		if spk[i] != nil {
			c.spkgs[p.PkgPath] = spk[i]
		}
		for _, f := range p.Syntax {
			c.files[c.fset.File(f.Pos())] = f
		}
		// the effect/alias analyses assume no unsafe/reflect in the library packages
		if strings.HasPrefix(p.PkgPath, mod) && !strings.Contains(p.PkgPath, "/examples") {
			for imp := range p.Imports {
				if imp == "unsafe" || imp == "reflect" {
					// undecided must fail, but as a reported violation of every property (the analyses'
					// stated assumption no longer holds), not as a tool crash
					c.loadProblems = append(c.loadProblems, fmt.Sprintf("package %s imports %s: the alias/effect and value-flow analyses assume no unsafe/reflect in the library and cannot conclude", p.PkgPath, imp))
				}
			}
		}
	}
	return c
}

func (c *Ctx) callGraph() *callgraph.Graph {
	if c.cg == nil {
		c.cg = vta.CallGraph(ssautil.AllFunctions(c.prog), cha.CallGraph(c.prog))
	}
	return c.cg
}

func (c *Ctx) inModule(fn *ssa.Function) bool {
	if fn == nil {
		return false
	}
	if fn.Pkg != nil {
		return strings.HasPrefix(fn.Pkg.Pkg.Path(), c.modRoot)
	}
	if fn.Parent() != nil {
		return c.inModule(fn.Parent())
	}
	if o := fn.Object(); o != nil && o.Pkg() != nil {
		return strings.HasPrefix(o.Pkg().Path(), c.modRoot)
	}
	return false
}

func (c *Ctx) pkg(rel string) *ssa.Package {
	p := c.modRoot
	if rel != "" {
		p += "/" + rel
	}
	sp := c.spkgs[p]
	if sp == nil {
		fatal("unresolved anchor: package %s not loaded", p)
	}
	return sp
}

// fn resolves a package-level function or a method "Type.Method" / "(*Type).Method".
func (c *Ctx) fnOpt(pkgRel, name string) *ssa.Function {
	sp := c.pkg(pkgRel)
	if i := strings.Index(name, "."); i >= 0 {
		tn, mn := name[:i], name[i+1:]
		ptr := false
		if strings.HasPrefix(tn, "*") {
			ptr, tn = true, tn[1:]
		}
		m := sp.Type(tn)
		if m == nil {
			return nil
		}
		var t types.Type = m.Type()
		if ptr {
			t = types.NewPointer(t)
		}
		ms := c.prog.MethodSets.MethodSet(t)
		for i := 0; i < ms.Len(); i++ {
			if ms.At(i).Obj().Name() == mn {
				return c.prog.MethodValue(ms.At(i))
			}
		}
		if !ptr {
			ms = c.prog.MethodSets.MethodSet(types.NewPointer(t))
			for i := 0; i < ms.Len(); i++ {
				if ms.At(i).Obj().Name() == mn {
					return c.prog.MethodValue(ms.At(i))
				}
			}
		}
		return nil
	}
	return sp.Func(name)
}

func (c *Ctx) fnMust(pkgRel, name string) *ssa.Function {
	f := c.fnOpt(pkgRel, name)
	if f == nil {
		fatal("unresolved anchor: %s.%s", pkgRel, name)
	}
	// an anchor that merely forwards to an implementation function (exported wrapper +
	// unexported body) stands for that implementation
	return thinTarget(f)
}

// allFuncs returns every source function (incl. methods, closures) of the module's
// library packages, sorted by name.
func (c *Ctx) allFuncs(pkgRels ...string) []*ssa.Function {
	want := map[string]bool{}
	for _, r := range pkgRels {
		want[c.pkg(r).Pkg.Path()] = true
	}
	var out []*ssa.Function
	for fn := range ssautil.AllFunctions(c.prog) {
		if fn.Blocks == nil || fn.Synthetic != "" {
			continue
		}
		var pp *types.Package
		if fn.Pkg != nil {
			pp = fn.Pkg.Pkg
		} else if fn.Parent() != nil {
			p := fn
			for p.Parent() != nil {
				p = p.Parent()
			}
			if p.Pkg != nil {
				pp = p.Pkg.Pkg
			}
		}
		if pp != nil && want[pp.Path()] {
			out = append(out, fn)
		}
	}
	sort.Slice(out, func(i, j int) bool { return out[i].String() < out[j].String() })
	return out
}

func (c *Ctx) pos(p token.Pos) string {
	if !p.IsValid() {
		return "-"
	}
	pp := c.fset.Position(p)
	return fmt.Sprintf("%s:%d", relPath(pp.Filename), pp.Line)
}

// exprAt returns the source text of the innermost expression starting at pos (used only
// to make reports readable, never to decide anything).
func (c *Ctx) exprAt(p token.Pos, fn *ssa.Function) string {
	if !p.IsValid() {
		return ""
	}
	tf := c.fset.File(p)
	af := c.files[tf]
	if af == nil {
		return ""
	}
	var best ast.Node
	ast.Inspect(af, func(n ast.Node) bool {
		if n == nil {
			return false
		}
		if n.Pos() > p || n.End() <= p {
			return false
		}
		switch e := n.(type) {
		case *ast.BinaryExpr:
			if e.OpPos == p {
				best = n
			}
		case *ast.CallExpr:
			if e.Lparen == p || e.Pos() == p {
				best = n
			}
		case *ast.IndexExpr:
			if e.Lbrack == p || e.Pos() == p {
				best = n
			}
		case *ast.SliceExpr:
			if e.Lbrack == p || e.Pos() == p {
				best = n
			}
		}
		return true
	})
	if best == nil {
		return ""
	}
	var buf bytes.Buffer
	_ = printer.Fprint(&buf, c.fset, best)
	s := buf.String()
	if len(s) > 80 {
		s = s[:80] + "…"
	}
	return s
}

// initOnlyGlobal reports whether every store to package-level variable g in the program is
// in its package initialiser (so after initialisation its value never changes) and there
// is at least one such store.
func (c *Ctx) initOnlyGlobal(g *ssa.Global) bool {
	if c.globalStores == nil {
		c.globalStores = map[*ssa.Global][2]int{}
		for fn := range ssautil.AllFunctions(c.prog) {
			for _, b := range fn.Blocks {
				for _, in := range b.Instrs {
					st, ok := in.(*ssa.Store)
					if !ok {
						continue
					}
					gg, ok := st.Addr.(*ssa.Global)
					if !ok {
						continue
					}
					cnt := c.globalStores[gg]
					if fn.Name() == "init" && fn.Pkg == gg.Pkg {
						cnt[0]++
					} else {
						cnt[1]++
					}
					c.globalStores[gg] = cnt
				}
			}
		}
	}
	cnt := c.globalStores[g]
	return cnt[0] >= 1 && cnt[1] == 0
}
