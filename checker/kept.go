package main

// R5.16 — every definition handed to the builder is kept (round 11, C05k-1).
//
// Every return of an exported Builder method that accepts field definitions is dominated by
// the store of an append result into the builder's own []Field (directly, or in a method of
// Builder it calls on the same receiver); a return taken only for an empty argument list is
// exempt. A method that returns early for some definitions (a duplicate filter) reports those
// fields zero times, although the property quantifies over multisets of fields.

import (
	"go/token"
	"go/types"

	"golang.org/x/tools/go/ssa"
)

func acceptsDefinitions(fn *ssa.Function, fieldT types.Type) bool {
	for _, p := range fn.Params[1:] {
		t := p.Type()
		if pt, ok := t.(*types.Pointer); ok {
			t = pt.Elem()
		}
		if types.Identical(t, fieldT) {
			return true
		}
		if sl, ok := t.Underlying().(*types.Slice); ok && types.Identical(sl.Elem(), fieldT) {
			return true
		}
		if st, ok := t.Underlying().(*types.Struct); ok {
			for i := 0; i < st.NumFields(); i++ {
				if st.Field(i).Embedded() && types.Identical(st.Field(i).Type(), fieldT) {
					return true
				}
			}
		}
	}
	return false
}

func c05Kept(c *Ctx, r *Report) {
	ft := c.pkg("").Type("Field")
	if ft == nil {
		r.undecided("R5.16", "modbus.Field", "type Field not found", "-")
		return
	}
	fieldT := ft.Type()
	for _, fn := range c.allFuncs("") {
		if fn.Signature.Recv() == nil || fn.Parent() != nil || len(fn.Params) < 2 || fn.Object() == nil || !fn.Object().Exported() {
			continue
		}
		if nm, ok := deref(fn.Signature.Recv().Type()).(*types.Named); !ok || nm.Obj().Name() != "Builder" {
			continue
		}
		if !acceptsDefinitions(fn, fieldT) {
			continue
		}
		r.instance("R5.16", 1)
		id := fnID(fn)
		keeps := keepingBlocks(fn, fieldT, 0)
		bad := ""
		for _, b := range fn.Blocks {
			if len(b.Instrs) == 0 {
				continue
			}
			ret, isRet := b.Instrs[len(b.Instrs)-1].(*ssa.Return)
			if !isRet {
				continue
			}
			dominated := false
			for _, kb := range keeps {
				if kb == b || kb.Dominates(b) {
					dominated = true
				}
			}
			if !dominated && !onlyForEmptyArgument(b, fn) {
				bad = c.pos(ret.Pos())
			}
		}
		if bad == "" {
			r.ok("R5.16", id, "every return is preceded by the append of the given definition(s) to the builder's field list", c.pos(fn.Pos()), true)
		} else {
			r.fail("R5.16", id, "a return can be reached without the given definition having been appended to the builder's field list: that field is never requested or reported", bad, "", "definition-dropped")
		}
	}
}

// keepingBlocks: blocks of fn that store an append result into a []Field field of fn's receiver,
// or call a method on the same receiver all of whose returns are dominated by such a block.
func keepingBlocks(fn *ssa.Function, fieldT types.Type, depth int) []*ssa.BasicBlock {
	var out []*ssa.BasicBlock
	if len(fn.Params) == 0 || depth > 2 {
		return nil
	}
	recv := fn.Params[0]
	for _, b := range fn.Blocks {
		for _, in := range b.Instrs {
			switch x := in.(type) {
			case *ssa.Store:
				fa, ok := x.Addr.(*ssa.FieldAddr)
				if !ok || fa.X != recv {
					continue
				}
				sl, ok := deref(fa.Type()).Underlying().(*types.Slice)
				if !ok || !types.Identical(sl.Elem(), fieldT) {
					continue
				}
				if call, ok := x.Val.(*ssa.Call); ok {
					if bi, ok := call.Common().Value.(*ssa.Builtin); ok && bi.Name() == "append" {
						out = append(out, b)
					}
				}
			case *ssa.Call:
				cal := x.Common().StaticCallee()
				if cal == nil || cal == fn || cal.Signature.Recv() == nil || len(x.Common().Args) == 0 || x.Common().Args[0] != recv || cal.Blocks == nil {
					continue
				}
				kb := keepingBlocks(cal, fieldT, depth+1)
				all := len(kb) > 0
				for _, cb := range cal.Blocks {
					if len(cb.Instrs) == 0 {
						continue
					}
					if _, isRet := cb.Instrs[len(cb.Instrs)-1].(*ssa.Return); !isRet {
						continue
					}
					dom := false
					for _, k := range kb {
						if k == cb || k.Dominates(cb) {
							dom = true
						}
					}
					if !dom {
						all = false
					}
				}
				if all {
					out = append(out, b)
				}
			}
		}
	}
	return out
}

// onlyForEmptyArgument: block b is reached only through the true edge of `len(p) == 0` (or the
// false edge of `len(p) != 0` / `len(p) > 0`) for a slice parameter p of fn.
func onlyForEmptyArgument(b *ssa.BasicBlock, fn *ssa.Function) bool {
	isLenOfParam := func(v ssa.Value) bool {
		call, ok := v.(*ssa.Call)
		if !ok {
			return false
		}
		bi, ok := call.Common().Value.(*ssa.Builtin)
		if !ok || bi.Name() != "len" {
			return false
		}
		pa, ok := call.Common().Args[0].(*ssa.Parameter)
		return ok && pa.Parent() == fn
	}
	isZero := func(v ssa.Value) bool {
		k, ok := v.(*ssa.Const)
		return ok && k.Value != nil && k.Int64() == 0
	}
	for cur := b; len(cur.Preds) == 1; cur = cur.Preds[0] {
		p := cur.Preds[0]
		iff, ok := p.Instrs[len(p.Instrs)-1].(*ssa.If)
		if !ok {
			continue
		}
		bo, ok := iff.Cond.(*ssa.BinOp)
		if !ok || !isLenOfParam(bo.X) || !isZero(bo.Y) {
			continue
		}
		onTrue := p.Succs[0] == cur
		switch {
		case bo.Op == token.EQL && onTrue, bo.Op == token.NEQ && !onTrue, bo.Op == token.GTR && !onTrue:
			return true
		}
	}
	return false
}
