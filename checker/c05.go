package main

// C05 / C06 — request builder (structural clauses; DESIGN §3 C05, C06).

import (
	"fmt"
	"go/constant"
	"go/token"
	"go/types"
	"sort"
	"strings"

	"golang.org/x/tools/go/ssa"
)

func init() {
	register("C05", checkC05, "The end-to-end statement (every multiset of fields, every device memory image) is NOT decided: it needs execution. Decided necessary conditions: R5.1 for each of the 13 register field types the number of registers Field.registerSize reserves (evaluated symbolically per type constant, ceil(Length/2) for strings) equals the number of registers the accessor chosen by Field.ExtractFrom for that type reads (from its result type / length parameter). R5.2 argument roles: each ExtractFrom case passes the field's own Address and exactly the attribute each accessor parameter stands for (bit, high-byte flag, byte order, length); extractRegisterFields hands the request's StartAddress to AsRegisters, the responses' AsRegisters hand (payload, start) to NewRegisters, extractCoilFields hands (request start, field address) to IsCoilSet in this order. R5.3 in split the request descriptor's StartAddress / UnitID are the same batch values that were given to the packet constructor, Fields is the batch's field list and ServerAddress its address. R5.4 both extraction loops visit every field once: per iteration either return (strict mode, nil slice, wrapped error) or append exactly one FieldValue whose Field is the loop element and whose Value/Error are the pair just obtained; the lenient path returns the partial-error sentinel iff an error was seen. R5.5 the slot merge keeps the widest size (the store back into the slot table carries the updated size). R5.2 also requires that a value spanning several registers is decoded by an accessor that takes the field's byte order. R5.6 extraction is effect-free (C13 analysis from the extraction roots). R5.7 every read-request constructor split calls accepts every quantity 1..limit (its error returns are unreachable in that range). R5.8 every batch, also the follow-up ones after a split, carries its group's address and unit id. R5.8 also covers the grouping key's injectivity. R5.9 Field.Validate accepts every well-formed field (defined type, bit <= 15, string length >= 1, address + register count <= 65536): no other error return is reachable. R5.10 the builder methods that accept definitions from the caller (Add, AddAll) write to no field of a Field value. R5.11 = C04 R4.1/R4.4/R4.W: the window NewRegisters builds has no wrap-around and in-window accesses succeed. R5.12 building requests is read-only on the builder: no write to memory derived from the builder's field list, no store through the *Builder receiver, no package-level state on the path of any method returning []BuilderRequest (derived-pointer analysis). R5.4 also: Field, Value and Error are each assigned on every iteration before the record is appended. R5.12 clause 3: no function on the build path stores to a field of a Field value. R5.13 = C04 R4.3 (every typed accessor decodes with the order argument, or the default iff the argument is 0, for word order and byte order alike). R5.16 every return of a builder method that accepts definitions is dominated by the append of those definitions to the builder's field list (a duplicate filter reports a field zero times). R5.14 = C04 R4.8 (no float-width detour between the decode and the reported value). R5.15 = C06 R6.9 (the slots are sorted by a comparator that is the ascending address order for all values, and the sorted slice is the one the batching loop walks; sort.Sort/sort.Slice or slices.SortFunc).")
	register("C06", checkC06, "Optimality/tightness of the greedy batching for all field lists is NOT decided (algorithmic). Decided: R6.1 every request descriptor appended in split is dominated by a packet.New*Request* call on the batch's own unit id / start / quantity and by the error test, so quantity limits follow from the validating constructors (C01 R1.2). R6.2 the grouping key is an injective function of (server address, unit id, kind): a constant format with a separator between verbs whose trailing operands are integers/bools, or a comparable struct key; both batch-initialisation sites take address and unit id from the group and the start address from the current slot. R6.3 the kind filter skips a field exactly when its kind differs from the requested kind (truth table over the 4 valuations through the CFG), the requested kind is 'coils' exactly for the FC1/FC2 targets, each target constant calls the constructor of its function code and framing, and the address limit is the coil limit exactly for coil groups, with both limit constants equal to the specification's 2000/125. R6.W no narrow-typed arithmetic in batchToRequests / AddField can wrap (slot end and span are computed without 16-bit wrap-around), and the conversion of the span to the 16-bit quantity is proven exact. R6.4 = R5.7 (a batch filled to the limit can be constructed). R6.5 the encoders of the request types split constructs write unit id, start and quantity as the specification lays them out (C01 R1.1 for those eight types). R6.6 = C05 R5.1: the slot size the batcher reserves equals the registers the field's type occupies. R6.8 = R5.12 (building is read-only on the builder; a memoised result would have to be stored in it). R6.9 the comparator handed to sort in batchToRequests is the ascending numeric order of an unsigned slot field the batching loop reads, for all values (abstract interpretation of Less with rule W; ties free). R6.9 also: the slice handed to sort is the slice the batching loop walks; a three-way comparator given to slices.SortFunc must be negative exactly when the field is smaller (cmp.Compare on the field is accepted by contract). R6.8 includes the stale-element-pointer clause of R5.12.")
}

// accessPath: "root.f1.f2" for a load (or address) of a field chain rooted at an alloc/param/phi.
func accessPath(v ssa.Value) string {
	switch x := v.(type) {
	case *ssa.UnOp:
		if x.Op == token.MUL {
			return accessPath(x.X)
		}
	case *ssa.FieldAddr:
		st, _ := deref(x.X.Type()).Underlying().(*types.Struct)
		name := fmt.Sprint(x.Field)
		if st != nil {
			name = st.Field(x.Field).Name()
		}
		return accessPath(x.X) + "." + name
	case *ssa.Field:
		st, _ := x.X.Type().Underlying().(*types.Struct)
		name := fmt.Sprint(x.Field)
		if st != nil {
			name = st.Field(x.Field).Name()
		}
		return accessPath(x.X) + "." + name
	case *ssa.Alloc:
		return "&" + x.Name() + "(" + x.Comment + ")"
	case *ssa.Parameter:
		return x.Name()
	case *ssa.Phi:
		return "phi:" + x.Comment
	case *ssa.IndexAddr:
		return accessPath(x.X) + "[]"
	}
	return "?" + v.Name()
}

func checkC05(c *Ctx, r *Report) {
	r.floor("R5.1", 13)
	r.floor("R5.2", 13)
	r.floor("R5.3", 8)
	r.floor("R5.4", 2)
	c05Tables(c, r)
	c05Plumbing(c, r)
	c05Split(c, r, "R5.3")
	// R5.15 = C06 R6.9: the batching loop only extends a batch upwards, so a field lands in the batch
	// that covers its address only if the slots are walked in ascending address order
	{
		tmp := newReport(r.Prop, r.Tier)
		c06Comparator(c, tmp)
		r.instance("R5.15", copyItems(tmp, r, "R6.9", "R5.15"))
		r.floor("R5.15", 2)
	}
	// R5.14 = C04 R4.8: the float a field reports is the decoded bit pattern (no float-width detour
	// between math.FloatNNfrombits and the FieldValue)
	floatBitIdentity(c, r, "R5.14", c.allFuncs("packet", ""))
	r.floor("R5.14", 4)
	// R5.8: a request asks the device the fields belong to: every batch (also the follow-up ones
	// after a split) carries its group's address and unit id (C06 R6.2 batch initialisation)
	{
		tmp := newReport(r.Prop, r.Tier)
		c06Grouping(c, tmp)
		r.instance("R5.8", copyItems(tmp, r, "R6.2", "R5.8"))
		r.floor("R5.8", 2)
	}
	r.floor("R5.7", 8)
	c05Validate(c, r)
	r.floor("R5.9", 1)
	c05Definitions(c, r)
	r.floor("R5.10", 2)
	c05Kept(c, r)
	r.floor("R5.16", 2)
	// R5.11: the window the typed accessors work on is the one the response covers: NewRegisters
	// computes its bounds without wrap-around and every access stays inside (C04 R4.1/R4.4/R4.W)
	{
		tmp := newReport(r.Prop, r.Tier)
		runC04On(c, tmp, "packet", "Registers", "NewRegisters", false)
		n := 0
		for _, it := range tmp.items {
			if (it.Rule == "R4.W" || it.Rule == "R4.4" || it.Rule == "R4.1") && !it.OK {
				it.Rule = "R5.11"
				r.add(it)
				n++
			}
		}
		r.instance("R5.11", 1)
		if n == 0 {
			r.ok("R5.11", "packet.NewRegisters", "window bounds are computed without wrap-around and every typed access of an in-window register succeeds (C04 R4.1/R4.4/R4.W all discharged)", "-", true)
		}
		r.floor("R5.11", 1)
	}
	// R5.13: the byte order a field definition carries decides how its registers are decoded: every
	// typed accessor decodes with (its order argument, or the default iff the argument is 0) for
	// the word order and the byte order alike (C04 R4.3; a field with only the word-order flag set
	// must not fall back to the default wholesale)
	{
		tmp := newReport(r.Prop, r.Tier)
		runC04On(c, tmp, "packet", "Registers", "NewRegisters", false)
		r.instance("R5.13", copyItems(tmp, r, "R4.3", "R5.13"))
		r.floor("R5.13", 10)
	}
	c05FullRange(c, r, "R5.7")
	c05Loops(c, r)
	c05SlotMerge(c, r)
	// R5.6: extraction must not modify the response it reads, otherwise an overlapping field
	// decoded later differs from the device's memory (derived-pointer analysis of C13)
	{
		roots := []*ssa.Function{c.fnMust("", "*Field.ExtractFrom"), c.fnMust("", "BuilderRequest.ExtractFields"),
			c.fnMust("", "BuilderRequest.extractRegisterFields"), c.fnMust("", "BuilderRequest.extractCoilFields")}
		t := runC13(c, roots, payloadFields(c, "packet"))
		r.instance("R5.6", len(roots))
		seen := map[string]bool{}
		for _, f := range t.findings {
			k := f.rule + f.sig + fnID(f.fn)
			if seen[k] {
				continue
			}
			seen[k] = true
			r.fail("R5.6", fnID(f.fn), f.what+" (fields extracted afterwards no longer equal device memory)", c.pos(f.pos), "", f.sig)
		}
		if len(seen) == 0 {
			r.ok("R5.6", "modbus.BuilderRequest.ExtractFields", fmt.Sprintf("extraction (%d functions reachable) neither writes the response payload nor keeps decoder state", len(t.funcs)), "-", true)
		}
	}
	// R5.12: every field is reported exactly once however often and in whatever order requests
	// are built from one builder
	builderReadOnly(c, r, "R5.12")
	r.floor("R5.12", 8)
	r.assumption("devices answer as the specification requires; decoding correctness of the accessors is C04")
}

// c05Tables: R5.1 and the ExtractFrom part of R5.2.
func c05Tables(c *Ctx, r *Report) {
	regSize := c.fnMust("", "*Field.registerSize")
	extract := c.fnMust("", "*Field.ExtractFrom")
	r.funcs[fnID(regSize)] = true
	r.funcs[fnID(extract)] = true
	// the FieldType constants of the package, by value
	sp := c.pkg("")
	consts := map[int64]string{}
	for name, m := range sp.Members {
		if k, ok := m.(*ssa.NamedConst); ok {
			if n, ok := k.Type().(*types.Named); ok && n.Obj().Name() == "FieldType" {
				if v, exact := constant.Int64Val(k.Value.Value); exact {
					consts[v] = name
				}
			}
		}
	}
	var vals []int64
	for v := range consts {
		vals = append(vals, v)
	}
	sort.Slice(vals, func(i, j int) bool { return vals[i] < vals[j] })
	coilT := int64(-1)
	for v, n := range consts {
		if strings.HasSuffix(n, "Coil") {
			coilT = v
		}
	}
	for _, tv := range vals {
		if tv == coilT {
			continue
		}
		name := consts[tv]
		r.instance("R5.1", 1)
		r.instance("R5.2", 1)
		// registerSize under Type == tv
		an := &Analysis{ctx: c, u: newUniverse(), top: regSize}
		fr := an.newFrame(regSize, nil, nil)
		typeSym := affSym(an.u.sym("*"+regSize.Params[0].Name()+".Type", 0, 255))
		lenSym := affSym(an.u.sym("*"+regSize.Params[0].Name()+".Length", 0, 255))
		fr.run(DNF{Conj{atomEQ(typeSym, affConst(tv))}})
		// accessor chosen by ExtractFrom
		an2 := &Analysis{ctx: c, u: newUniverse(), top: extract, logCalls: true}
		// accessors are analysed by C04; only the call matters here
		an2.noInline = func(fn *ssa.Function) bool { return fn.Signature.Recv() != nil }
		fr2 := an2.newFrame(extract, nil, nil)
		t2 := affSym(an2.u.sym("*"+extract.Params[0].Name()+".Type", 0, 255))
		fr2.run(DNF{Conj{atomEQ(t2, affConst(tv))}})
		var acc *CallRec
		n := 0
		for _, cr := range an2.calls {
			if cr.frame == fr2 && cr.callee != nil && cr.callee.Signature.Recv() != nil && len(cr.state) > 0 {
				if nm, ok := deref(cr.callee.Signature.Recv().Type()).(*types.Named); ok && nm.Obj().Name() == "Registers" {
					acc = cr
					n++
				}
			}
		}
		id := "modbus." + name
		pos := c.pos(extract.Pos())
		if n != 1 {
			r.fail("R5.2", id, fmt.Sprintf("ExtractFrom reaches %d accessor calls for this type (want 1)", n), pos, "", "accessor-calls")
			continue
		}
		// registers the accessor reads
		sig := acc.callee.Signature
		resBytes := resultBytes(sig.Results().At(0).Type())
		var wantRegs *Aff
		isString := false
		if b, ok := sig.Results().At(0).Type().Underlying().(*types.Basic); ok && b.Kind() == types.String {
			isString = true
		}
		if !isString {
			regs := (resBytes + 1) / 2
			if regs < 1 {
				regs = 1
			}
			a := affConst(regs)
			wantRegs = &a
		}
		// registerSize value at each feasible return
		okSize := true
		detail := ""
		for _, rs := range fr.returns {
			if len(rs.state) == 0 {
				continue
			}
			v, ok := rs.vals[0].(AInt)
			if !ok {
				okSize = false
				continue
			}
			got := fr.useIn(v, rs.state, "registerSize")
			if isString {
				// ceil(Length/2): 2*v >= L and 2*v <= L+1
				if !(rs.state.entails(atomGE(got.scale(2), lenSym)) && rs.state.entails(atomLE(got.scale(2), lenSym.addc(1)))) {
					okSize = false
					detail = "size " + got.String() + " is not ceil(Length/2)"
				}
			} else if !rs.state.entails(atomEQ(got, *wantRegs)) {
				okSize = false
				detail = fmt.Sprintf("registerSize = %s, accessor %s reads %s register(s)", got.String(), acc.callee.Name(), wantRegs.String())
			}
		}
		if okSize {
			what := "registerSize = registers read by " + acc.callee.Name()
			if isString {
				what = "registerSize = ceil(Length/2) = registers read by " + acc.callee.Name()
			}
			r.ok("R5.1", id, what, pos, true)
		} else {
			r.fail("R5.1", id, "registerSize disagrees with the accessor ExtractFrom uses for this type", pos, detail, "size:"+detail)
		}
		// a value spanning more than one register (or a string) depends on the field's byte order:
		// the accessor used must be one that takes it
		if isString || (wantRegs != nil && wantRegs.c >= 2) {
			takesOrder := false
			for i := 0; i < sig.Params().Len(); i++ {
				if strings.HasSuffix(types.TypeString(sig.Params().At(i).Type(), nil), "ByteOrder") {
					takesOrder = true
				}
			}
			if takesOrder {
				r.ok("R5.2", id, "multi-register value is decoded by an accessor that takes the field's byte order ("+acc.callee.Name()+")", posOfCall(c, acc), true)
			} else {
				r.fail("R5.2", id, "multi-register value is decoded by "+acc.callee.Name()+", which ignores the field's byte order", posOfCall(c, acc), "", "byteorder-ignored")
			}
		}
		// argument roles
		okArgs := true
		why := ""
		params := sig.Params()
		for i := 0; i < params.Len(); i++ {
			arg := acc.args[i+1] // args[0] is the receiver
			p := params.At(i)
			want := ""
			rcv := "*" + extract.Params[0].Name()
			resT := types.TypeString(sig.Results().At(0).Type(), nil)
			switch {
			case i == 0:
				want = rcv + ".Address"
			case types.TypeString(p.Type(), nil) == "bool":
				want = rcv + ".FromHighByte"
			case strings.HasSuffix(types.TypeString(p.Type(), nil), "ByteOrder"):
				want = rcv + ".ByteOrder"
			case resT == "bool": // the bit accessor's second parameter is the bit number
				want = rcv + ".Bit"
			case resT == "string": // the string accessor's second parameter is the length
				want = rcv + ".Length"
			default:
				want = "?"
			}
			got := describeAV(arg)
			if ab, ok := arg.(ABool); ok && ab.f.kind == fAtom && len(ab.f.atom.a.terms) == 1 {
				got = ab.f.atom.a.terms[0].s.key
			}
			if got != want {
				okArgs = false
				why = fmt.Sprintf("parameter %s of %s receives %s, want %s", p.Name(), acc.callee.Name(), got, want)
			}
		}
		if okArgs {
			r.ok("R5.2", id, fmt.Sprintf("%s is called with the field's own address and attributes in their roles", acc.callee.Name()), posOfCall(c, acc), true)
		} else {
			r.fail("R5.2", id, "ExtractFrom passes a wrong attribute", posOfCall(c, acc), why, "arg:"+why)
		}
	}
}

// c05Plumbing: the remaining R5.2 call sites.
func c05Plumbing(c *Ctx, r *Report) {
	check := func(fn *ssa.Function, calleeName string, wantArgs []string, what string) {
		r.instance("R5.2", 1)
		id := fnID(fn)
		r.funcs[id] = true
		found := false
		var blocks []*ssa.BasicBlock
		blocks = append(blocks, fn.Blocks...)
		for _, af := range fn.AnonFuncs {
			blocks = append(blocks, af.Blocks...) // the call may sit in a closure the function builds
		}
		for _, b := range blocks {
			for _, in := range b.Instrs {
				call, ok := in.(*ssa.Call)
				if !ok {
					continue
				}
				cm := call.Common()
				name := ""
				if cm.IsInvoke() {
					name = cm.Method.Name()
				} else if sc := cm.StaticCallee(); sc != nil {
					name = sc.Name()
				}
				if name != calleeName {
					continue
				}
				found = true
				args := cm.Args
				var got []string
				for _, a := range args {
					got = append(got, accessPath(a))
				}
				ok2 := len(got) >= len(wantArgs)
				if ok2 {
					tail := got[len(got)-len(wantArgs):]
					for i := range wantArgs {
						if !strings.HasSuffix(tail[i], wantArgs[i]) {
							ok2 = false
						}
					}
				}
				if ok2 {
					r.ok("R5.2", id, what, c.pos(call.Pos()), true)
				} else {
					r.fail("R5.2", id, "wrong arguments: "+what, c.pos(call.Pos()), "got "+strings.Join(got, ", ")+", want ..."+strings.Join(wantArgs, ", "), "plumbing:"+calleeName)
				}
				// the question is put to the response that was handed in, not to something built around it
				if cm.IsInvoke() {
					rv := cm.Value
					for {
						switch x := rv.(type) {
						case *ssa.ChangeInterface:
							rv = x.X
							continue
						case *ssa.UnOp:
							if x.Op == token.MUL {
								rv = x.X
								continue
							}
						}
						break
					}
					_, isParam := rv.(*ssa.Parameter)
					_, isFree := rv.(*ssa.FreeVar)
					if al, isAlloc := rv.(*ssa.Alloc); isAlloc {
						// the spilled parameter
						if refs := al.Referrers(); refs != nil {
							for _, rf := range *refs {
								if st, ok := rf.(*ssa.Store); ok && st.Addr == ssa.Value(al) {
									if _, ok := st.Val.(*ssa.Parameter); ok {
										isParam = true
									}
								}
							}
						}
					}
					if isParam || isFree {
						r.ok("R5.2", id, calleeName+" is asked of the response handed in", c.pos(call.Pos()), true)
					} else {
						r.fail("R5.2", id, calleeName+" is asked of a value built around the response (an adapter in between can answer differently)", c.pos(call.Pos()), accessPath(cm.Value), "plumbing-receiver:"+calleeName)
					}
				}
			}
		}
		if !found {
			r.undecided("R5.2", id, "call to "+calleeName+" not found", c.pos(fn.Pos()))
		}
	}
	check(c.fnMust("", "BuilderRequest.extractRegisterFields"), "AsRegisters", []string{".StartAddress"}, "AsRegisters receives the request's StartAddress")
	check(c.fnMust("", "BuilderRequest.AsRegisters"), "AsRegisters", []string{".StartAddress"}, "AsRegisters receives the request's StartAddress")
	check(c.fnMust("", "BuilderRequest.extractCoilFields"), "IsCoilSet", []string{".StartAddress", ".Address"}, "IsCoilSet receives (request start address, field address) in this order")
	for _, tn := range []string{"ReadHoldingRegistersResponse", "ReadInputRegistersResponse", "ReadWriteMultipleRegistersResponse"} {
		asr := c.fnMust("packet", tn+".AsRegisters")
		check(asr, "NewRegisters", []string{".Data", asr.Params[len(asr.Params)-1].Name()}, "NewRegisters receives (payload, request start address)")
	}
}

// c05Split: R5.3 / R6.1 / R6.3 constructor table on split.
// split (with any helper of its own package that calls the packet constructors inlined) is
// interpreted; every packet constructor call is compared, by identity of the abstract values,
// with what is stored into the BuilderRequest literal that split appends.
func c05Split(c *Ctx, r *Report, rule string) {
	split := c.fnMust("", "split")
	id := fnID(split)
	r.funcs[id] = true
	an := &Analysis{ctx: c, u: newUniverse(), top: split, logCalls: true}
	an.noInline = func(f *ssa.Function) bool { return !splitHelper(split, f) }
	fr := an.newFrame(split, nil, nil)
	fr.run(dnfTrue())
	var ctors []*CallRec
	for _, cr := range an.calls {
		if cr.callee != nil && isPacketCtor(cr.callee) {
			ctors = append(ctors, cr)
		}
	}
	// the BuilderRequest literal: a non-escaping local of split
	var lit *Obj
	for al, o := range fr.objs {
		if n, ok := deref(al.Type()).(*types.Named); ok && n.Obj().Name() == "BuilderRequest" && !al.Heap {
			lit = o
		}
	}
	if lit == nil || len(ctors) == 0 {
		r.undecided(rule, id, "split does not build BuilderRequest values from packet constructors", c.pos(split.Pos()))
		return
	}
	st := lit.typ.Underlying().(*types.Struct)
	stored := map[string]string{}
	for path, recs := range lit.stores {
		var n int
		if _, err := fmt.Sscanf(strings.TrimPrefix(path, "."), "%d", &n); err != nil || n >= st.NumFields() || len(recs) == 0 {
			continue
		}
		last := recs[0]
		for _, rc := range recs {
			if rc.seq > last.seq {
				last = rc
			}
		}
		stored[st.Field(n).Name()] = describeAV(last.val)
	}
	base := func(desc string) string {
		if k := strings.LastIndex(desc, "."); k >= 0 {
			return desc[:k]
		}
		return desc
	}
	seen := map[*ssa.Function]bool{}
	for _, cc := range ctors {
		if seen[cc.callee] {
			continue
		}
		seen[cc.callee] = true
		r.instance(rule, 1)
		pos := posOfCall(c, cc)
		if len(cc.args) != 3 {
			r.fail(rule, id, "constructor call does not take (unit id, start, quantity)", pos, describeAV(ATuple(cc.args)), "ctor-arity")
			continue
		}
		u, s0, q := describeAV(cc.args[0]), describeAV(cc.args[1]), describeAV(cc.args[2])
		b := base(u)
		okU := stored["UnitID"] == u
		okS := stored["StartAddress"] == s0
		okQ := base(q) == b && q != u && q != s0
		okF := strings.Contains(stored["Fields"], b+".") // a slice field of the same batch value
		okA := strings.Contains(stored["ServerAddress"], b+".")
		if okU && okS && okQ && okF && okA && base(s0) == b {
			r.ok(rule, id, fmt.Sprintf("%s gets unit id, start and quantity of one batch; the descriptor stores the same unit id and start address and that batch's fields and address", cc.callee.Name()), pos, true)
		} else {
			r.fail(rule, id, "request descriptor and encoded packet can disagree", pos,
				fmt.Sprintf("ctor args (%s, %s, %s); descriptor UnitID=%s StartAddress=%s Fields=%s ServerAddress=%s", u, s0, q, stored["UnitID"], stored["StartAddress"], stored["Fields"], stored["ServerAddress"]),
				fmt.Sprintf("descriptor:%v%v%v%v%v", okU, okS, okQ, okF, okA))
		}
	}
}

func isPacketCtor(f *ssa.Function) bool {
	return f != nil && f.Pkg != nil && strings.HasSuffix(f.Pkg.Pkg.Path(), "/packet") && strings.HasPrefix(f.Name(), "New")
}

// splitHelper: f is split itself or a function of split's package that split calls and that
// calls a packet constructor (a helper the constructor switch was moved into).
func splitHelper(split, f *ssa.Function) bool {
	if f == split {
		return true
	}
	if f == nil || f.Pkg != split.Pkg || f.Blocks == nil {
		return false
	}
	for _, b := range f.Blocks {
		for _, in := range b.Instrs {
			if call, ok := in.(ssa.CallInstruction); ok && isPacketCtor(call.Common().StaticCallee()) {
				return true
			}
		}
	}
	return pureScalarLeaf(f)
}

// pureScalarLeaf: a loop-free function over basic-typed values that neither stores nor calls
// anything (a range test, a min/max): evaluated inline wherever it is used.
func pureScalarLeaf(f *ssa.Function) bool {
	basic := func(t types.Type) bool { _, ok := t.Underlying().(*types.Basic); return ok }
	for _, p := range f.Params {
		if !basic(p.Type()) {
			return false
		}
	}
	res := f.Signature.Results()
	if res.Len() == 0 || len(f.FreeVars) > 0 {
		return false
	}
	for i := 0; i < res.Len(); i++ {
		if !basic(res.At(i).Type()) {
			return false
		}
	}
	for _, b := range f.Blocks {
		for _, p := range b.Preds {
			if isBackEdge(p, b) {
				return false
			}
		}
		for _, in := range b.Instrs {
			switch in.(type) {
			case *ssa.Store, *ssa.Call, *ssa.Go, *ssa.Defer, *ssa.Send, *ssa.MapUpdate, *ssa.Panic:
				return false
			}
		}
	}
	return true
}

// packetCtorsOfSplit: the packet constructors called from split or its helpers.
func packetCtorsOfSplit(split *ssa.Function) []*ssa.Function {
	var out []*ssa.Function
	seen := map[*ssa.Function]bool{}
	var scan func(f *ssa.Function, depth int)
	scan = func(f *ssa.Function, depth int) {
		for _, b := range f.Blocks {
			for _, in := range b.Instrs {
				call, ok := in.(ssa.CallInstruction)
				if !ok {
					continue
				}
				sc := call.Common().StaticCallee()
				if isPacketCtor(sc) && !seen[sc] {
					seen[sc] = true
					out = append(out, sc)
				} else if depth < 2 && sc != f && splitHelper(split, sc) && sc != split {
					scan(sc, depth+1)
				}
			}
		}
	}
	scan(split, 0)
	return out
}

// c05Loops: R5.4.
func c05Loops(c *Ctx, r *Report) {
	hasAppend := func(f *ssa.Function) bool {
		for _, b := range f.Blocks {
			for _, in := range b.Instrs {
				if call, ok := in.(*ssa.Call); ok {
					if bi, ok := call.Common().Value.(*ssa.Builtin); ok && bi.Name() == "append" {
						return true
					}
				}
			}
		}
		return false
	}
	for _, name := range []string{"extractRegisterFields", "extractCoilFields"} {
		fn := c.fnMust("", "BuilderRequest."+name)
		// the loop may live in a shared helper both extraction functions delegate to
		if !hasAppend(fn) {
			for _, b := range fn.Blocks {
				for _, in := range b.Instrs {
					if call, ok := in.(*ssa.Call); ok {
						if sc := call.Common().StaticCallee(); sc != nil && sc.Pkg == fn.Pkg && sc.Blocks != nil && hasAppend(sc) {
							fn = sc
						}
					}
				}
			}
		}
		id := fnID(fn)
		r.funcs[id] = true
		r.instance("R5.4", 1)
		pos := c.pos(fn.Pos())
		// the append of one FieldValue per iteration
		var app *ssa.Call
		napp := 0
		for _, b := range fn.Blocks {
			for _, in := range b.Instrs {
				if call, ok := in.(*ssa.Call); ok {
					if bi, ok := call.Common().Value.(*ssa.Builtin); ok && bi.Name() == "append" {
						app = call
						napp++
					}
				}
			}
		}
		if napp != 1 {
			r.fail("R5.4", id, fmt.Sprintf("%d append sites in the extraction loop (want 1)", napp), pos, "", "append-sites")
			continue
		}
		// loop over r.Fields: the range index covers every element
		var elem *ssa.IndexAddr
		for _, b := range fn.Blocks {
			for _, in := range b.Instrs {
				if ia, ok := in.(*ssa.IndexAddr); ok && strings.HasSuffix(accessPath(ia.X), ".Fields") {
					elem = ia
				}
			}
		}
		an := &Analysis{ctx: c, u: newUniverse(), top: fn}
		an.noInline = func(f *ssa.Function) bool { return true }
		fr := an.newFrame(fn, nil, nil)
		fr.run(dnfTrue())
		okCover := false
		why := "no indexed access of the request's Fields"
		if elem != nil {
			if s, ok := fr.sliceOf(elem.X); ok {
				// the strict-mode return inside the loop is an allowed exit
				var exits []*ssa.BasicBlock
				for _, b := range fn.Blocks {
					if _, isRet := b.Instrs[len(b.Instrs)-1].(*ssa.Return); isRet {
						exits = append(exits, b)
					}
				}
				okCover, why = coversIndex(fr, elem.Index, elem.Block(), s.ln, exits...)
			}
		}
		if okCover {
			r.ok("R5.4", id, "the loop visits every element of the request's Fields once, in order", pos, true)
		} else {
			r.fail("R5.4", id, "the extraction loop does not provably visit every field", pos, why, "coverage:"+why)
		}
		// append happens on every iteration that does not return: its block dominates the latch
		okEvery := false
		if elem != nil {
			if ph, ok := elem.Index.(*ssa.BinOp); ok {
				if p2, ok := ph.X.(*ssa.Phi); ok {
					hdr := p2.Block()
					okEvery = true
					for _, p := range hdr.Preds {
						if isBackEdge(p, hdr) && !app.Block().Dominates(p) {
							okEvery = false
						}
					}
				}
			}
		}
		if okEvery {
			r.ok("R5.4", id, "every iteration that does not return appends exactly one FieldValue", c.pos(app.Pos()), true)
		} else {
			r.fail("R5.4", id, "some iteration neither returns nor appends a FieldValue (a field can be dropped)", c.pos(app.Pos()), "", "append-not-every-iteration")
		}
		// the appended FieldValue: Field = loop element, Value/Error = the pair just obtained
		var fv *ssa.Alloc
		for _, b := range fn.Blocks {
			for _, in := range b.Instrs {
				if al, ok := in.(*ssa.Alloc); ok {
					if n, ok := deref(al.Type()).(*types.Named); ok && n.Obj().Name() == "FieldValue" {
						fv = al
					}
				}
			}
		}
		okVal := false
		detail := ""
		if fv != nil {
			stored := map[string]ssa.Value{}
			if refs := fv.Referrers(); refs != nil {
				for _, rf := range *refs {
					if fa, ok := rf.(*ssa.FieldAddr); ok {
						st := deref(fa.X.Type()).Underlying().(*types.Struct)
						if r2 := fa.Referrers(); r2 != nil {
							for _, u := range *r2 {
								if s, ok := u.(*ssa.Store); ok && s.Addr == fa {
									stored[st.Field(fa.Field).Name()] = s.Val
								}
							}
						}
					}
				}
			}
			// Field: load of the loop element copy
			// (the local the range element is copied into, whatever it is called)
			var elem *ssa.Alloc
			if ld, ok := stored["Field"].(*ssa.UnOp); ok && ld.Op == token.MUL {
				if al, ok := ld.X.(*ssa.Alloc); ok {
					if refs := al.Referrers(); refs != nil {
						for _, rf := range *refs {
							if st, ok := rf.(*ssa.Store); ok && st.Addr == al {
								if l2, ok := st.Val.(*ssa.UnOp); ok && l2.Op == token.MUL {
									if _, ok := l2.X.(*ssa.IndexAddr); ok {
										elem = al
									}
								}
							}
						}
					}
				}
			}
			fOK := elem != nil
			// Value and Error: extracts #0/#1 of the same call, possibly boxed
			var vcall, ecall ssa.Value
			if v := stored["Value"]; v != nil {
				if mi, ok := v.(*ssa.MakeInterface); ok {
					v = mi.X
				}
				if e, ok := v.(*ssa.Extract); ok && e.Index == 0 {
					vcall = e.Tuple
				}
			}
			if v := stored["Error"]; v != nil {
				if e, ok := v.(*ssa.Extract); ok && e.Index == 1 {
					ecall = e.Tuple
				}
			}
			// the value was obtained for this very element: the element feeds the call's operands
			if fOK && vcall != nil {
				if call, ok := vcall.(*ssa.Call); ok {
					uses := false
					for _, arg := range call.Common().Args {
						if valueDerivesFrom(arg, elem, 0) {
							uses = true
						}
					}
					if call.Common().IsInvoke() && valueDerivesFrom(call.Common().Value, elem, 0) {
						uses = true
					}
					fOK = uses
				}
			}
			okVal = fOK && vcall != nil && vcall == ecall
			detail = fmt.Sprintf("Field=%v value-call=%v error-call=%v", fOK, vcall != nil, ecall != nil)
			// all three are assigned afresh for every element: each store is executed on every path
			// to the point where the record is read for appending, within the same iteration (a
			// record kept across iterations with a conditionally assigned Error reports a stale one)
			if okVal {
				var reads []ssa.Instruction
				if refs := fv.Referrers(); refs != nil {
					for _, rf := range *refs {
						if ld, ok := rf.(*ssa.UnOp); ok && ld.Op == token.MUL {
							reads = append(reads, ld)
						}
					}
				}
				fresh := len(reads) > 0
				if refs := fv.Referrers(); refs != nil {
					for _, rf := range *refs {
						fa, ok := rf.(*ssa.FieldAddr)
						if !ok || fa.Referrers() == nil {
							continue
						}
						for _, u := range *fa.Referrers() {
							st, ok := u.(*ssa.Store)
							if !ok || st.Addr != ssa.Value(fa) {
								continue
							}
							for _, rd := range reads {
								if !instrBefore(st, rd) {
									fresh = false
								}
							}
							// the record lives outside the loop: the store must be inside it
							if !blockReaches(fv.Block(), fv.Block()) && !blockReaches(st.Block(), st.Block()) {
								fresh = false
							}
						}
					}
				}
				if !fresh {
					okVal = false
					detail += " (a component is not assigned on every iteration before the record is appended)"
				}
			}
		}
		if okVal {
			r.ok("R5.4", id, "the appended FieldValue carries the loop's field and the (value, error) pair just obtained for it", pos, true)
		} else {
			r.fail("R5.4", id, "the appended FieldValue is not (this field, its value, its error)", pos, detail, "fieldvalue:"+detail)
		}
	}
}

// c05SlotMerge: R5.5 — AddField keeps the widest size when fields share an address.
func c05SlotMerge(c *Ctx, r *Report) {
	fn := c.fnMust("", "*builderSlotGroup.AddField")
	id := fnID(fn)
	r.funcs[id] = true
	r.instance("R5.5", 1)
	pos := c.pos(fn.Pos())
	// a local copy `slot` is updated (size := registerSize when larger) and stored back whole into g.slots[i]
	var slotAlloc *ssa.Alloc
	for _, b := range fn.Blocks {
		for _, in := range b.Instrs {
			if al, ok := in.(*ssa.Alloc); ok && al.Comment == "slot" {
				slotAlloc = al
			}
		}
	}
	if slotAlloc == nil {
		r.undecided("R5.5", id, "no local slot copy in AddField", pos)
		return
	}
	sizeUpdated, wholeBack := false, false
	for _, b := range fn.Blocks {
		for _, in := range b.Instrs {
			st, ok := in.(*ssa.Store)
			if !ok {
				continue
			}
			if fa, ok := st.Addr.(*ssa.FieldAddr); ok && fa.X == slotAlloc {
				if fieldVarOf(fa).Name() == "size" {
					sizeUpdated = true
				}
			}
			// g.slots[i] = slot (whole struct loaded from the local copy)
			if ia, ok := st.Addr.(*ssa.IndexAddr); ok && strings.HasSuffix(accessPath(ia.X), ".slots") {
				if ld, ok := st.Val.(*ssa.UnOp); ok && ld.X == slotAlloc {
					wholeBack = true
				}
			}
		}
	}
	if sizeUpdated && wholeBack {
		r.ok("R5.5", id, "the merged slot (fields appended, size raised to the widest field) is stored back whole into the slot table", pos, true)
	} else {
		r.fail("R5.5", id, "the size of a shared slot is not carried back into the slot table: a wider field added later keeps the narrower size", pos,
			fmt.Sprintf("size updated on the copy=%v, whole copy stored back=%v", sizeUpdated, wholeBack), fmt.Sprintf("slot-merge:%v,%v", sizeUpdated, wholeBack))
	}
}

// ---------------- C06 ----------------

func checkC06(c *Ctx, r *Report) {
	r.floor("R6.1", 8)
	r.floor("R6.2", 2)
	r.floor("R6.3", 8)
	r.floor("R6.W", 2)
	c05Split(c, r, "R6.1")
	// R6.5: the packet on the wire asks for what the descriptor says: the encoders of the request
	// types split constructs put unit id, start and quantity into the frame as the specification
	// lays them out (C01 R1.1 for those types)
	{
		crc := c.fnMust("packet", "CRC16")
		built := map[*types.Named]bool{}
		split := c.fnMust("", "split")
		for _, sc := range packetCtorsOfSplit(split) {
			if sc.Signature.Results().Len() == 2 {
				if p, ok := sc.Signature.Results().At(0).Type().(*types.Pointer); ok {
					if tn, ok := p.Elem().(*types.Named); ok {
						built[tn] = true
					}
				}
			}
		}
		for _, m := range bytesMethods(c, "packet") {
			tn := m.Signature.Recv().Type().(*types.Named)
			if !built[tn] {
				continue
			}
			r.instance("R6.5", 1)
			id := fnID(m)
			r.funcs[id] = true
			er := runEncoder(c, "packet", m, crc)
			if !er.okay {
				r.undecided("R6.5", id, "encoder not interpretable: "+er.why, c.pos(m.Pos()))
				continue
			}
			tmp := newReport(r.Prop, r.Tier)
			c01Encoder(c, tmp, er, id, hasMBAP(tn), false)
			copyItems(tmp, r, "R1.1", "R6.5")
		}
		r.floor("R6.5", 8)
	}
	// R6.6: the slot a field occupies in a batch is the number of registers its type really
	// takes: registerSize agrees with the accessor table for every type constant (C05 R5.1)
	{
		tmp := newReport(r.Prop, r.Tier)
		c05Tables(c, tmp)
		r.instance("R6.6", copyItems(tmp, r, "R5.1", "R6.6"))
		r.floor("R6.6", 13)
	}
	r.floor("R6.4", 8)
	c05FullRange(c, r, "R6.4")
	c06ErrCheck(c, r)
	c06Grouping(c, r)
	c06KindFilter(c, r)
	c06Wrap(c, r)
	c05SlotMergeAs(c, r, "R6.2")
	c06Comparator(c, r)
	r.floor("R6.9", 1)
	builderReadOnly(c, r, "R6.8")
	r.floor("R6.8", 8)
	r.assumption("quantity limits are enforced by the packet constructors (C01 R1.2); sort.Sort sorts by the comparator it is given (R6.9 decides that the comparator is the ascending order of the slot address)")
}

func c05SlotMergeAs(c *Ctx, r *Report, rule string) {
	tmp := newReport(r.Prop, r.Tier)
	c05SlotMerge(c, tmp)
	for _, it := range tmp.items {
		it.Rule = "R6.W"
		r.add(it)
	}
	r.instance("R6.W", 1)
}

// c06ErrCheck: every append of a BuilderRequest is reached only after `err != nil -> return`.
func c06ErrCheck(c *Ctx, r *Report) {
	split := c.fnMust("", "split")
	id := fnID(split)
	r.instance("R6.1", 1)
	// where a request descriptor is put into the result: the store of a whole BuilderRequest value
	// (into the variadic slice of an append, or into result[i])
	var app ssa.Instruction
	for _, b := range split.Blocks {
		for _, in := range b.Instrs {
			st, ok := in.(*ssa.Store)
			if !ok {
				continue
			}
			if n, ok := st.Val.Type().(*types.Named); ok && n.Obj().Name() == "BuilderRequest" {
				if _, toElem := st.Addr.(*ssa.IndexAddr); toElem {
					app = st
				}
			}
		}
	}
	if app == nil {
		r.undecided("R6.1", id, "split never stores a BuilderRequest into its result", c.pos(split.Pos()))
		return
	}
	// the dominating If on the constructor's error phi
	ok := false
	for b := app.Block(); b != nil; b = b.Idom() {
		id2 := b.Idom()
		if id2 == nil {
			break
		}
		if iff, isIf := id2.Instrs[len(id2.Instrs)-1].(*ssa.If); isIf && id2.Succs[1] == b {
			if cmp, isCmp := iff.Cond.(*ssa.BinOp); isCmp && cmp.Op == token.NEQ && isNilConst(cmp.Y) {
				// the tested value is the error result of the packet constructors (directly, through
				// the phi of the constructor switch, or through a helper the switch was moved into)
				if errFromCtor(split, cmp.X, 0) {
					// true branch returns
					if _, isRet := id2.Succs[0].Instrs[len(id2.Succs[0].Instrs)-1].(*ssa.Return); isRet {
						ok = true
					}
				}
			}
		}
	}
	if ok {
		r.ok("R6.1", id, "a request descriptor is appended only after the constructor's error was tested (err != nil returns)", c.pos(app.Pos()), true)
	} else {
		r.fail("R6.1", id, "a request descriptor can be appended although the validating constructor failed", c.pos(app.Pos()), "", "append-without-errcheck")
	}
}

// c06Grouping: R6.2.
func c06Grouping(c *Ctx, r *Report) {
	fn := c.fnMust("", "groupForSingleConnection")
	id := fnID(fn)
	r.funcs[id] = true
	r.instance("R6.2", 1)
	pos := c.pos(fn.Pos())
	// the map lookup key
	var key ssa.Value
	for _, b := range fn.Blocks {
		for _, in := range b.Instrs {
			if lk, ok := in.(*ssa.Lookup); ok {
				if _, isMap := lk.X.Type().Underlying().(*types.Map); isMap {
					key = lk.Index
				}
			}
		}
	}
	if key == nil {
		r.undecided("R6.2", id, "no map lookup with a grouping key", pos)
	} else {
		okKey, why := injectiveKey(key)
		if okKey {
			r.ok("R6.2", id, "the grouping key is an injective function of (server address, unit id, kind): "+why, c.pos(key.Pos()), true)
		} else {
			r.fail("R6.2", id, "the grouping key does not provably separate server address, unit id and kind (different targets can share a group)", c.pos(key.Pos()), why, "key:"+why)
		}
	}
	// batch initialisation sites in batchToRequests
	bt := c.fnMust("", "batchToRequests")
	bid := fnID(bt)
	r.funcs[bid] = true
	var batch *ssa.Alloc
	for _, b := range bt.Blocks {
		for _, in := range b.Instrs {
			if al, ok := in.(*ssa.Alloc); ok && al.Comment == "batch" {
				batch = al
			}
		}
	}
	if batch == nil {
		r.undecided("R6.2", bid, "no batch variable in batchToRequests", c.pos(bt.Pos()))
		return
	}
	// collect stores to batch.Address / UnitID / StartAddress (direct field stores and whole-struct literals)
	type site struct {
		field string
		val   string
		pos   string
	}
	var sites []site
	for _, b := range bt.Blocks {
		for _, in := range b.Instrs {
			st, ok := in.(*ssa.Store)
			if !ok {
				continue
			}
			if fa, ok := st.Addr.(*ssa.FieldAddr); ok {
				if fa.X == batch {
					sites = append(sites, site{fieldVarOf(fa).Name(), accessPath(st.Val), c.pos(st.Pos())})
				} else if al, ok := fa.X.(*ssa.Alloc); ok && al.Comment == "complit" {
					if n, ok := deref(al.Type()).(*types.Named); ok && n.Obj().Name() == "requestBatch" {
						sites = append(sites, site{fieldVarOf(fa).Name(), accessPath(st.Val), c.pos(st.Pos())})
					}
				}
			}
		}
	}
	nAddr, nUnit, nStart := 0, 0, 0
	okAll := true
	why := ""
	for _, s := range sites {
		switch s.field {
		case "Address":
			nAddr++
			if !strings.HasSuffix(s.val, ".serverAddress") {
				okAll, why = false, "Address <- "+s.val
			}
		case "UnitID":
			nUnit++
			if !strings.HasSuffix(s.val, ".unitID") {
				okAll, why = false, "UnitID <- "+s.val
			}
		case "StartAddress":
			nStart++
			if !(strings.HasSuffix(s.val, ".address") || strings.Contains(s.val, "firstAddress")) {
				okAll, why = false, "StartAddress <- "+s.val
			}
		}
	}
	r.instance("R6.2", 1)
	if okAll && nAddr == 2 && nUnit == 2 && nStart == 2 {
		r.ok("R6.2", bid, "both batch initialisation sites take address and unit id from the slot group and the start address from the current slot", c.pos(bt.Pos()), true)
	} else {
		r.fail("R6.2", bid, "a batch can be initialised with a target or start address that is not its group's / first slot's", c.pos(bt.Pos()),
			fmt.Sprintf("%s (sites: address %d, unit %d, start %d)", why, nAddr, nUnit, nStart), "batch-init:"+why)
	}
}

// injectiveKey decides whether the grouping key separates its three components.
func injectiveKey(key ssa.Value) (bool, string) {
	if _, isStruct := key.Type().Underlying().(*types.Struct); isStruct {
		return true, "comparable struct key"
	}
	call, ok := key.(*ssa.Call)
	if !ok {
		return false, "key is not built by a recognised construction"
	}
	sc := call.Common().StaticCallee()
	if sc == nil || sc.String() != "fmt.Sprintf" {
		name := "?"
		if sc != nil {
			name = sc.String()
		}
		return false, "key is built by " + name + ", whose output does not provably separate the components"
	}
	k, ok := call.Common().Args[0].(*ssa.Const)
	if !ok || k.Value == nil {
		return false, "format is not constant"
	}
	format := constant.StringVal(k.Value)
	parts := strings.Split(format, "%v")
	if len(parts) != 4 {
		return false, "format " + format + " does not have three %v verbs"
	}
	sep := parts[1]
	if sep == "" || parts[2] != sep {
		return false, "verbs are not separated by the same non-empty literal"
	}
	// operands: the variadic slice literal
	var ops []ssa.Value
	if sl, ok := call.Common().Args[1].(*ssa.Slice); ok {
		if al, ok := sl.X.(*ssa.Alloc); ok {
			if refs := al.Referrers(); refs != nil {
				idx := map[int64]ssa.Value{}
				for _, rf := range *refs {
					if ia, ok := rf.(*ssa.IndexAddr); ok {
						if ci, ok := ia.Index.(*ssa.Const); ok {
							if r2 := ia.Referrers(); r2 != nil {
								for _, u := range *r2 {
									if s, ok := u.(*ssa.Store); ok {
										v := s.Val
										if mi, ok := v.(*ssa.MakeInterface); ok {
											v = mi.X
										}
										idx[ci.Int64()] = v
									}
								}
							}
						}
					}
				}
				for i := int64(0); i < int64(len(idx)); i++ {
					ops = append(ops, idx[i])
				}
			}
		}
	}
	if len(ops) != 3 {
		return false, "could not resolve the three operands"
	}
	// trailing operands must render without the separator: integers and bools
	for _, o := range ops[1:] {
		b, ok := o.Type().Underlying().(*types.Basic)
		if !ok || b.Info()&(types.IsInteger|types.IsBoolean) == 0 {
			return false, "a trailing operand is not an integer/bool, so its rendering may contain the separator"
		}
	}
	want := []string{".ServerAddress", ".UnitID"}
	for i, w := range want {
		if !strings.HasSuffix(accessPath(ops[i]), w) {
			return false, fmt.Sprintf("operand %d is %s, want the field's %s", i, accessPath(ops[i]), w)
		}
	}
	if _, isB := ops[2].Type().Underlying().(*types.Basic); !isB {
		return false, "third operand is not the kind flag"
	}
	return true, fmt.Sprintf("Sprintf(%q, ServerAddress, UnitID, isCoil) with integer/bool trailing operands", format)
}

// c06KindFilter: R6.3.
func c06KindFilter(c *Ctx, r *Report) {
	fn := c.fnMust("", "groupForSingleConnection")
	id := fnID(fn)
	an := &Analysis{ctx: c, u: newUniverse(), top: fn, logCalls: true}
	an.noInline = func(f *ssa.Function) bool { return true }
	fr := an.newFrame(fn, nil, nil)
	fr.run(dnfTrue())
	r.instance("R6.3", 1)
	// the AddField call is reached only when onlyCoils == isCoil; isCoil := f.Type == FieldTypeCoil
	var add *CallRec
	for _, cr := range an.calls {
		if cr.frame == fr && cr.callee != nil && cr.callee.Name() == "AddField" {
			add = cr
		}
	}
	if add == nil {
		r.undecided("R6.3", id, "no AddField call", c.pos(fn.Pos()))
	} else {
		only, _ := fr.vals[fn.Params[1]].(ABool)
		// isCoil: the comparison of the loop element's Type field with the coil constant
		coil := int64(14)
		for name, m := range c.pkg("").Members {
			if k, ok := m.(*ssa.NamedConst); ok && name == "FieldTypeCoil" {
				coil, _ = constant.Int64Val(k.Value.Value)
			}
		}
		var isCoil *Form
		for _, b := range fn.Blocks {
			for _, in := range b.Instrs {
				cmp, ok := in.(*ssa.BinOp)
				if !ok || cmp.Op != token.EQL || !isConstInt(cmp.Y, coil) {
					continue
				}
				if ld, ok := cmp.X.(*ssa.UnOp); ok {
					if fa, ok := ld.X.(*ssa.FieldAddr); ok && fieldVarOf(fa) != nil && fieldVarOf(fa).Name() == "Type" {
						if ab, ok := fr.vals[cmp].(ABool); ok {
							isCoil = ab.f
						}
					}
				}
			}
		}
		okXor := false
		if only.f != nil && isCoil != nil {
			// reached => (only <=> isCoil); and not reached => differ: check the 4 valuations
			okXor = true
			for _, o := range []bool{false, true} {
				for _, k := range []bool{false, true} {
					st := dnfAnd(add.state, dnfAnd(only.f.dnf(!o), isCoil.dnf(!k)))
					feas := false
					for _, cj := range st {
						if !infeasible(cj) {
							feas = true
						}
					}
					if feas != (o == k) {
						okXor = false
					}
				}
			}
		}
		if okXor {
			r.ok("R6.3", id, "a field is grouped exactly when its kind (coil / register) equals the requested kind (all 4 valuations)", posOfCall(c, add), true)
		} else {
			r.fail("R6.3", id, "the kind filter lets a field of the other kind through or drops a field of the requested kind", posOfCall(c, add), truncate(add.state.String(), 300), "kind-filter")
		}
	}
	// split: onlyCoils is true exactly for targets whose constructor is FC1/FC2; target table
	split := c.fnMust("", "split")
	sid := fnID(split)
	for k := int64(0); k < 8; k++ {
		an := &Analysis{ctx: c, u: newUniverse(), top: split, logCalls: true}
		an.noInline = func(f *ssa.Function) bool { return !splitHelper(split, f) }
		sf := an.newFrame(split, nil, nil)
		ft, _ := sf.vals[split.Params[1]].(AInt)
		sf.run(DNF{Conj{atomEQ(ft.a, affConst(k))}})
		r.instance("R6.3", 1)
		var ctor *ssa.Function
		n := 0
		var onlyArg AV
		var onlyState DNF
		for _, cr := range an.calls {
			if cr.callee == nil || len(cr.state) == 0 {
				continue
			}
			if isPacketCtor(cr.callee) {
				ctor = cr.callee
				n++
			}
			if cr.callee.Name() == "groupForSingleConnection" {
				onlyArg = cr.args[1]
				onlyState = cr.state
			}
		}
		pos := c.pos(split.Pos())
		if n != 1 {
			r.fail("R6.3", sid, fmt.Sprintf("split target %d reaches %d packet constructors (want 1)", k, n), pos, "", fmt.Sprintf("target%d-ctors", k))
			continue
		}
		pt := ctor.Signature.Results().At(0).Type().(*types.Pointer).Elem().(*types.Named)
		fc, _ := functionCodeOf(c, pt)
		tcp := hasMBAP(pt)
		wantFC := k/2 + 1
		wantTCP := k%2 == 0
		wantOnly := wantFC <= 2
		gotOnly := "?"
		if b, ok := onlyArg.(ABool); ok {
			st := onlyState
			if st.entailsForm(b.f) {
				gotOnly = "true"
			} else if st.entailsForm(formNot(b.f)) {
				gotOnly = "false"
			}
		}
		if fc == wantFC && tcp == wantTCP && gotOnly == fmt.Sprint(wantOnly) {
			r.ok("R6.3", sid, fmt.Sprintf("target %d builds FC%d %s requests with %s and groups coils=%v", k, fc, map[bool]string{true: "TCP", false: "RTU"}[tcp], ctor.Name(), wantOnly), pos, true)
		} else {
			r.fail("R6.3", sid, fmt.Sprintf("split target %d is wired to the wrong constructor or kind", k), pos,
				fmt.Sprintf("constructor %s (FC%d, tcp=%v), onlyCoils=%s; want FC%d tcp=%v onlyCoils=%v", ctor.Name(), fc, tcp, gotOnly, wantFC, wantTCP, wantOnly), fmt.Sprintf("target%d:%s", k, ctor.Name()))
		}
	}
	// limit constants
	r.instance("R6.3", 1)
	lims := map[string]int64{}
	for name, m := range c.pkg("packet").Members {
		if k, ok := m.(*ssa.NamedConst); ok && (name == "MaxCoilsInReadResponse" || name == "MaxRegistersInReadResponse") {
			lims[name], _ = constant.Int64Val(k.Value.Value)
		}
	}
	if lims["MaxCoilsInReadResponse"] == 2000 && lims["MaxRegistersInReadResponse"] == 125 {
		r.ok("R6.3", "packet.MaxCoilsInReadResponse/MaxRegistersInReadResponse", "limit constants equal the specification's 2000 coils / 125 registers", "-", true)
	} else {
		r.fail("R6.3", "packet.MaxCoilsInReadResponse/MaxRegistersInReadResponse", "limit constants differ from the specification", "-", fmt.Sprint(lims), fmt.Sprintf("limits:%v", lims))
	}
	// addressLimit selection in batchToRequests: some comparison of the function has an operand
	// that equals the coil limit on exactly the paths where a boolean of the group is true and
	// the register limit on exactly those where it is false (decided on the path states; the
	// limits may be literals, named constants or arguments the callers pass)
	bt := c.fnMust("", "batchToRequests")
	r.instance("R6.3", 1)
	okSel := false
	coilLim, regLim := lims["MaxCoilsInReadResponse"], lims["MaxRegistersInReadResponse"]
	for _, fr := range contextFrames(c, bt) {
		for _, b := range bt.Blocks {
			iff, ok := b.Instrs[len(b.Instrs)-1].(*ssa.If)
			if !ok {
				continue
			}
			cmp, ok := iff.Cond.(*ssa.BinOp)
			if !ok {
				continue
			}
			for _, side := range []ssa.Value{cmp.X, cmp.Y} {
				v, isI := fr.val(stripConv(side)).(AInt)
				if !isI {
					continue
				}
				st := fr.blockIn[b.Index]
				var hi, lo []Conj
				other := false
				for _, cj := range st {
					if infeasible(cj) {
						continue
					}
					vv := fr.useIn(v, DNF{cj}, "limit")
					switch {
					case cj.entails(atomEQ(vv, affConst(coilLim))):
						hi = append(hi, cj)
					case cj.entails(atomEQ(vv, affConst(regLim))):
						lo = append(lo, cj)
					default:
						other = true
					}
				}
				if other || len(hi) == 0 || len(lo) == 0 {
					continue
				}
				// a boolean symbol that is 1 on all coil-limit paths and 0 on all register-limit paths
				cands := map[*Sym]bool{}
				for _, a := range hi[0] {
					if a.op == opEQ && len(a.a.terms) == 1 && a.a.terms[0].k == 1 && a.a.c == -1 {
						cands[a.a.terms[0].s] = true
					}
				}
				for sym := range cands {
					sep := true
					for _, cj := range hi {
						if !cj.entails(atomEQ(affSym(sym), affConst(1))) {
							sep = false
						}
					}
					for _, cj := range lo {
						if !cj.entails(atomNE(affSym(sym), affConst(1))) {
							sep = false
						}
					}
					if sep {
						okSel = true
					}
				}
			}
		}
	}
	if okSel {
		r.ok("R6.3", fnID(bt), "the address limit is the coil limit exactly for coil groups, the register limit otherwise", c.pos(bt.Pos()), true)
	} else {
		r.fail("R6.3", fnID(bt), "the address limit is not selected by the group's kind", c.pos(bt.Pos()), "", "limit-selection")
	}
}

// c06Wrap: R6.W.
func c06Wrap(c *Ctx, r *Report) {
	for _, name := range []string{"batchToRequests", "*builderSlotGroup.AddField"} {
		fn := c.fnMust("", name)
		id := fnID(fn)
		r.funcs[id] = true
		r.instance("R6.W", 1)
		an, _ := analyse(c, fn)
		seen := map[string]bool{}
		n := 0
		for _, w := range an.wraps {
			k := w.what + w.pos
			if seen[k] {
				continue
			}
			seen[k] = true
			n++
			r.fail("R6.W", id, fmt.Sprintf("narrow-typed arithmetic %s may wrap where it is used (%s)", w.what, w.use), w.pos, "", "wrap:"+w.what)
		}
		for _, o := range an.obligs {
			if !o.ok {
				n++
				r.fail("R6.W", id, "index/slice not proven in bounds: "+o.desc, c.pos(o.pos), o.facts, o.kind+":"+c.exprAt(o.pos, o.fn))
			}
		}
		if n == 0 {
			r.ok("R6.W", id, "no 16-bit wrap-around in slot end / span arithmetic; the span-to-quantity conversion is exact", c.pos(fn.Pos()), true)
		}
	}
}

// c05FullRange: R5.7 / R6.4 — the batcher fills a request up to the specification limit, so each
// read-request constructor split calls must accept every quantity in 1..limit: under that
// premise none of its error returns is reachable.
func c05FullRange(c *Ctx, r *Report, rule string) {
	split := c.fnMust("", "split")
	seen := map[*ssa.Function]bool{}
	{
		for _, ctor := range packetCtorsOfSplit(split) {
			if seen[ctor] {
				continue
			}
			seen[ctor] = true
			r.instance(rule, 1)
			id := fnID(ctor)
			pos := c.pos(ctor.Pos())
			r.funcs[id] = true
			if len(ctor.Params) != 3 || ctor.Signature.Results().Len() != 2 {
				r.undecided(rule, id, "constructor is not (unit id, start, quantity) -> (request, error)", pos)
				continue
			}
			ptr, isP := ctor.Signature.Results().At(0).Type().(*types.Pointer)
			var tn *types.Named
			if isP {
				tn, _ = ptr.Elem().(*types.Named)
			}
			fc, okFC := int64(0), false
			if tn != nil {
				fc, okFC = functionCodeOf(c, tn)
			}
			sp := specFor(fc)
			if !okFC || sp == nil || len(sp.lim) == 0 {
				r.undecided(rule, id, "function code / quantity limit of the constructed request not resolved", pos)
				continue
			}
			lim := sp.lim[0]
			an := &Analysis{ctx: c, u: newUniverse(), top: ctor}
			fr := an.newFrame(ctor, nil, nil)
			fr.run(dnfTrue())
			q, isI := fr.val(ctor.Params[2]).(AInt)
			if !isI {
				r.undecided(rule, id, "quantity parameter is not an integer", pos)
				continue
			}
			bad := ""
			nerr := 0
			for i := range fr.returns {
				rs := &fr.returns[i]
				nf := fr.nilness(rs.vals[1])
				if nf.kind == fConst && nf.b {
					continue // success return
				}
				nerr++
				for _, cj := range dnfAnd(rs.state, nf.dnf(true)) { // the error is non-nil on this path
					if !infeasible(cj.with(atomGE(q.a, affConst(lim.lo)), atomLE(q.a, affConst(lim.hi)))) {
						bad = fmt.Sprintf("error return at %s reachable with %s", c.pos(rs.instr.Pos()), truncate(cj.String(), 160))
					}
				}
			}
			if bad == "" {
				r.ok(rule, id, fmt.Sprintf("accepts every quantity in [%d,%d] (none of its %d error returns is reachable in that range), so a batch filled to the limit can be built", lim.lo, lim.hi, nerr), pos, true)
			} else {
				r.fail(rule, id, fmt.Sprintf("rejects a quantity within the specification range [%d,%d] that the batcher can produce", lim.lo, lim.hi), pos, bad, "rejects-in-range")
			}
		}
	}
}

// valueDerivesFrom: v is the alloc itself, or a field address / load / conversion of it.
func valueDerivesFrom(v ssa.Value, al *ssa.Alloc, depth int) bool {
	if v == al {
		return true
	}
	if depth > 6 {
		return false
	}
	switch x := v.(type) {
	case *ssa.UnOp:
		return valueDerivesFrom(x.X, al, depth+1)
	case *ssa.FieldAddr:
		return valueDerivesFrom(x.X, al, depth+1)
	case *ssa.Field:
		return valueDerivesFrom(x.X, al, depth+1)
	case *ssa.Convert:
		return valueDerivesFrom(x.X, al, depth+1)
	case *ssa.ChangeType:
		return valueDerivesFrom(x.X, al, depth+1)
	case *ssa.MakeInterface:
		return valueDerivesFrom(x.X, al, depth+1)
	}
	return false
}

// errFromCtor: v is the error result of a packet constructor call (or of a split helper that
// calls them), possibly merged by phis; a nil constant edge (the zero value of `var err error`
// on a path without a constructor) is allowed.
func errFromCtor(split *ssa.Function, v ssa.Value, depth int) bool {
	if depth > 4 {
		return false
	}
	switch x := v.(type) {
	case *ssa.Extract:
		if call, ok := x.Tuple.(*ssa.Call); ok && isErrorType(x.Type()) {
			sc := call.Common().StaticCallee()
			return isPacketCtor(sc) || (sc != split && splitHelper(split, sc))
		}
	case *ssa.Phi:
		n := 0
		for _, e := range x.Edges {
			if isNilConst(e) {
				continue
			}
			if !errFromCtor(split, e, depth+1) {
				return false
			}
			n++
		}
		return n > 0
	}
	return false
}

// c05Validate: R5.9 — every well-formed field is accepted by Field.Validate: under the premise
// "server address set, type one of the defined constants, bit 0..15, string length >= 1" none of
// its error returns is reachable (whatever address the field has: a field may end at the very
// last register 65535).
func c05Validate(c *Ctx, r *Report) {
	fn := thinTarget(c.fnOpt("", "*Field.Validate"))
	r.instance("R5.9", 1)
	if fn == nil {
		r.undecided("R5.9", "modbus.Field.Validate", "Field.Validate not found", "-")
		return
	}
	id := fnID(fn)
	r.funcs[id] = true
	an := &Analysis{ctx: c, u: newUniverse(), top: fn, logCalls: true}
	fr := an.newFrame(fn, nil, nil)
	rcv := "*" + fn.Params[0].Name()
	addr := affSym(an.u.sym(rcv+".Address", 0, 65535))
	typ := affSym(an.u.sym(rcv+".Type", 0, 255))
	bit := affSym(an.u.sym(rcv+".Bit", 0, 255))
	ln := affSym(an.u.sym(rcv+".Length", 0, 255))
	// the defined type constants
	var maxT int64
	for _, m := range c.pkg("").Members {
		if k, ok := m.(*ssa.NamedConst); ok {
			if n, ok := k.Type().(*types.Named); ok && n.Obj().Name() == "FieldType" {
				if v, exact := constant.Int64Val(k.Value.Value); exact && v > maxT {
					maxT = v
				}
			}
		}
	}
	prem := Conj{atomGE(typ, affConst(1)), atomLE(typ, affConst(maxT)), atomLE(bit, affConst(15)), atomGE(ln, affConst(1))}
	fr.run(DNF{prem})
	// a well-formed field also fits the address space: address + its register count <= 65536
	// (expressed with the result of registerSize where Validate calls it)
	var fits []Atom
	regSize := c.fnOpt("", "*Field.registerSize")
	for _, cr := range an.calls {
		if cr.callee == regSize && regSize != nil {
			if sz, ok := cr.res.(AInt); ok {
				fits = append(fits, atomLE(addr.add(sz.a), affConst(65536)))
			}
		}
	}
	bad := ""
	nerr := 0
	for i := range fr.returns {
		rs := &fr.returns[i]
		nf := fr.nilness(rs.vals[0])
		if nf.kind == fConst && nf.b {
			continue
		}
		nerr++
		for _, cj := range dnfAnd(rs.state, nf.dnf(true)) {
			cj = cj.with(fits...)
			// the only remaining legitimate reason: an empty server address (a string comparison the
			// engine keeps as an opaque condition)
			if infeasible(cj) || mentionsKey(cj, "ServerAddress") {
				continue
			}
			bad = fmt.Sprintf("error return at %s reachable with %s", c.pos(rs.instr.Pos()), truncate(cj.String(), 200))
		}
	}
	if bad == "" {
		r.ok("R5.9", id, fmt.Sprintf("a field with a defined type (1..%d), bit 0..15 and (for strings) a length is accepted at every address: none of the %d error returns is reachable for it", maxT, nerr), c.pos(fn.Pos()), true)
	} else {
		r.fail("R5.9", id, "Validate rejects a well-formed field (the whole field set is then refused and no field is reported)", c.pos(fn.Pos()), bad, "validate-rejects-valid")
	}
}

func mentionsKey(cj Conj, part string) bool {
	for _, a := range cj {
		if a.op != opEQ {
			continue // only "the comparison holds" counts as that reason
		}
		for _, t := range a.a.terms {
			if strings.Contains(t.s.key, part) {
				return true
			}
		}
	}
	return false
}

// c05Definitions: R5.10 — a field is reported "attached to its own definition": the builder
// methods that accept definitions from the caller (a parameter of type Field, *BField or
// Fields) store them as given; none of them writes to a field of a Field value.
func c05Definitions(c *Ctx, r *Report) {
	sp := c.pkg("")
	ft := sp.Type("Field")
	if ft == nil {
		r.undecided("R5.10", "modbus.Field", "type Field not found", "-")
		return
	}
	fieldT := ft.Type()
	takesDefinitions := func(fn *ssa.Function) bool {
		for _, p := range fn.Params[1:] {
			t := p.Type()
			if pt, ok := t.(*types.Pointer); ok {
				t = pt.Elem()
			}
			if types.Identical(t, fieldT) {
				return true
			}
			if sl, ok := t.Underlying().(*types.Slice); ok && types.Identical(sl.Elem(), fieldT) {
				return true
			}
			if st, ok := t.Underlying().(*types.Struct); ok {
				for i := 0; i < st.NumFields(); i++ {
					if st.Field(i).Embedded() && types.Identical(st.Field(i).Type(), fieldT) {
						return true
					}
				}
			}
		}
		return false
	}
	n := 0
	for _, fn := range c.allFuncs("") {
		if fn.Signature.Recv() == nil || fn.Parent() != nil || len(fn.Params) < 2 {
			continue
		}
		if nm, ok := deref(fn.Signature.Recv().Type()).(*types.Named); !ok || nm.Obj().Name() != "Builder" {
			continue
		}
		if !takesDefinitions(fn) {
			continue
		}
		n++
		r.instance("R5.10", 1)
		id := fnID(fn)
		r.funcs[id] = true
		bad := ""
		for _, b := range fn.Blocks {
			for _, in := range b.Instrs {
				st, ok := in.(*ssa.Store)
				if !ok {
					continue
				}
				if fa, ok := st.Addr.(*ssa.FieldAddr); ok && types.Identical(deref(fa.X.Type()), fieldT) {
					bad = fmt.Sprintf("stores to Field.%s at %s", fieldVarOf(fa).Name(), c.pos(st.Pos()))
				}
			}
		}
		if bad == "" {
			r.ok("R5.10", id, "the caller's field definitions are stored as given (no field of a Field value is written)", c.pos(fn.Pos()), true)
		} else {
			r.fail("R5.10", id, "a definition handed in by the caller is rewritten before it is stored: the field reported later is not the caller's definition (and may be read from another device)", c.pos(fn.Pos()), bad, "definition-rewritten")
		}
	}
	if n == 0 {
		r.undecided("R5.10", "modbus.Builder", "no Builder method accepts field definitions", "-")
	}
}

// builderReadOnly: building requests is read-only on the builder. (1) nothing reachable from a
// request-building method (a method of Builder returning []BuilderRequest) writes memory derived
// from the builder's field list — a store through an element pointer, an append or copy into a
// slice sharing its backing array, a hand-over to code that may reorder it; (2) no such method
// stores through its receiver or to package-level state (a cache of built requests would have to).
// Either would make a second build on the same builder depend on the first.
func builderReadOnly(c *Ctx, r *Report, rule string) {
	sp := c.pkg("")
	bt := sp.Type("Builder").Type().(*types.Named)
	st := bt.Underlying().(*types.Struct)
	var roots []*ssa.Function
	for _, m := range methodsOf(c, "", "Builder") {
		res := m.Signature.Results()
		if res.Len() == 0 {
			continue
		}
		if sl, ok := res.At(0).Type().Underlying().(*types.Slice); ok {
			if n, ok := sl.Elem().(*types.Named); ok && n.Obj().Name() == "BuilderRequest" {
				roots = append(roots, m)
			}
		}
	}
	if len(roots) == 0 {
		r.undecided(rule, "modbus.Builder", "no request-building method (returning []BuilderRequest) found", "-")
		return
	}
	sources := map[*types.Var]bool{}
	var listT types.Type
	for i := 0; i < st.NumFields(); i++ {
		if _, ok := st.Field(i).Type().Underlying().(*types.Slice); ok {
			sources[st.Field(i)] = true
			listT = st.Field(i).Type()
		}
	}
	seq := func(t types.Type) bool {
		_, isSlice := t.Underlying().(*types.Slice)
		return isSlice && listT != nil && types.Identical(t.Underlying(), listT.Underlying())
	}
	t := runTaint(c, roots, sources, seq, "the builder's field list")
	r.instance(rule, len(roots))
	// (3) the definitions themselves are not edited on the way: no function on the build path stores
	// to a field of a Field value (a normalising Validate would change the copy that gets batched)
	if ft := sp.Type("Field"); ft != nil {
		for fn := range t.funcs {
			for _, b := range fn.Blocks {
				for _, in := range b.Instrs {
					st, ok := in.(*ssa.Store)
					if !ok {
						continue
					}
					fa, ok := st.Addr.(*ssa.FieldAddr)
					if !ok || !types.Identical(deref(fa.X.Type()), ft.Type()) {
						continue
					}
					// building a Field in a local composite literal is construction, not editing
					if al, isAlloc := fa.X.(*ssa.Alloc); isAlloc && al.Comment == "complit" {
						continue
					}
					t.add(fn, "R13.2", "store to field "+fieldVarOf(fa).Name()+" of a Field definition while building requests", st.Pos(), "field-definition-edited:"+fieldVarOf(fa).Name())
				}
			}
		}
	}
	// (4) no element address of a slice is kept while that slice can still grow (stale pointer after
	// append reallocates: what is added through it is lost)
	for fn := range t.funcs {
		for _, in := range stalePointers(fn) {
			t.add(fn, "R13.2", "the address of a slice element is kept while the slice can still be extended by append (after a reallocation it points into the old backing array)", in.Pos(), "stale-element-pointer")
		}
	}
	seen := map[string]bool{}
	for _, f := range t.findings {
		if strings.HasPrefix(f.sig, "param-store:") {
			// only state kept in the builder itself matters; objects the build creates (slot
			// groups, batches) are modified through their own pointer receivers at will
			inBuilder := false
			for _, p := range f.fn.Params {
				if strings.HasSuffix(f.sig, "."+p.Name()) && types.Identical(deref(p.Type()), bt) {
					inBuilder = true
				}
			}
			if !inBuilder {
				continue
			}
		}
		k := f.rule + f.sig + fnID(f.fn)
		if seen[k] {
			continue
		}
		seen[k] = true
		r.funcs[fnID(f.fn)] = true
		r.fail(rule, fnID(f.fn), f.what+" — a later build on the same builder no longer sees the fields as they were added", c.pos(f.pos), "", f.sig)
	}
	if len(seen) == 0 {
		r.ok(rule, "modbus.Builder", fmt.Sprintf("the %d request-building methods (%d functions reachable) neither write the builder's field list nor keep state in the builder or in package-level variables", len(roots), len(t.funcs)), "-", true)
	}
}

// c06Comparator: R6.9 — the batching loop walks the slots in the order sort.Sort leaves them in
// and only ever extends a batch upwards, so the comparator handed to sort must be the ascending
// numeric order of the slot address for all 65536 addresses: Less(i,j) implies
// a[i].F <= a[j].F, and a[i].F < a[j].F implies Less(i,j), over the integers, for one unsigned
// field F of the slot that the batching function itself reads (abstract interpretation of the
// comparator with rule W on its narrow arithmetic; ties may be broken in any way).
func c06Comparator(c *Ctx, r *Report) {
	bt := c.fnMust("", "batchToRequests")
	var less, cmp3 *ssa.Function
	var sortCall ssa.Instruction
	for _, b := range bt.Blocks {
		for _, in := range b.Instrs {
			call, ok := in.(*ssa.Call)
			if !ok {
				continue
			}
			sc := call.Common().StaticCallee()
			if sc == nil {
				continue
			}
			if o := sc.Origin(); o != nil && o.Pkg != nil && o.Pkg.Pkg.Path() == "slices" && (o.Name() == "SortFunc" || o.Name() == "SortStableFunc") && len(call.Common().Args) == 2 {
				// three-way comparator over the elements themselves
				fv := call.Common().Args[1]
				if ct, ok := fv.(*ssa.ChangeType); ok {
					fv = ct.X
				}
				switch f := fv.(type) {
				case *ssa.Function:
					cmp3, sortCall = f, in
				case *ssa.MakeClosure:
					cmp3, _ = f.Fn.(*ssa.Function)
					sortCall = in
				}
				continue
			}
			if sc.Pkg == nil || sc.Pkg.Pkg.Path() != "sort" {
				continue
			}
			switch sc.Name() {
			case "Sort", "Stable":
				if mi, ok := call.Common().Args[0].(*ssa.MakeInterface); ok {
					ms := c.prog.MethodSets.MethodSet(mi.X.Type())
					for i := 0; i < ms.Len(); i++ {
						if ms.At(i).Obj().Name() == "Less" {
							less, sortCall = c.prog.MethodValue(ms.At(i)), in
						}
					}
				}
			case "Slice", "SliceStable":
				if mc, ok := call.Common().Args[1].(*ssa.MakeClosure); ok {
					less, _ = mc.Fn.(*ssa.Function)
					sortCall = in
				}
			}
		}
	}
	r.instance("R6.9", 1)
	id := fnID(bt)
	if cmp3 != nil && cmp3.Blocks != nil && less == nil {
		c06Comparator3(c, r, bt, cmp3, sortCall)
		return
	}
	if less == nil || less.Blocks == nil {
		r.undecided("R6.9", id, "the batching function does not sort the slots with a comparator of this module (sort.Sort / sort.Slice)", c.pos(bt.Pos()))
		return
	}
	id = fnID(less)
	r.funcs[id] = true
	an, fr := analyse(c, less)
	_ = an
	np := len(less.Params)
	if np < 2 {
		r.undecided("R6.9", id, "comparator without two index parameters", c.pos(less.Pos()))
		return
	}
	ii, ok1 := fr.vals[less.Params[np-2]].(AInt)
	jj, ok2 := fr.vals[less.Params[np-1]].(AInt)
	// the sorted slice: the receiver, or the captured slice of a closure
	var sl ASlice
	okS := false
	if np == 3 {
		sl, okS = fr.vals[less.Params[0]].(ASlice)
	} else if len(less.FreeVars) >= 1 {
		sl, okS = fr.vals[less.FreeVars[0]].(ASlice)
	}
	if !ok1 || !ok2 || !okS {
		r.undecided("R6.9", id, "comparator's slice or indices not interpretable", c.pos(less.Pos()))
		return
	}
	st, isStruct := sl.elem.Underlying().(*types.Struct)
	if !isStruct {
		r.undecided("R6.9", id, "sorted elements are not structs", c.pos(less.Pos()))
		return
	}
	// fields of the slot type that the batching function reads
	readInBatch := map[int]bool{}
	for _, b := range bt.Blocks {
		for _, in := range b.Instrs {
			switch x := in.(type) {
			case *ssa.FieldAddr:
				if types.Identical(deref(x.X.Type()), sl.elem) {
					readInBatch[x.Field] = true
				}
			case *ssa.Field:
				if types.Identical(x.X.Type(), sl.elem) {
					readInBatch[x.Field] = true
				}
			}
		}
	}
	okAny, detail := false, ""
	for k := 0; k < st.NumFields(); k++ {
		bb, isB := st.Field(k).Type().Underlying().(*types.Basic)
		if !isB || bb.Info()&types.IsUnsigned == 0 || !readInBatch[k] {
			continue
		}
		key := func(idx Aff) Aff {
			v := an.u.symbolic(fmt.Sprintf("%s[%s]%s", sl.root.key, sl.off.add(idx).String(), pathStr("", k)), st.Field(k).Type())
			return v.(AInt).a
		}
		xi, xj := key(ii.a), key(jj.a)
		good := len(fr.returns) > 0
		for _, rs := range fr.returns {
			val, isBool := rs.vals[0].(ABool)
			if !isBool {
				good = false
				continue
			}
			// true although a[i].F > a[j].F ?
			for _, cj := range dnfAnd(rs.state, val.f.dnf(false)) {
				if !infeasible(cj.with(atomGT(xi, xj))) {
					good = false
					detail = fmt.Sprintf("field %s: can report i before j although %s > %s: %s", st.Field(k).Name(), xi.String(), xj.String(), truncate(cj.String(), 200))
				}
			}
			// false although a[i].F < a[j].F ?
			for _, cj := range dnfAnd(rs.state, val.f.dnf(true)) {
				if !infeasible(cj.with(atomLT(xi, xj))) {
					good = false
					detail = fmt.Sprintf("field %s: can deny i before j although %s < %s: %s", st.Field(k).Name(), xi.String(), xj.String(), truncate(cj.String(), 200))
				}
			}
		}
		if good {
			okAny = true
			r.ok("R6.9", id, "the comparator given to sort is the ascending numeric order of slot field "+st.Field(k).Name()+" (which the batching loop reads) for every pair of values", c.pos(sortCall.Pos()), true)
			break
		}
	}
	// ... and what was sorted is what the batching loop walks: the slice handed to sort and the slice
	// whose elements the loop reads are the same variable (sorting a copy leaves the walk unsorted)
	if call, ok := sortCall.(*ssa.Call); ok && len(call.Common().Args) > 0 {
		sorted := call.Common().Args[0]
		for {
			switch x := sorted.(type) {
			case *ssa.MakeInterface:
				sorted = x.X
				continue
			case *ssa.ChangeType:
				sorted = x.X
				continue
			case *ssa.Convert:
				sorted = x.X
				continue
			}
			break
		}
		want := accessPath(sorted)
		walked, same := 0, 0
		for _, b := range bt.Blocks {
			if !blockReaches(b, b) {
				continue
			}
			for _, in := range b.Instrs {
				ia, ok := in.(*ssa.IndexAddr)
				if !ok {
					continue
				}
				sl, ok := ia.X.Type().Underlying().(*types.Slice)
				if !ok || !types.Identical(sl.Elem(), slElem(sortedElem(sorted))) {
					continue
				}
				walked++
				if ia.X == sorted || accessPath(ia.X) == want {
					same++
				}
			}
		}
		r.instance("R6.9", 1)
		if walked > 0 && same == walked {
			r.ok("R6.9", fnID(bt), "the batching loop walks the very slice that was sorted", c.pos(sortCall.Pos()), true)
		} else {
			r.fail("R6.9", fnID(bt), "the batching loop walks a slice other than the one handed to sort (a sorted copy leaves the walk in definition order)", c.pos(sortCall.Pos()), fmt.Sprintf("sorted %s; %d of %d element reads in loops use it", want, same, walked), "sorted-slice-not-walked")
		}
	}
	if !okAny {
		r.fail("R6.9", id, "the comparator given to sort is not the ascending numeric order of the slot address for all values: the batching loop can meet a lower address after a higher one", c.pos(less.Pos()), detail, "comparator-not-ascending")
	}
}

// c06Comparator3: R6.9 for slices.SortFunc / SortStableFunc: cmp(a, b) < 0 exactly when
// a.F < b.F over the integers for one unsigned slot field F the batching loop reads (then the
// order sort leaves is ascending in F). `return cmp.Compare(a.F, b.F)` is accepted by its
// standard-library contract; anything else is interpreted abstractly with rule W.
func c06Comparator3(c *Ctx, r *Report, bt, cmp3 *ssa.Function, sortCall ssa.Instruction) {
	id := fnID(cmp3)
	r.funcs[id] = true
	if len(cmp3.Params) != 2 {
		r.undecided("R6.9", id, "three-way comparator without two element parameters", c.pos(cmp3.Pos()))
		return
	}
	elem := cmp3.Params[0].Type()
	st, isStruct := elem.Underlying().(*types.Struct)
	if !isStruct {
		r.undecided("R6.9", id, "sorted elements are not structs", c.pos(cmp3.Pos()))
		return
	}
	readInBatch := map[int]bool{}
	for _, b := range bt.Blocks {
		for _, in := range b.Instrs {
			switch x := in.(type) {
			case *ssa.FieldAddr:
				if types.Identical(deref(x.X.Type()), elem) {
					readInBatch[x.Field] = true
				}
			case *ssa.Field:
				if types.Identical(x.X.Type(), elem) {
					readInBatch[x.Field] = true
				}
			}
		}
	}
	okAny, detail := false, ""
	// the library contract form: a single `return cmp.Compare(a.F, b.F)`
	if len(cmp3.Blocks) == 1 {
		if ret, ok := cmp3.Blocks[0].Instrs[len(cmp3.Blocks[0].Instrs)-1].(*ssa.Return); ok && len(ret.Results) == 1 {
			if call, ok := ret.Results[0].(*ssa.Call); ok {
				if sc := call.Common().StaticCallee(); sc != nil && sc.Origin() != nil && sc.Origin().Pkg != nil && sc.Origin().Pkg.Pkg.Path() == "cmp" && sc.Origin().Name() == "Compare" && len(call.Common().Args) == 2 {
					pa, ka, okA := fieldOfParam(call.Common().Args[0])
					pb, kb, okB := fieldOfParam(call.Common().Args[1])
					if okA && okB && pa == cmp3.Params[0] && pb == cmp3.Params[1] && ka == kb && readInBatch[ka] {
						if bb, isB := st.Field(ka).Type().Underlying().(*types.Basic); isB && bb.Info()&types.IsUnsigned != 0 {
							okAny = true
							r.ok("R6.9", id, "the comparator given to slices.SortFunc is cmp.Compare on slot field "+st.Field(ka).Name()+" (which the batching loop reads): ascending numeric order", c.pos(sortCall.Pos()), true)
						}
					}
				}
			}
		}
	}
	if !okAny {
		an, fr := analyse(c, cmp3)
		va, vb := fr.vals[cmp3.Params[0]], fr.vals[cmp3.Params[1]]
		for k := 0; k < st.NumFields() && !okAny; k++ {
			bb, isB := st.Field(k).Type().Underlying().(*types.Basic)
			if !isB || bb.Info()&types.IsUnsigned == 0 || !readInBatch[k] {
				continue
			}
			fa, okA := an.u.fieldOf(va, k).(AInt)
			fb, okB := an.u.fieldOf(vb, k).(AInt)
			if !okA || !okB {
				continue
			}
			xa, xb := fa.a, fb.a
			good := len(fr.returns) > 0
			for _, rs := range fr.returns {
				val, isInt := rs.vals[0].(AInt)
				if !isInt || len(val.conds) > 0 {
					good = false
					detail = "result of the comparator is not an exact integer expression (possible wrap-around): " + describeAV(rs.vals[0])
					continue
				}
				for _, cj := range rs.state {
					if !infeasible(cj.with(atomLT(val.a, affConst(0))).with(atomGE(xa, xb))) {
						good = false
						detail = fmt.Sprintf("field %s: can report a before b although %s >= %s: %s", st.Field(k).Name(), xa.String(), xb.String(), truncate(cj.String(), 200))
					}
					if !infeasible(cj.with(atomGE(val.a, affConst(0))).with(atomLT(xa, xb))) {
						good = false
						detail = fmt.Sprintf("field %s: can deny a before b although %s < %s: %s", st.Field(k).Name(), xa.String(), xb.String(), truncate(cj.String(), 200))
					}
				}
			}
			if good {
				okAny = true
				r.ok("R6.9", id, "the three-way comparator given to slices.SortFunc is negative exactly when slot field "+st.Field(k).Name()+" (which the batching loop reads) is smaller, for every pair of values", c.pos(sortCall.Pos()), true)
			}
		}
	}
	// what was sorted is what the batching loop walks
	if call, ok := sortCall.(*ssa.Call); ok {
		sorted := call.Common().Args[0]
		for {
			switch x := sorted.(type) {
			case *ssa.ChangeType:
				sorted = x.X
				continue
			case *ssa.Convert:
				sorted = x.X
				continue
			}
			break
		}
		want := accessPath(sorted)
		walked, same := 0, 0
		for _, b := range bt.Blocks {
			if !blockReaches(b, b) {
				continue
			}
			for _, in := range b.Instrs {
				ia, ok := in.(*ssa.IndexAddr)
				if !ok {
					continue
				}
				sl, ok := ia.X.Type().Underlying().(*types.Slice)
				if !ok || !types.Identical(sl.Elem(), elem) {
					continue
				}
				walked++
				if ia.X == sorted || accessPath(ia.X) == want {
					same++
				}
			}
		}
		r.instance("R6.9", 1)
		if walked > 0 && same == walked {
			r.ok("R6.9", fnID(bt), "the batching loop walks the very slice that was sorted", c.pos(sortCall.Pos()), true)
		} else {
			r.fail("R6.9", fnID(bt), "the batching loop walks a slice other than the one handed to sort (a sorted copy leaves the walk in definition order)", c.pos(sortCall.Pos()), fmt.Sprintf("sorted %s; %d of %d element reads in loops use it", want, same, walked), "sorted-slice-not-walked")
		}
	}
	if !okAny {
		r.fail("R6.9", id, "the comparator given to slices.SortFunc is not the ascending numeric order of the slot address for all values: the batching loop can meet a lower address after a higher one", c.pos(cmp3.Pos()), detail, "comparator-not-ascending")
	}
}

// fieldOfParam: v is field k of a struct-valued parameter, read directly (ssa.Field) or through
// the parameter's local spill copy (a local Alloc whose only store is the parameter).
func fieldOfParam(v ssa.Value) (*ssa.Parameter, int, bool) {
	switch x := v.(type) {
	case *ssa.Field:
		if p, ok := x.X.(*ssa.Parameter); ok {
			return p, x.Field, true
		}
	case *ssa.UnOp:
		if x.Op != token.MUL {
			return nil, 0, false
		}
		fa, ok := x.X.(*ssa.FieldAddr)
		if !ok {
			return nil, 0, false
		}
		al, ok := fa.X.(*ssa.Alloc)
		if !ok || al.Heap || al.Referrers() == nil {
			return nil, 0, false
		}
		var par *ssa.Parameter
		for _, ref := range *al.Referrers() {
			switch st := ref.(type) {
			case *ssa.Store:
				if st.Addr != al {
					return nil, 0, false
				}
				p, isP := st.Val.(*ssa.Parameter)
				if !isP || par != nil {
					return nil, 0, false
				}
				par = p
			case *ssa.FieldAddr:
				// reads of fields; a store through one of them would change the copy
				if st.Referrers() != nil {
					for _, r2 := range *st.Referrers() {
						if s2, isS := r2.(*ssa.Store); isS && s2.Addr == st {
							return nil, 0, false
						}
					}
				}
			case *ssa.DebugRef:
			default:
				return nil, 0, false
			}
		}
		if par != nil {
			return par, fa.Field, true
		}
	}
	return nil, 0, false
}

func sortedElem(v ssa.Value) types.Type { return v.Type() }

func slElem(t types.Type) types.Type {
	if sl, ok := t.Underlying().(*types.Slice); ok {
		return sl.Elem()
	}
	return t
}
