package main

// Loop coverage: "this indexed access visits every element 0..len-1 of the slice".

import (
	"golang.org/x/tools/go/ssa"
)

// naturalLoop returns the blocks of the natural loop with the given header.
func naturalLoop(hdr *ssa.BasicBlock) map[*ssa.BasicBlock]bool {
	loop := map[*ssa.BasicBlock]bool{hdr: true}
	var work []*ssa.BasicBlock
	for _, p := range hdr.Preds {
		if isBackEdge(p, hdr) && !loop[p] {
			loop[p] = true
			work = append(work, p)
		}
	}
	for len(work) > 0 {
		b := work[len(work)-1]
		work = work[:len(work)-1]
		for _, p := range b.Preds {
			if !loop[p] {
				loop[p] = true
				work = append(work, p)
			}
		}
	}
	return loop
}

// coversAll decides whether the element access ia (an index into slice s) is executed for
// every index 0..len(s)-1, once each, in increasing order: its index is driven by a loop
// header phi that starts so that the first index is 0, advances by exactly 1 per iteration,
// the loop body is entered iff index < len(s), and the only way out of the loop is the
// header test.
func coversAll(fr *Frame, ia *ssa.IndexAddr, s ASlice) (bool, string) {
	if !(s.off.isConst() && s.off.c == 0) {
		return false, "slice does not start at offset 0"
	}
	return coversIndex(fr, ia.Index, ia.Block(), s.ln)
}

// coversIndex: the access with index value idx, located in block blk, is executed for every
// index 0..n-1 once each in increasing order.
func coversIndex(fr *Frame, idx ssa.Value, blk *ssa.BasicBlock, n Aff, allowedExits ...*ssa.BasicBlock) (bool, string) {
	idxAI, ok := fr.intVal(idx)
	if !ok || len(idxAI.conds) != 0 {
		return false, "index is not an exact integer"
	}
	j := idxAI.a
	s := struct{ ln Aff }{n}
	ia := struct {
		Index ssa.Value
		blk   *ssa.BasicBlock
	}{idx, blk}
	// the phi driving the index
	var ph *ssa.Phi
	var find func(v ssa.Value, depth int)
	find = func(v ssa.Value, depth int) {
		if depth > 3 || ph != nil {
			return
		}
		switch x := v.(type) {
		case *ssa.Phi:
			ph = x
		case *ssa.BinOp:
			find(x.X, depth+1)
			find(x.Y, depth+1)
		case *ssa.Convert:
			find(x.X, depth+1)
		}
	}
	find(ia.Index, 0)
	if ph == nil {
		return false, "index is not driven by a loop counter"
	}
	hdr := ph.Block()
	pv, ok := fr.vals[ph].(AInt)
	if !ok || len(pv.a.terms) != 1 || pv.a.terms[0].k != 1 || pv.a.c != 0 {
		return false, "loop counter is not a plain symbol"
	}
	psym := pv.a.terms[0].s
	// any number of back edges (an `if` or `continue` in the body gives several), each of which
	// must advance the counter by exactly 1, and the access must lie on every path to each latch
	initOK, stepOK := false, false
	nInit, nBack := 0, 0
	for i, e := range ph.Edges {
		ev, ok := fr.intVal(e)
		if !ok || len(ev.conds) != 0 {
			return false, "loop counter edge is not exact"
		}
		if isBackEdge(hdr.Preds[i], hdr) {
			ok1 := ev.a.equal(pv.a.addc(1))
			if nBack == 0 {
				stepOK = ok1
			} else {
				stepOK = stepOK && ok1
			}
			nBack++
			if len(ph.Edges) > 2 && !(ia.blk == hdr || ia.blk.Dominates(hdr.Preds[i])) {
				return false, "the access is not on every path through the loop body"
			}
		} else {
			first := j.subst(psym, ev.a)
			ok1 := first.isConst() && first.c == 0
			if nInit == 0 {
				initOK = ok1
			} else {
				initOK = initOK && ok1
			}
			nInit++
		}
	}
	if !initOK {
		return false, "first index is not 0"
	}
	if !stepOK {
		return false, "counter does not advance by exactly 1"
	}
	iff, ok := hdr.Instrs[len(hdr.Instrs)-1].(*ssa.If)
	if !ok {
		return false, "loop header does not end in a test"
	}
	_ = iff
	loop := naturalLoop(hdr)
	if !loop[ia.blk] {
		return false, "access is outside the counter's loop"
	}
	var bodyIdx, exitIdx = -1, -1
	for i, sc := range hdr.Succs {
		if loop[sc] {
			bodyIdx = i
		} else {
			exitIdx = i
		}
	}
	if bodyIdx < 0 || exitIdx < 0 {
		return false, "loop header has no body/exit pair"
	}
	body := fr.edge[[2]int{hdr.Index, hdr.Succs[bodyIdx].Index}]
	exit := fr.edge[[2]int{hdr.Index, hdr.Succs[exitIdx].Index}]
	if !(body.entails(atomLT(j, s.ln)) && body.entails(atomGE(j, affConst(0)))) {
		return false, "body is entered for an index outside [0,len)"
	}
	if !exit.entails(atomGE(j, s.ln)) {
		return false, "loop can stop before the index reaches len"
	}
	for b := range loop {
		if b == hdr {
			continue
		}
		for _, sc := range b.Succs {
			if !loop[sc] {
				allowed := false
				for _, a := range allowedExits {
					if a == sc {
						allowed = true
					}
				}
				if !allowed {
					// an exit that can never be taken (a defensive check implied by the loop test)
					feasible := false
					for _, cj := range fr.edge[[2]int{b.Index, sc.Index}] {
						if !infeasible(cj) {
							feasible = true
						}
					}
					if feasible {
						return false, "loop has an exit other than its header test"
					}
				}
			}
		}
		if len(b.Succs) == 0 {
			return false, "loop body can return or panic"
		}
	}
	// the access must be executed in every iteration: its block dominates every latch
	for _, p := range hdr.Preds {
		if isBackEdge(p, hdr) && !ia.blk.Dominates(p) {
			return false, "access is skipped on some iterations"
		}
	}
	return true, ""
}
