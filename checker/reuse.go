package main

// Helpers to re-run a rule set of one property as a necessary condition of another and
// re-label its obligations.

import (
	"fmt"
	"go/types"
	"strings"

	"golang.org/x/tools/go/ssa"
)

// copyItems copies the items of tmp whose rule is fromRule (and whose text contains one of
// the given fragments, if any) into r under newRule; returns how many were copied.
func copyItems(tmp, r *Report, fromRule, newRule string, contains ...string) int {
	n := 0
	for _, it := range tmp.items {
		if it.Rule != fromRule {
			continue
		}
		if len(contains) > 0 {
			hit := false
			for _, f := range contains {
				if strings.Contains(it.What, f) {
					hit = true
				}
			}
			if !hit {
				continue
			}
		}
		it.Rule = newRule
		r.add(it)
		n++
	}
	return n
}

// clientLoopItems runs the read-loop rules (C07 R7.2/R7.3) for both clients and copies the
// selected ones.
func clientLoopItems(c *Ctx, r *Report, fromRule, newRule string, contains ...string) {
	for _, spec := range []struct {
		name   string
		serial bool
	}{{"Client", false}, {"SerialClient", true}} {
		ci := analyseClient(c, spec.name, spec.serial)
		tmp := newReport(r.Prop, r.Tier)
		c07Loop(c, tmp, ci, false)
		n := copyItems(tmp, r, fromRule, newRule, contains...)
		r.instance(newRule, 1)
		r.funcs[fnID(ci.do)] = true
		if n == 0 {
			r.undecided(newRule, fnID(ci.do), "read-loop rule produced no obligation", c.pos(ci.do.Pos()))
		}
	}
}

// installedFn is a function a client constructor leaves in parseResponseFunc/asProtocolErrorFunc.
type installedFn struct {
	ctor   *ssa.Function
	client string
	parse  *ssa.Function // nil when not static (user supplied)
	asErr  *ssa.Function
	rtu    bool
	pos    string
	// every library function either field may hold when the constructor returns
	mayParse, mayAsErr []*ssa.Function
}

// installedFns evaluates every constructor of Client / SerialClient and reads the two function
// fields of the object it returns.
func installedFns(c *Ctx) []installedFn {
	var out []installedFn
	for _, spec := range []struct {
		name   string
		serial bool
	}{{"Client", false}, {"SerialClient", true}} {
		ci := analyseClient(c, spec.name, spec.serial)
		for _, fn := range c.allFuncs("") {
			if fn.Signature.Recv() != nil || fn.Signature.Results().Len() != 1 || fn.Parent() != nil {
				continue
			}
			p, ok := fn.Signature.Results().At(0).Type().(*types.Pointer)
			if !ok || !types.Identical(p.Elem(), ci.tn) {
				continue
			}
			an := &Analysis{ctx: c, u: newUniverse(), top: fn}
			fr := an.newFrame(fn, nil, nil)
			fr.run(dnfTrue())
			for _, rs := range fr.returns {
				var obj *Obj
				switch v := rs.vals[0].(type) {
				case APtr:
					obj = v.obj
				case ARef:
					if p, ok := v.inner.(APtr); ok {
						obj = p.obj
					}
				}
				if obj == nil {
					continue
				}
				obj.escaped = false // only constructors store to these unexported fields (C12 R12.1)
				in := installedFn{ctor: fn, client: spec.name, pos: c.pos(rs.instr.Pos())}
				if pf, ok := fr.loadPath(obj, pathStr("", ci.parse), ci.st.Field(ci.parse).Type(), rs.instr).(AFunc); ok {
					in.parse = pf.fn
					in.rtu = reachesRTUParser(c, pf.fn)
				}
				if ef, ok := fr.loadPath(obj, pathStr("", ci.asErr), ci.st.Field(ci.asErr).Type(), rs.instr).(AFunc); ok {
					in.asErr = ef.fn
				}
				collect := func(field int) []*ssa.Function {
					var fs []*ssa.Function
					if vs, ok := fr.mayLoad(obj, pathStr("", field), rs.instr); ok {
						for _, v := range vs {
							if af, ok := v.(AFunc); ok {
								fs = append(fs, af.fn)
							}
						}
					}
					return fs
				}
				in.mayParse, in.mayAsErr = collect(ci.parse), collect(ci.asErr)
				out = append(out, in)
			}
		}
	}
	return out
}

// installedRecognisers checks, for every constructor that installs a library parser, the
// recogniser installed next to it (in the parser's framing; CRC-aware for RTU).
func installedRecognisers(c *Ctx, r *Report, rule string, crc *ssa.Function, skip map[string]bool) {
	done := map[string]bool{}
	for k := range skip {
		done[k] = true
	}
	for _, in := range installedFns(c) {
		// whatever the caller configures, a constructor must not be able to leave library functions
		// of both framings installed side by side (an RTU parser next to the TCP recogniser)
		fam := map[string]string{}
		for _, f := range append(append([]*ssa.Function{}, in.mayParse...), in.mayAsErr...) {
			if f.Pkg != nil && strings.HasSuffix(f.Pkg.Pkg.Path(), "/packet") {
				fam[framingOf(f)] = f.Name()
			}
		}
		if len(fam) > 1 {
			r.instance(rule, 1)
			r.fail(rule, fnID(in.ctor), fmt.Sprintf("this constructor can return a client holding library functions of both framings (%s and %s): which pair is installed depends on the configuration", fam["tcp"], fam["rtu"]), in.pos, "", "framing-mix")
			continue
		}
		if in.parse == nil {
			continue // user-supplied functions: outside the property
		}
		if in.asErr == nil {
			r.instance(rule, 1)
			r.fail(rule, fnID(in.ctor), "this constructor installs the library parser "+in.parse.Name()+" but can leave a recogniser of unknown origin (the default of the other framing, or a user function) next to it", in.pos, "", "recogniser-not-static")
			continue
		}
		if k := fmt.Sprintf("%s/%v", in.asErr.String(), in.rtu); !done[k] {
			done[k] = true
			c02RecogniserCRC(c, r, rule, in.asErr, crcIf(crc, in.rtu), !in.rtu, false)
		}
	}
}

// framingOf classifies a packet-package function by what it (transitively, statically) builds:
// "tcp" if it allocates a struct carrying a transaction id (MBAP framing), else "rtu".
func framingOf(fn *ssa.Function) string {
	seen := map[*ssa.Function]bool{}
	var walk func(f *ssa.Function, depth int) bool
	walk = func(f *ssa.Function, depth int) bool {
		if f == nil || seen[f] || f.Blocks == nil || depth > 4 {
			return false
		}
		seen[f] = true
		for _, b := range f.Blocks {
			for _, in := range b.Instrs {
				if al, ok := in.(*ssa.Alloc); ok {
					if st, ok := deref(al.Type()).Underlying().(*types.Struct); ok && hasTransactionID(st, 0) {
						return true
					}
				}
				if call, ok := in.(ssa.CallInstruction); ok {
					if walk(call.Common().StaticCallee(), depth+1) {
						return true
					}
				}
			}
		}
		return false
	}
	if walk(fn, 0) {
		return "tcp"
	}
	return "rtu"
}

func hasTransactionID(st *types.Struct, depth int) bool {
	for i := 0; i < st.NumFields(); i++ {
		if st.Field(i).Name() == "TransactionID" {
			return true
		}
		if s2, ok := st.Field(i).Type().Underlying().(*types.Struct); ok && depth < 2 && hasTransactionID(s2, depth+1) {
			return true
		}
	}
	return false
}

// thinTarget follows "thin wrappers": a function whose body does nothing but call one other
// function of the same package with exactly its own parameters, in order, and return that
// call's results. The rule then examines the callee, where the code lives. Applied up to
// two levels.
func thinTarget(fn *ssa.Function) *ssa.Function {
	for depth := 0; depth < 2; depth++ {
		if fn == nil || len(fn.Blocks) != 1 {
			return fn
		}
		var call *ssa.Call
		ok := true
		for _, in := range fn.Blocks[0].Instrs {
			switch x := in.(type) {
			case *ssa.Call:
				if call != nil {
					ok = false
				}
				call = x
			case *ssa.Extract, *ssa.Return, *ssa.DebugRef:
			case *ssa.UnOp:
				// load of a spilled parameter (value receivers)
			case *ssa.Alloc, *ssa.Store:
				// parameter spill
			default:
				ok = false
			}
		}
		if !ok || call == nil {
			return fn
		}
		callee := call.Common().StaticCallee()
		if callee == nil || callee.Pkg != fn.Pkg || callee.Blocks == nil || len(call.Common().Args) > len(fn.Params) {
			return fn
		}
		// the arguments are the wrapper's own parameters, in order (a parameter the body does not need
		// may be dropped)
		next := 0
		for _, a := range call.Common().Args {
			v := a
			if u, isU := v.(*ssa.UnOp); isU {
				// *(&param) for spilled parameters
				if _, isAl := u.X.(*ssa.Alloc); isAl {
					next++
					continue
				}
			}
			found := false
			for next < len(fn.Params) {
				if v == ssa.Value(fn.Params[next]) {
					found = true
					next++
					break
				}
				next++
			}
			if !found {
				return fn
			}
		}
		fn = callee
	}
	return fn
}

// retSite is a return site together with the frame it belongs to.
type retSite struct {
	fr *Frame
	rs *ReturnSite
}

// expandedReturns lists the return sites of fr, replacing a return that merely forwards the
// results of a call to a function of the same package (inlined as a child frame) by that
// callee's own return sites, whose path conditions are not yet merged. Two levels.
func expandedReturns(fr *Frame, depth int) []retSite {
	var out []retSite
	for i := range fr.returns {
		rs := &fr.returns[i]
		var fwd *Frame
		if depth < 2 && len(rs.instr.Results) > 0 {
			// all results are extracts of (or the value of) one call instruction
			var call *ssa.Call
			ok := true
			for k, rv := range rs.instr.Results {
				switch x := rv.(type) {
				case *ssa.Extract:
					cl, isC := x.Tuple.(*ssa.Call)
					if !isC || x.Index != k || (call != nil && call != cl) {
						ok = false
					}
					call = cl
				case *ssa.Call:
					if len(rs.instr.Results) != 1 {
						ok = false
					}
					call = x
				default:
					ok = false
				}
			}
			if ok && call != nil {
				if ch := fr.child[call]; ch != nil && ch.fn.Pkg == fr.fn.Pkg {
					fwd = ch
				}
			}
		}
		if fwd != nil {
			out = append(out, expandedReturns(fwd, depth+1)...)
		} else {
			out = append(out, retSite{fr, rs})
		}
	}
	return out
}

// calleeOf: the function a call instruction calls, seeing through method values (closures over the
// receiver) and method expressions (thunks).
func calleeOf(ci ssa.CallInstruction) *ssa.Function {
	sc := ci.Common().StaticCallee()
	for i := 0; i < 2 && sc != nil; i++ {
		if !strings.HasPrefix(sc.Synthetic, "bound method wrapper") && !strings.HasPrefix(sc.Synthetic, "thunk for") {
			break
		}
		inner := soleCall(sc)
		if inner == nil || inner.Common().StaticCallee() == nil {
			break
		}
		sc = inner.Common().StaticCallee()
	}
	return sc
}
