package main

// Helpers to re-run a rule set of one property as a necessary condition of another and
// re-label its obligations.

import (
	"fmt"
	"go/types"
	"strings"

	"golang.org/x/tools/go/ssa"
)

// copyItems copies the items of tmp whose rule is fromRule (and whose text contains one of
// the given fragments, if any) into r under newRule; returns how many were copied.
func copyItems(tmp, r *Report, fromRule, newRule string, contains ...string) int {
	n := 0
	for _, it := range tmp.items {
		if it.Rule != fromRule {
			continue
		}
		if len(contains) > 0 {
			hit := false
			for _, f := range contains {
				if strings.Contains(it.What, f) {
					hit = true
				}
			}
			if !hit {
				continue
			}
		}
		it.Rule = newRule
		r.add(it)
		n++
	}
	return n
}

// clientLoopItems runs the read-loop rules (C07 R7.2/R7.3) for both clients and copies the
// selected ones.
func clientLoopItems(c *Ctx, r *Report, fromRule, newRule string, contains ...string) {
	for _, spec := range []struct {
		name   string
		serial bool
	}{{"Client", false}, {"SerialClient", true}} {
		ci := analyseClient(c, spec.name, spec.serial)
		tmp := newReport(r.Prop, r.Tier)
		c07Loop(c, tmp, ci, false)
		n := copyItems(tmp, r, fromRule, newRule, contains...)
		r.instance(newRule, 1)
		r.funcs[fnID(ci.do)] = true
		if n == 0 {
			r.undecided(newRule, fnID(ci.do), "read-loop rule produced no obligation", c.pos(ci.do.Pos()))
		}
	}
}

// installedFn is a function a client constructor leaves in parseResponseFunc/asProtocolErrorFunc.
type installedFn struct {
	ctor   *ssa.Function
	client string
	parse  *ssa.Function // nil when not static (user supplied)
	asErr  *ssa.Function
	rtu    bool
	pos    string
}

// installedFns evaluates every constructor of Client / SerialClient and reads the two function
// fields of the object it returns.
func installedFns(c *Ctx) []installedFn {
	var out []installedFn
	for _, spec := range []struct {
		name   string
		serial bool
	}{{"Client", false}, {"SerialClient", true}} {
		ci := analyseClient(c, spec.name, spec.serial)
		for _, fn := range c.allFuncs("") {
			if fn.Signature.Recv() != nil || fn.Signature.Results().Len() != 1 || fn.Parent() != nil {
				continue
			}
			p, ok := fn.Signature.Results().At(0).Type().(*types.Pointer)
			if !ok || !types.Identical(p.Elem(), ci.tn) {
				continue
			}
			an := &Analysis{ctx: c, u: newUniverse(), top: fn}
			fr := an.newFrame(fn, nil, nil)
			fr.run(dnfTrue())
			for _, rs := range fr.returns {
				var obj *Obj
				switch v := rs.vals[0].(type) {
				case APtr:
					obj = v.obj
				case ARef:
					if p, ok := v.inner.(APtr); ok {
						obj = p.obj
					}
				}
				if obj == nil {
					continue
				}
				obj.escaped = false // only constructors store to these unexported fields (C12 R12.1)
				in := installedFn{ctor: fn, client: spec.name, pos: c.pos(rs.instr.Pos())}
				if pf, ok := fr.loadPath(obj, pathStr("", ci.parse), ci.st.Field(ci.parse).Type(), rs.instr).(AFunc); ok {
					in.parse = pf.fn
					in.rtu = reachesRTUParser(c, pf.fn)
				}
				if ef, ok := fr.loadPath(obj, pathStr("", ci.asErr), ci.st.Field(ci.asErr).Type(), rs.instr).(AFunc); ok {
					in.asErr = ef.fn
				}
				out = append(out, in)
			}
		}
	}
	return out
}

// installedRecognisers checks, for every constructor that installs a library parser, the
// recogniser installed next to it (in the parser's framing; CRC-aware for RTU).
func installedRecognisers(c *Ctx, r *Report, rule string, crc *ssa.Function, skip map[string]bool) {
	done := map[string]bool{}
	for k := range skip {
		done[k] = true
	}
	for _, in := range installedFns(c) {
		if in.parse == nil {
			continue // user-supplied functions: outside the property
		}
		if in.asErr == nil {
			r.instance(rule, 1)
			r.fail(rule, fnID(in.ctor), "this constructor installs the library parser "+in.parse.Name()+" but can leave a recogniser of unknown origin (the default of the other framing, or a user function) next to it", in.pos, "", "recogniser-not-static")
			continue
		}
		if k := fmt.Sprintf("%s/%v", in.asErr.String(), in.rtu); !done[k] {
			done[k] = true
			c02RecogniserCRC(c, r, rule, in.asErr, crcIf(crc, in.rtu), !in.rtu, false)
		}
	}
}
