package main

// Helpers to re-run a rule set of one property as a necessary condition of another and
// re-label its obligations.

import "strings"

// copyItems copies the items of tmp whose rule is fromRule (and whose text contains one of
// the given fragments, if any) into r under newRule; returns how many were copied.
func copyItems(tmp, r *Report, fromRule, newRule string, contains ...string) int {
	n := 0
	for _, it := range tmp.items {
		if it.Rule != fromRule {
			continue
		}
		if len(contains) > 0 {
			hit := false
			for _, f := range contains {
				if strings.Contains(it.What, f) {
					hit = true
				}
			}
			if !hit {
				continue
			}
		}
		it.Rule = newRule
		r.add(it)
		n++
	}
	return n
}

// clientLoopItems runs the read-loop rules (C07 R7.2/R7.3) for both clients and copies the
// selected ones.
func clientLoopItems(c *Ctx, r *Report, fromRule, newRule string, contains ...string) {
	for _, spec := range []struct {
		name   string
		serial bool
	}{{"Client", false}, {"SerialClient", true}} {
		ci := analyseClient(c, spec.name, spec.serial)
		tmp := newReport(r.Prop, r.Tier)
		c07Loop(c, tmp, ci, false)
		n := copyItems(tmp, r, fromRule, newRule, contains...)
		r.instance(newRule, 1)
		r.funcs[fnID(ci.do)] = true
		if n == 0 {
			r.undecided(newRule, fnID(ci.do), "read-loop rule produced no obligation", c.pos(ci.do.Pos()))
		}
	}
}
