#!/bin/bash
# usage: try_patch.sh <props> <patch.diff> [-R]
# Copies /repo to a scratch dir outside /repo and /verif, applies the patch (or reverses
# it with -R), runs the given property checks against the copy and removes the copy.
# Evidence of these runs goes to a scratch dir too (never /verif/evidence).
set -u
props="$1"; patch="$(readlink -f "$2")"; rev="${3:-}"
export GOFLAGS=-mod=mod GOPROXY=off GOSUMDB=off GOTOOLCHAIN=local; unset GOWORK
d=$(mktemp -d /tmp/mbtry.XXXXXX)
trap 'rm -rf "$d"' EXIT
rsync -a --exclude .git /repo/ "$d/repo/"
( cd "$d/repo" && git init -q . 2>/dev/null && git apply $rev "$patch" ) || { echo "PATCH-FAILED $patch"; exit 3; }
rm -rf "$d/repo/.git"
"${MBCHECK:-/verif/bin/mbcheck}" -repo "$d/repo" -verif /verif -out "$d/ev" -nocontrols -p "$props"
echo "exit=$?"
