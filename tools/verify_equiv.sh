#!/bin/bash
# verify_equiv.sh <dir-with-_rf> <name>   e.g. /tmp/seed/rf7-client y-client
# For each _rf/N/patch.diff: apply to a scratch copy of /repo, build, vet, run the unedited
# suite; on success store it as mutants/equiv/<name>-N.diff. The scratch copy is removed.
set -u
export GOFLAGS=-mod=mod GOPROXY=off GOSUMDB=off GOTOOLCHAIN=local; unset GOWORK
src="$1"; name="$2"
for n in 1 2 3 4 5 6; do
  p="$src/_rf/$n/patch.diff"
  [ -s "$p" ] || { echo "$name-$n: no patch"; continue; }
  d=$(mktemp -d /tmp/mbeq.XXXXXX)
  rsync -a --exclude .git /repo/ "$d/repo/"
  if ! (cd "$d/repo" && patch -p1 -s < "$p") ; then echo "$name-$n: does not apply"; rm -rf "$d"; continue; fi
  if (cd "$d/repo" && go build ./... && go vet ./... >/dev/null 2>&1 && go test -vet=off -count=1 ./... >/dev/null 2>&1); then
    cp "$p" "/verif/mutants/equiv/$name-$n.diff"; echo "$name-$n: ok"
  else
    echo "$name-$n: build/vet/test FAILED"
  fi
  rm -rf "$d"
done
