#!/usr/bin/env python3
"""Generates /verif/MANIFEST.json from the table below (one entry per claimed property)."""
import json, os

HERE = os.path.dirname(os.path.dirname(os.path.abspath(__file__)))
props = [json.loads(l)["id"] for l in open(os.path.join(HERE, "properties.jsonl"))]

ENGINE_NOTE = ("Trusted base: go/packages + go/types + go/ssa (x/tools v0.29.0) as the model of the source; the checker's own "
               "abstract domain (linear facts in DNF, Fourier-Motzkin entailment with integer tightening, rule W for narrow "
               "arithmetic); slice lengths < 2^31, 64-bit int; no unsafe/reflect in the library (asserted at load). "
               "Every run re-analyses /repo's working tree; positive controls under checker/testdata/controls must fire on every run.")

claimed = {
 "C01": dict(
  technique="layout extraction by abstract interpretation of Bytes() under the constructor's success state, compared with a specification table; derived-pointer (taint) analysis of the packet types' own methods",
  text=("Decides for all field values: the 20 request encoders write exactly the specified ADU layout without gap or overlap "
        "(R1.1), constructors accept only quantities inside the specification's limits with payload length tied to the quantity "
        "(R1.2), frames fit 260/256 bytes (R1.3), coil j is bit j mod 8 of byte j div 8 for every j (R1.4), no narrow arithmetic "
        "wraps (R1.W). FC16/FC23 constructor limits of 124 are known findings."
        " R1.5: protocol id bytes are the constant 0 for any struct contents."
        " R1.5 also: transaction id bytes are the struct's own for any contents."
        " R1.6: the construction/encoding path uses no package-level variable that changes after initialisation (shared-state rule; locks, write-only atomics, sync.Once and private pool objects exempt)."
        " R1.7: no method of a request type changes the request it is called on (receiver stores, writes into its own byte fields)."),
  note=ENGINE_NOTE + " The specification table in checker/spec.go is the oracle; the random transaction id is unconstrained.",
  ref="DESIGN.md §3 C01"),
 "C02": dict(
  technique="symbolic round trip encode∘parse = id over a symbolic frame (parser read map composed with encoder write map); derived-pointer (taint) analysis of the packet types' own methods",
  text=("For every well-formed response frame of the ten functions in both framings: the parser's result, fed to Bytes(), "
        "reproduces the frame segment by segment (R2.1); byte-counted responses are accepted only with consistent length (R2.2); "
        "exception frames are recognised exactly and carry unit/function/code (R2.3); dispatchers agree with parsers (R2.4)."
        " Also: installed recognisers (R2.3), recogniser sees everything received (R2.5), acceptance of every well-formed reply (R2.6)."
        " Also R2.7 (dispatchers never return nil,nil) and the framing-mix rule on constructors."
        " R2.6 also on the dispatchers (no well-formed size refused before the per-function parser); R2.8 shared-state rule for parsers, recognisers and re-encoding."
        " R2.4 whole-input clause; R2.9 the client parses exactly what it received."
        " R2.3 also on every reply dispatcher: an exception-length frame with bit 7 set comes back as the typed exception (or the CRC failure), never another error."
        " R2.10 (= R13.4): no method of a reply type or of Registers writes the payload."),
  note=ENGINE_NOTE + " Premises are printed in evidence (protocol id 0, MBAP length = len-6, function byte = case constant, legal FC5 value, fixed-size replies have their length, FC17 within one ADU).",
  ref="DESIGN.md §3 C02"),
 "C03": dict(
  technique="write-map extraction with CRC16 uninterpreted; dominance of the CRC equality in the verifying parsers; loop coverage of the checksum's input",
  text=("Decides that every RTU frame emitted ends with CRC16(buf[0:L-2]) low byte first with no later write into the body "
        "(R3.1), that the CRC-verifying entry points reach the inner parser only under trailer == CRC16(data[0:len-2]) and reject "
        "nothing else (R3.2), and that CRC16 reads every input byte (R3.0, a necessary condition of clause 1). That CRC16's "
        "arithmetic equals the Modbus polynomial for every byte string is NOT decided (needs execution or a proof of the loop)."
        " Also: CRC range for arbitrary struct contents (R3.1), RTU clients install CRC-verifying functions (R3.3)."
        " R3.4: checksum constants 0xFFFF / 0xA001 or an equal 256-entry table (constants only)."
        " R3.5: shared-state rule for CRC16 and its callers."
        " R3.0 on the whole argument (no clamped view)."
        " R3.4 also: the routine returns 0xFFFF for the empty input. R3.6: outside package packet nothing writes into an encoded frame."),
  note=ENGINE_NOTE + " CRC16 is an uninterpreted function in R3.1/R3.2.",
  ref="DESIGN.md §3 C03"),
 "C04": dict(
  technique="abstract interpretation of Registers methods under the constructor's invariant; SSA pattern extraction for layout/decode tables",
  text=("Decides, for every window position in the 16-bit address space, every address and string length: no accessor indexes "
        "outside the payload or panics (R4.1), success returns imply the access lies in the window and error returns are "
        "impossible for in-window accesses (R4.4), returned bytes are payload[2*(addr-start)+pi(j)] with the word permutation "
        "tied to the LowWordFirst flag (R4.2), and each typed accessor uses the getter width and endianness its type and flags "
        "demand (R4.3). Float value identity is not decided."
        " R4.5: no access path writes the payload or keeps decoder state."
        " R4.6: AsRegisters hands the whole payload and the request start address to NewRegisters."
        " R4.5 also rooted at the builder's extraction loop."
        " R4.7: sub-register accessors (bit/byte results) do not read the configured byte order."),
  note=ENGINE_NOTE + " Registers values are assumed to come from NewRegisters (fields unexported; checked that no other function writes them).",
  ref="DESIGN.md §3 C04"),
 "C05": dict(
  technique="per-type symbolic evaluation of registerSize vs the accessor ExtractFrom selects; SSA access-path identity for argument roles; loop coverage",
  text=("Decides structural necessary conditions only (R5.1-R5.5): size table = accessor table for the 13 register field types, "
        "argument roles at every hand-over between builder, response and Registers, descriptor = constructor arguments in split, "
        "every field visited and reported exactly once in both extraction loops, widest size kept when fields share an address. "
        "The end-to-end equality with device memory for all field multisets is NOT decided (needs execution)."
        " Also R5.6 effect-free extraction, R5.7 constructors accept the full range 1..limit, R5.8 follow-up batches keep address and unit id, byte-order-aware accessors for multi-register types."
        " Also R5.9: Validate accepts every well-formed field."
        " Also R5.10 (definitions stored as given) and R5.11 (= C04 window rules)."
        " R5.12: building requests is read-only on the builder (field list not written, no state kept)."
        " R5.4 fresh components per iteration; R5.12 clause 3 (definitions not edited while building)."
        " R5.13 (= R4.3): accessors decode with the field's order for word order and byte order alike."),
  note=ENGINE_NOTE,
  ref="DESIGN.md §3 C05"),
 "C06": dict(
  technique="SSA/CFG rules on split/grouping/batching, truth-table enumeration of the kind filter through path facts, rule W on the span arithmetic",
  text=("Decides structural necessary conditions only (R6.1-R6.3, R6.W): descriptors are built from validating constructors on "
        "the batch's own values, the grouping key separates server/unit/kind injectively, the kind filter is exact, targets map to "
        "the right constructors, limits equal the specification, and slot end/span arithmetic cannot wrap. Optimality/tightness of "
        "the greedy batching for all field lists is NOT decided."
        " Also R6.4 (= R5.7) and R6.5 (the eight read-request encoders put unit/start/quantity on the wire as specified)."
        " R6.6 (= R5.1): slot size equals the registers the type occupies."
        " R6.8 = R5.12 (incl. no element pointer kept across an append to its slice); R6.9 the sort comparator is the ascending order of the slot address for all values and the sorted slice is the slice the batching loop walks."),
  note=ENGINE_NOTE,
  ref="DESIGN.md §3 C06"),
 "C07": dict(
  technique="symbolic evaluation of ExpectedResponseLength against the specified reply length; abstract interpretation of the read loops",
  text=("Decides necessary conditions only: ExpectedResponseLength equals the specified reply length for all quantities (R7.1; "
        "11 formulas are known findings pinned by tests), the read loop accumulates exactly what Read returned, exits to success "
        "only when complete (or EOF), tolerates exactly deadline/EOF errors, returns a copy of what was read (R7.2), and applies "
        "the exception recogniser to everything received in every iteration (R7.3). Scheduling and timing are not decided."
        " Also R7.4 installed recognisers claim only exception frames, R7.5 positive read timeout from the right configuration field, R7.6 parsers accept and decode every well-formed reply, R7.7 oversize limit = ADU size."
        " R7.5 includes guard purity."
        " R7.6 includes dispatcher acceptance of every legal size."
        " R7.9 never neither reply nor error."
        " R7.10 (= R8.7): the client reads from the dialer's own connection."),
  note=ENGINE_NOTE + " io.Reader contract assumed; errors.Is is identity for error values without Unwrap/Is methods and uninterpreted otherwise.",
  ref="DESIGN.md §3 C07"),
 "C08": dict(
  technique="abstract interpretation + CFG rules (select on every cycle, allow-listed calls, error classification by value origin)",
  text=("Decides structural termination and classification clauses on Do/do of both clients (R8.1-R8.5). Bounded wall-clock time "
        "is NOT decided; finite serial reads are assumed."
        " Also R8.6 usable timeouts/functions and configuration plumbing, R8.7 connection stored only after a successful dial, R8.8 installed reply functions cannot panic, R8.9 no exit leaves the client mutex held."
        " Also R8.10 Unwrap returns the cause; guard purity; helper obligations with the Flusher field invariant."
        " R8.11 dispatchers hand their whole input to the parsers."
        " R8.1/R8.2 follow a non-blocking poll helper; R8.3 cause clause: an error formatted into a ClientError's cause is wrapped with %w."),
  note=ENGINE_NOTE,
  ref="DESIGN.md §3 C08"),
 "C09": dict(
  technique="symbolic round trip parse∘encode = id (parser run on the encoder's symbolic buffer) and parser accept-range extraction",
  text=("Decides for all legal requests: the library's own frames are accepted by the per-function parsers (RTU with and without "
        "CRC) with no feasible rejecting or panicking path, decode to equal fields (hence re-encode identically) (R9.3); parser "
        "limits equal the specification's (R9.1); dispatchers agree (R9.4). FC1/FC2 parser limit 125 is a known finding."
        " R9.5 (= R1.5): header for any struct contents."
        " R9.6: shared-state rule for request parsing/encoding."
        " R9.8 the verifying request entry point accepts iff trailer = CRC of the whole input before it."
        " Known findings of R9.3 are keyed by the refused quantity range, not by the refusing expression."),
  note=ENGINE_NOTE,
  ref="DESIGN.md §3 C09"),
 "C10": dict(
  technique="abstract interpretation over SSA (relational linear domain, inlined callees) for bounds/no-panic obligations",
  text=("For all inputs: every index, slice, make, encoding/binary access and unchecked type assertion reachable from the 53 "
        "parsing entry points is proven safe against len (not cap), and every return path pairs a non-nil error with a nil "
        "value. This is a sound-by-construction static argument over all byte strings, which no finite test set gives; it "
        "is not a mechanised proof (the analyser itself is trusted), hence level 'other'."
        " Includes bounds obligations for package-level tables and array fields."
        " R10.3 treats an interface holding a nil pointer as a nil value; obligations of a helper are kept per call context when one fails."),
  note=ENGINE_NOTE + " Not covered: panics inside standard-library callees other than encoding/binary accessors; behaviour on 32-bit int.",
  ref="DESIGN.md §3 C10"),
 "C11": dict(
  technique="abstract interpretation + SSA value-identity extraction of the (byte, bit) position functions of isBitSet and CoilsToBytes; derived-pointer (taint) analysis of the packet types' own methods",
  text=("Decides the coil position function of the lookup and of the packer symbolically for all addresses and payload sizes, "
        "their agreement with the specification layout and with each other, range errors both ways, and the plumbing of the "
        "three wrappers. The write/read-back clause follows from those for every pattern. The byte-order defect of isBitSet is "
        "a known finding (pinned by existing tests)."
        " Also R11.4 wrappers only forward, R11.5 recogniser and parser of one framing, R11.6 replies are fresh copies."
        " R11.7 (= R1.1 for FC15 encoders)."
        " R11.8 (= R5.2): extraction asks the reply itself, with (request start, field address)."
        " R11.9 (= R13.4): no method of a coil reply type writes its payload."),
  note=ENGINE_NOTE,
  ref="DESIGN.md §3 C11"),
 "C12": dict(
  technique="type-resolved field-store enumeration; CRC equality dominance (abstract interpretation, CRC16 uninterpreted); value-origin classification",
  text=("Decides that the RTU constructors leave CRC-guarded static functions in both response-function fields, that both "
        "functions return reply content only under trailer == CRC16(body) on their own input, and that do()/Do can hand nothing "
        "else carrying reply content to the caller (R12.1-R12.3), for every reply and every corruption. User-supplied functions "
        "are outside the property."
        " R12.4: the recogniser sees received[0:total]."
        " Also R12.5 (parser gets do's result unchanged) and R12.6 (= R3.4)."
        " R12.7: recogniser consulted on the whole frame also in Do."
        " R12.8: shared-state rule for the clients' request path and CRC16."
        " R12.9 (= R7.2): what is CRC-checked is exactly what was received."),
  note=ENGINE_NOTE,
  ref="DESIGN.md §3 C12"),
 "C13": dict(
  technique="interprocedural derived-pointer (taint) analysis over SSA with a read-only allow-list; hidden-state store rule",
  text=("Decides write-effect freedom of every function reachable from the accessors/extraction roots: no store, copy or append "
        "through payload-derived memory, no escape to non-allow-listed code (R13.1), no store to globals or through pointer "
        "parameters/receivers (R13.2). Hence repeatability and order independence for all call sequences."
        " R13.2 includes the shared-state scan (package-level buffers, pools, caches)."
        " R13.3 each FieldValue built afresh (order independence of results)."
        " R13.4 every method of the reply types and of Registers; R13.5 extraction does not write the request's field list."),
  note=ENGINE_NOTE + " Aliasing is tracked by derived-pointer propagation only (no pointer analysis is available at x/tools v0.29.0).",
  ref="DESIGN.md §3 C13"),
 "C14": dict(
  technique="must-hold lock-set dataflow on the client's RWMutex with requires-lock summaries; freshness-based field partition",
  text=("Decides for every schedule, by the semantics of sync.RWMutex: guarded fields are only accessed under the lock, writes and "
        "all transport operations under the exclusive lock, Do holds the exclusive lock from entry to its single deferred unlock "
        "with the whole exchange inside, Close tests the transport under the lock (R14.1-R14.4). Fairness and the transport's own "
        "thread safety are not decided."
        " Also R14.5 replies never alias a reused buffer, R14.6 no exit leaves the mutex held."
        " R14.7: ClientError values are never modified after construction."
        " R14.8: no package-level state written from any exported client method."
        " R14.9 ExpectedResponseLength never too short (stream not shifted for the next caller); pinned deviations are known findings."),
  note=ENGINE_NOTE,
  ref="DESIGN.md §3 C14"),
 "C15": dict(
  technique="abstract interpretation of the assembler with a ghost model of bytes.Buffer (unread length/content); CFG rules on the loops",
  text=("Decides structural necessary conditions (R15.1-R15.4): frames are consumed and answered only when completely buffered, "
        "a complete request is never withheld, every answering path removes exactly the answered bytes (or closes), buffered "
        "requests are all handled in order within one read, the connection loop hands over exactly what was read and writes the "
        "reply before the next read. Exactly-once/in-order over all segmentations as a whole is NOT decided."
        " Also R15.5 one freshly allocated assembler per accepted connection, R15.6 classifier verdict depends on the header bytes only, accumulator returned on every loop exit."
        " Also: no read bytes dropped (R15.4), parsed requests do not alias the input (R15.7)."
        " R15.3 also forbids a return before the step and value receivers."
        " R15.2 also: the connection is given up only on the classifier's verdict."
        " R15.8 = R16.1."
        " R15.9: no method of the assembler outside the reassembly path touches its buffer."),
  note=ENGINE_NOTE + " bytes.Buffer contract is modelled, not analysed.",
  ref="DESIGN.md §3 C15"),
 "C16": dict(
  technique="abstract interpretation of dispatcher and assembler under the assembler's established facts; layout extraction of the exception encoder",
  text=("Decides: assembler type assertions cannot fail (R16.1), every feasible rejection of a classifier-accepted complete frame "
        "is an exception addressed with the frame's transaction id/unit/function and code 3 and no panic is possible (R16.2), the "
        "exception ADU layout (R16.3), origin and addressing of every reply the assembler emits (R16.4), recover-protected "
        "goroutines (R16.5), complete-frame consumption (R16.0). Handler-built responses are outside."
        " R16.6: no write to package-level state on the per-connection path."
        " R16.7 (= R15.3)."
        " R16.9 a failed reply write ends the connection."
        " R16.5 also: nothing in the deferred recovery can itself panic."
        " R16.10 (= R15.5): one fresh assembler per connection."),
  note=ENGINE_NOTE,
  ref="DESIGN.md §3 C16"),
 "C17": dict(
  technique="abstract interpretation with nil-ness path facts and ghost store facts for optional callbacks; lock-set analysis; CFG pairing/post-dominance rules",
  text=("Decides structural clauses (R17.1-R17.6): no call through a nil callback for any combination of set/unset callbacks, "
        "shared server state only under the mutex, untrack and close-callback guard exactly once on every path of the cleanup, "
        "rejected connections closed, context cancellation closes the listener, shutdown flag ordering, in-flight flag cleared "
        "only after the reply write. Exact accounting under all interleavings, the full in-flight guarantee of Shutdown and "
        "bounded time are NOT decided (schedule exploration)."
        " Also R17.7 nil listener, R17.8 Shutdown scan flag is monotone and never up for an in-flight connection, R17.9 no exit leaves Server.mu held, R17.10 all replies of a read are handed back and written."
        " R17.11 (= R16.6)."
        " R17.12: reply write deadline from a fresh clock reading."
        " R17.13: every way into the accept loop has stored the accepted-on listener in the Server before Accept."
        " R17.6 also: the in-flight flag is cleared on every path back to the read."
        " R17.12 also: a deadline armed before the handler ran is re-armed before the reply write."),
  note=ENGINE_NOTE,
  ref="DESIGN.md §3 C17"),
 "C18": dict(
  technique="constant-table comparison, abstract interpretation of the classifier on the encoders' symbolic buffers for every prefix length",
  text=("Decides table agreement (R18.1), expected length = 6 + length field (R18.2), too-short exactly below 8 bytes and "
        "acceptance of every prefix >= 8 of every encodable request with the right length (R18.3; FC17 is a known finding), "
        "addressed unsupported-function exception (R18.4), no panic in the dispatcher on accepted frames (R18.5)."
        " Also R18.6 (= R16.2), R18.7 (= R1.5), R18.8 (= R15.6)."),
  note=ENGINE_NOTE,
  ref="DESIGN.md §3 C18"),
 "C19": dict(
  technique="value identity of hook arguments with transport call arguments/results in the abstract interpretation; CFG placement rules",
  text=("Decides that the six hook call sites receive exactly the written slice, the chunk/count/error of the Read of the same "
        "iteration and the frame handed to the parser, are evaluated once per event on every path, and cannot influence the "
        "outcome (R19.1-R19.4). User hook bodies are outside."
        " Also: hook and parser only on success (R19.3), chunk accounting (R19.5), constructors pass Hooks through (R19.6)."
        " R19.6 includes guard purity."
        " R19.7 (= R8.7): what the after-read hook is shown comes from the dialer's own connection."),
  note=ENGINE_NOTE,
  ref="DESIGN.md §3 C19"),
}

m = {
 "version": 1,
 "setup_cmd": "./run.sh build",
 "hooks": {"guard": "verif",
           "enable": "none: the checks analyse /repo's source (go/packages + go/ssa) and never build or run it, so no hooks exist",
           "baseline_off_cmd": "cd /repo && GOFLAGS=-mod=mod go test -vet=off -count=1 ./...",
           "source_commits": [], "add_only": True},
 "engines": [{"name": "mbcheck", "path": "checker/",
              "serves_properties": sorted(claimed),
              "kind_free_text": "custom Go static analyser: go/packages + go/ssa + VTA call graph; relational abstract interpreter; per-property rule sets with positive controls"}],
 "checks": [],
 "notes": "All claims are static analyses at level 'other'; DESIGN.md states per property which clauses are decided and which are not. Known findings: known_findings.json.",
 "not_applicable": [],
}
for p in props:
    if p in claimed:
        c = claimed[p]
        m["checks"].append({
            "property_id": p,
            "quick_cmd": "./run.sh %s quick" % p,
            "thorough_cmd": "./run.sh %s thorough" % p,
            "evidence_file": "evidence/%s.json" % p,
            "replay_cmd_template": "./run.sh explain {path}",
            "engine": "mbcheck",
            "technique": c["technique"],
            "level_claimed": {"category": "other", "text": c["text"], "design_ref": c["ref"]},
            "level_note": c["note"],
        })
    else:
        m["not_applicable"].append({"property_id": p, "reason": "static check not built yet; no verdict is claimed (DESIGN.md lists the planned structural rules)"})
json.dump(m, open(os.path.join(HERE, "MANIFEST.json"), "w"), indent=1)
print("claimed:", sorted(claimed), "not_applicable:", len(m["not_applicable"]))
