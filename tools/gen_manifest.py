#!/usr/bin/env python3
"""Generates /verif/MANIFEST.json from the table below (one entry per claimed property)."""
import json, os

HERE = os.path.dirname(os.path.dirname(os.path.abspath(__file__)))
props = [json.loads(l)["id"] for l in open(os.path.join(HERE, "properties.jsonl"))]

ENGINE_NOTE = ("Trusted base: go/packages + go/types + go/ssa (x/tools v0.29.0) as the model of the source; the checker's own "
               "abstract domain (linear facts in DNF, Fourier-Motzkin entailment with integer tightening, rule W for narrow "
               "arithmetic); slice lengths < 2^31, 64-bit int; no unsafe/reflect in the library (asserted at load). "
               "Every run re-analyses /repo's working tree; positive controls under checker/testdata/controls must fire on every run.")

claimed = {
 "C10": dict(
  technique="abstract interpretation over SSA (relational linear domain, inlined callees) for bounds/no-panic obligations",
  text=("For all inputs: every index, slice, make, encoding/binary access and unchecked type assertion reachable from the 53 "
        "parsing entry points is proven safe against len (not cap), and every return path pairs a non-nil error with a nil "
        "value. This is a sound-by-construction static argument over all byte strings, which no finite test set gives; it "
        "is not a mechanised proof (the analyser itself is trusted), hence level 'other'."),
  note=ENGINE_NOTE + " Not covered: panics inside standard-library callees other than encoding/binary accessors; behaviour on 32-bit int.",
  ref="DESIGN.md §3 C10"),
 "C04": dict(
  technique="abstract interpretation of Registers methods under the constructor's invariant; SSA pattern extraction for layout/decode tables",
  text=("Decides, for every window position in the 16-bit address space, every address and string length: no accessor indexes "
        "outside the payload or panics (R4.1), success returns imply the access lies in the window and error returns are "
        "impossible for in-window accesses (R4.4), returned bytes are payload[2*(addr-start)+pi(j)] with the word permutation "
        "tied to the LowWordFirst flag (R4.2), and each typed accessor uses the getter width and endianness its type and flags "
        "demand (R4.3). Float value identity is not decided."),
  note=ENGINE_NOTE + " Registers values are assumed to come from NewRegisters (fields unexported; checked that no other function writes them).",
  ref="DESIGN.md §3 C04"),
 "C11": dict(
  technique="abstract interpretation + SSA value-identity extraction of the (byte, bit) position functions of isBitSet and CoilsToBytes",
  text=("Decides the coil position function of the lookup and of the packer symbolically for all addresses and payload sizes, "
        "their agreement with the specification layout and with each other, range errors both ways, and the plumbing of the "
        "three wrappers. The write/read-back clause follows from those for every pattern. The byte-order defect of isBitSet is "
        "a known finding (pinned by existing tests)."),
  note=ENGINE_NOTE,
  ref="DESIGN.md §3 C11"),
}

m = {
 "version": 1,
 "setup_cmd": "./run.sh build",
 "hooks": {"guard": "verif",
           "enable": "none: the checks analyse /repo's source (go/packages + go/ssa) and never build or run it, so no hooks exist",
           "baseline_off_cmd": "cd /repo && GOFLAGS=-mod=mod go test -vet=off -count=1 ./...",
           "source_commits": [], "add_only": True},
 "engines": [{"name": "mbcheck", "path": "checker/",
              "serves_properties": sorted(claimed),
              "kind_free_text": "custom Go static analyser: go/packages + go/ssa + VTA call graph; relational abstract interpreter; per-property rule sets with positive controls"}],
 "checks": [],
 "notes": "All claims are static analyses at level 'other'; DESIGN.md states per property which clauses are decided and which are not. Known findings: known_findings.json.",
 "not_applicable": [],
}
for p in props:
    if p in claimed:
        c = claimed[p]
        m["checks"].append({
            "property_id": p,
            "quick_cmd": "./run.sh %s quick" % p,
            "thorough_cmd": "./run.sh %s thorough" % p,
            "evidence_file": "evidence/%s.json" % p,
            "replay_cmd_template": "./run.sh explain {path}",
            "engine": "mbcheck",
            "technique": c["technique"],
            "level_claimed": {"category": "other", "text": c["text"], "design_ref": c["ref"]},
            "level_note": c["note"],
        })
    else:
        m["not_applicable"].append({"property_id": p, "reason": "static check not built yet; no verdict is claimed (DESIGN.md lists the planned structural rules)"})
json.dump(m, open(os.path.join(HERE, "MANIFEST.json"), "w"), indent=1)
print("claimed:", sorted(claimed), "not_applicable:", len(m["not_applicable"]))
