#!/usr/bin/env python3
"""Calibration of the checks against known-breaking variants (thorough tier).

usage: calibrate.py <Cxx|all> [--suite] [--json out.json]

For the given property it applies, each in its own scratch copy of /repo (outside /repo
and /verif, removed immediately afterwards):
  * every custom search/replace mutant of /verif/mutants/custom.json for that property,
  * every verified seeded change /verif/seeded/<id>/patch.diff of that property,
  * every reverse-fix patch listed in /verif/mutants/fixrev/index.json for that property,
then runs the property's check (separate process per variant) and records whether a
VIOLATION naming a construct was reported. Variants marked behaviour-preserving must stay
silent. The result never changes a check's exit status; it goes into the evidence file.
With --suite the repository's test suite is also run on each variant (slow; recorded).
"""
import json, os, subprocess, sys, tempfile, shutil, concurrent.futures, glob

VERIF = "/verif"
ENV = dict(os.environ, GOFLAGS="-mod=mod", GOPROXY="off", GOSUMDB="off", GOTOOLCHAIN="local")
ENV.pop("GOWORK", None)


def scratch():
    d = tempfile.mkdtemp(prefix="mbcal.", dir="/tmp")
    subprocess.run(["rsync", "-a", "--exclude", ".git", "/repo/", d + "/repo/"], check=True)
    return d


def run_check(d, prop):
    p = subprocess.run([os.environ.get("MBCHECK", VERIF + "/bin/mbcheck"), "-repo", d + "/repo", "-verif", VERIF, "-out", d + "/ev", "-nocontrols", "-p", prop],
                       capture_output=True, text=True, env=ENV)
    out = p.stdout + p.stderr
    rules = sorted(set(l.split("rule=")[1].split()[0] for l in out.splitlines() if l.strip().startswith("rule=")))
    nviol = sum(1 for l in out.splitlines() if l.startswith("VIOLATION property="))
    return p.returncode, nviol, rules, out


def variant(job):
    kind, vid, prop, spec, suite = job
    d = scratch()
    try:
        repo = d + "/repo"
        if kind == "custom":
            path = os.path.join(repo, spec["file"])
            s = open(path).read()
            n = s.count(spec["search"])
            if n == 0 or (n != 1 and not spec.get("all")):
                return dict(id=vid, kind=kind, status="skipped", why="search text occurs %d times" % n)
            s = s.replace(spec["search"], spec["replace"])
            open(path, "w").write(s)
        else:
            subprocess.run(["git", "init", "-q", "."], cwd=repo, check=True)
            args = ["git", "apply"] + (["-R"] if spec.get("reverse") else []) + [spec["patch"]]
            if subprocess.run(args, cwd=repo, capture_output=True).returncode != 0:
                return dict(id=vid, kind=kind, status="skipped", why="patch does not apply")
            shutil.rmtree(repo + "/.git", ignore_errors=True)
        b = subprocess.run(["go", "build", "./..."], cwd=repo, capture_output=True, text=True, env=ENV)
        if b.returncode != 0:
            return dict(id=vid, kind=kind, status="skipped", why="does not compile: " + b.stderr[-200:])
        res = dict(id=vid, kind=kind)
        if suite:
            t = subprocess.run(["go", "test", "-vet=off", "-count=1", "./..."], cwd=repo, capture_output=True, text=True, env=ENV)
            res["suite"] = "pass" if t.returncode == 0 else "fail"
        rc, nviol, rules, out = run_check(d, prop)
        expect_silent = "must NOT be reported" in spec.get("note", "")
        res.update(violations=nviol, rules=rules, exit=rc, expected_rule=spec.get("rule", ""))
        if rc not in (0, 1):
            res["status"] = "error"
            res["why"] = out[-300:]
        elif expect_silent:
            res["status"] = "silent-as-expected" if nviol == 0 else "FALSE-ALARM"
        else:
            res["status"] = "killed" if nviol > 0 else "MISSED"
        return res
    finally:
        shutil.rmtree(d, ignore_errors=True)


def jobs_for(prop, suite):
    jobs = []
    for m in json.load(open(VERIF + "/mutants/custom.json")):
        if m["property"] == prop:
            jobs.append(("custom", m["id"], prop, m, suite))
    for meta in sorted(glob.glob(VERIF + "/seeded/*/meta.json")):
        mm = json.load(open(meta))
        if mm["property"] == prop:
            jobs.append(("seeded", mm["id"], prop, dict(patch=os.path.dirname(meta) + "/patch.diff", rule=",".join(sum([d["rules"] for d in mm.get("detected_by", [])], []))), suite))
    idx = VERIF + "/mutants/fixrev/index.json"
    if os.path.exists(idx):
        for e in json.load(open(idx)):
            if prop in e["properties"]:
                jobs.append(("fixrev", e["id"], prop, dict(patch=VERIF + "/mutants/fixrev/" + e["file"], reverse=e.get("reverse", False), rule=e.get("rule", "")), suite))
    return jobs


EQUIV_PROP = "all"


def equiv_variant(path):
    """behaviour-preserving variant: every check must stay silent"""
    d = scratch()
    try:
        repo = d + "/repo"
        subprocess.run(["git", "init", "-q", "."], cwd=repo, check=True)
        if subprocess.run(["git", "apply", path], cwd=repo, capture_output=True).returncode != 0:
            return dict(id=os.path.basename(path), status="skipped", why="patch does not apply")
        shutil.rmtree(repo + "/.git", ignore_errors=True)
        if subprocess.run(["go", "build", "./..."], cwd=repo, capture_output=True, env=ENV).returncode != 0:
            return dict(id=os.path.basename(path), status="skipped", why="does not compile")
        rc, nviol, rules, out = run_check(d, EQUIV_PROP)
        alarms = sorted(set(l.split()[1] for l in out.splitlines() if l.startswith("VIOLATION property=")))
        fatal = [l for l in out.splitlines() if "unresolved anchor" in l or "fatal" in l.lower()][:3]
        return dict(id=os.path.basename(path), status="silent" if rc == 0 and nviol == 0 else "FALSE-ALARM", exit=rc, alarms=alarms, rules=rules, fatal=fatal)
    finally:
        shutil.rmtree(d, ignore_errors=True)


def main():
    if len(sys.argv) > 1 and sys.argv[1] == "equiv":
        global EQUIV_PROP
        for i, a in enumerate(sys.argv):
            if a == "--prop":
                EQUIV_PROP = sys.argv[i + 1]
        pat = sys.argv[2] if len(sys.argv) > 2 and not sys.argv[2].startswith("--") else "*"
        paths = sorted(glob.glob(VERIF + "/mutants/equiv/" + pat + ".diff"))
        with concurrent.futures.ThreadPoolExecutor(max_workers=5 if EQUIV_PROP == "all" else 8) as ex:
            rs = list(ex.map(equiv_variant, paths))
        known = {}
        kp = VERIF + "/mutants/equiv/KNOWN_ALARMS.json"
        if os.path.exists(kp):
            known = {e["id"] + ".diff": e["reason"] for e in json.load(open(kp))}
        for r in rs:
            if r["status"] == "FALSE-ALARM" and r["id"] in known:
                r["status"] = "known-limitation"
            print("equiv %-40s %s %s %s" % (r["id"], r["status"], r.get("alarms", ""), r.get("fatal", r.get("why", ""))))
        for i, a in enumerate(sys.argv):
            if a == "--json":
                json.dump(rs, open(sys.argv[i + 1], "w"), indent=1)
        return 0
    args = [a for a in sys.argv[1:] if not a.startswith("--")]
    suite = "--suite" in sys.argv
    props = args[0].split(",") if args and args[0] != "all" else ["C%02d" % i for i in range(1, 20)]
    result = {}
    for prop in props:
        jobs = jobs_for(prop, suite)
        with concurrent.futures.ThreadPoolExecutor(max_workers=8) as ex:
            rs = list(ex.map(variant, jobs))
        summary = dict(applied=sum(1 for r in rs if r["status"] not in ("skipped",)),
                       killed=sum(1 for r in rs if r["status"] == "killed"),
                       missed=[r["id"] for r in rs if r["status"] == "MISSED"],
                       false_alarms=[r["id"] for r in rs if r["status"] == "FALSE-ALARM"],
                       silent_as_expected=[r["id"] for r in rs if r["status"] == "silent-as-expected"],
                       skipped=[dict(id=r["id"], why=r.get("why", "")) for r in rs if r["status"] == "skipped"],
                       errors=[r["id"] for r in rs if r["status"] == "error"],
                       variants=rs)
        result[prop] = summary
        print("%s calibration: %d applied, %d killed, missed=%s false_alarms=%s skipped=%d errors=%s" % (
            prop, summary["applied"], summary["killed"], summary["missed"], summary["false_alarms"], len(summary["skipped"]), summary["errors"]))
    for i, a in enumerate(sys.argv):
        if a == "--json":
            json.dump(result, open(sys.argv[i + 1], "w"), indent=1)
    return 0


if __name__ == "__main__":
    sys.exit(main())
