#!/usr/bin/env python3
"""Rewrites the generated regions of /verif/DESIGN.md (between <!-- BEGIN GEN name --> and
<!-- END GEN name -->) from the committed data files: known_findings.json, seeded/*/meta.json,
mutants/custom.json, mutants/fixrev/index.json, mutants/equiv/*.diff."""
import json, glob, os, re, collections

V = "/verif"


def seeds_table():
    rows = []
    for meta in sorted(glob.glob(V + "/seeded/*/meta.json")):
        m = json.load(open(meta))
        d = os.path.dirname(meta)
        diff = open(d + "/patch.diff").read()
        files = sorted(set(l[6:] for l in diff.split("\n") if l.startswith("+++ b/")))
        fns = []
        for l in diff.split("\n"):
            mm = re.match(r"@@.*@@\s*(func .*)", l)
            if mm:
                f = re.sub(r"\{.*", "", mm.group(1)).strip()
                f = re.sub(r"^func (\([^)]*\) )?", "", f)
                f = f.split("(")[0]
                if f not in fns:
                    fns.append(f)
        det = "; ".join("%s %s" % (x["property"], ",".join(x["rules"])) for x in m.get("detected_by", [])) or (m.get("not_detected_label") or ("not detected: outside the property as stated (9.5)" if m.get("not_detected_reason") else "**missed**"))
        need = " ".join(m.get("needs_to_manifest", "").split())
        need = need.replace("|", "/")
        if len(need) > 150:
            need = need[:147] + "..."
        rows.append("| %s | %s | %s | %s | %s |" % (m["id"], ", ".join(files), ", ".join(fns[:2]), det, need))
    head = "| seed | file(s) | function | detected by (own property's check) | needs, to manifest |\n|---|---|---|---|---|\n"
    return head + "\n".join(rows) + "\n\n%d seeded changes, %d detected by the check of the property they were written against.\n" % (
        len(rows), sum(1 for r in rows if "**missed**" not in r and "not detected" not in r))


def mutants_table():
    ms = json.load(open(V + "/mutants/custom.json"))
    by = collections.OrderedDict()
    for m in ms:
        by.setdefault(m["property"], []).append(m)
    out = "| property | custom mutants (id → rule that must fire) |\n|---|---|\n"
    for p, lst in by.items():
        out += "| %s | %s |\n" % (p, "; ".join("%s → %s" % (m["id"], m.get("rule", "") or ("silent" if "must NOT" in m.get("note", "") else "?")) for m in lst))
    out += "\n%d custom search/replace mutants (one of them behaviour-preserving and required to stay silent).\n" % len(ms)
    idx = V + "/mutants/fixrev/index.json"
    if os.path.exists(idx):
        es = json.load(open(idx))
        out += "\nReverse-fix variants (each `fix:` commit undone on an otherwise current tree; the named checks must fire):\n\n| variant | properties whose check must fire |\n|---|---|\n"
        for e in es:
            out += "| %s | %s |\n" % (e["id"], ", ".join(e["properties"]))
    eq = sorted(glob.glob(V + "/mutants/equiv/*.diff"))
    known = {}
    kp = V + "/mutants/equiv/KNOWN_ALARMS.json"
    if os.path.exists(kp):
        known = {e["id"]: e["reason"] for e in json.load(open(kp))}
    out += "\nBehaviour-preserving variants (every one of the 19 checks must stay silent): " + ", ".join(os.path.basename(e)[:-5] for e in eq if os.path.basename(e)[:-5] not in known) + ".\n"
    if known:
        out += "\nBehaviour-preserving variants that still raise an alarm (known limitations, section 9.6):\n\n"
        for k, v in known.items():
            out += "* `%s` — %s\n" % (k, v)
    return out


def findings_table():
    k = json.load(open(V + "/known_findings.json"))
    out = "Fixed in /repo (one `fix:` commit each; a fixed entry suppresses nothing):\n\n| commit | property/rule | construct | what failed |\n|---|---|---|---|\n"
    for e in k["fixed"]:
        out += "| %s | %s %s | %s | %s |\n" % (e["commit"], e["property"], e.get("rule", ""), e.get("construct", "").replace("|", "/"), " ".join(e.get("what_failed", "").split()).replace("|", "/")[:260])
    groups = collections.OrderedDict()
    for e in k["known"]:
        key = (e["property"], e.get("why_not_fixed", "")[:60])
        groups.setdefault(key, []).append(e)
    out += "\nKnown findings (genuine defects left in place; printed as KNOWN-FINDING, exit 0; any other violation of the same rule still fails):\n\n| property | rules | constructs | witness | why not repaired |\n|---|---|---|---|---|\n"
    for (p, _), es in groups.items():
        rules = sorted(set(e["rule"] for e in es))
        cons = sorted(set(e["construct"] for e in es))
        c = ", ".join(cons[:4]) + (" … (%d constructs)" % len(cons) if len(cons) > 4 else "")
        out += "| %s | %s | %s | %s | %s |\n" % (p, ",".join(rules), c.replace("|", "/"), " ".join(es[0].get("witness", "").split()).replace("|", "/")[:220], " ".join(es[0].get("why_not_fixed", "").split()).replace("|", "/")[:220])
    out += "\n%d fixed entries, %d known entries.\n" % (len(k["fixed"]), len(k["known"]))
    return out


def main():
    p = V + "/DESIGN.md"
    s = open(p).read()
    for name, fn in (("seeds", seeds_table), ("mutants", mutants_table), ("findings", findings_table)):
        b, e = "<!-- BEGIN GEN %s -->" % name, "<!-- END GEN %s -->" % name
        if b in s and e in s:
            i, j = s.index(b) + len(b), s.index(e)
            s = s[:i] + "\n" + fn() + s[j:]
    open(p, "w").write(s)


if __name__ == "__main__":
    main()
