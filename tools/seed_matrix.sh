#!/bin/bash
# usage: seed_matrix.sh [own|all]   — runs the checks against every seeded change in a
# scratch copy (never in /repo) and prints "<seed> <property-check> <DETECTED rule...|missed>".
mode="${1:-own}"
cd /verif
run_one() {
  s="$1"; mode="$2"
  prop=$(python3 -c "import json;print(json.load(open('/verif/seeded/$s/meta.json'))['property'])")
  if [ "$mode" = all ]; then props="all"; else props="$prop"; fi
  out=$(./tools/try_patch.sh "$props" "seeded/$s/patch.diff" 2>&1)
  if echo "$out" | grep -q "PATCH-FAILED"; then echo "$s $prop PATCH-FAILED"; return; fi
  rules=$(echo "$out" | grep -A1 "^VIOLATION property=" | grep "rule=" | sed 's/.*rule=\([^ ]*\) construct=\([^ ]*\).*/\1/' | sort | uniq -c | awk '{printf "%s(x%s) ",$2,$1}')
  byprop=$(echo "$out" | grep "^VIOLATION property=" | sed 's/VIOLATION property=\([^ ]*\).*/\1/' | sort -u | tr '\n' ' ')
  if [ -n "$rules" ]; then echo "$s $prop DETECTED by=[$byprop] rules=[$rules]"; else echo "$s $prop missed"; fi
}
export -f run_one
ls seeded | xargs -P 8 -I{} bash -c "run_one {} $mode" | sort
