#!/bin/bash
# usage: vrace.sh PROP N PKGDIR DEMOFILE TESTRE
export GOFLAGS=-mod=mod GOPROXY=off GOSUMDB=off GOTOOLCHAIN=local; unset GOWORK
prop=$1; n=$2; pkg=$3; demo=$4; re=$5
src=/tmp/seed/${prop}${RND:-c}/_seed/$n
d=$(mktemp -d /tmp/mbseed.XXXXXX)
rsync -a --exclude .git /repo/ "$d/repo/"; cd "$d/repo"
cp "$src/$demo" "$pkg/$demo"
go test -race -vet=off -count=1 -run "$re" "./$pkg" >/dev/null 2>&1; b=$?
git init -q .; git apply "$src/patch.diff"
mv "$pkg/$demo" "$d/demo.keep"
go test -vet=off -count=1 ./... >/dev/null 2>&1; s=$?
cp "$d/demo.keep" "$pkg/$demo"
go test -race -vet=off -count=1 -run "$re" "./$pkg" >/dev/null 2>&1; m=$?
echo "${prop}${RND:-c}-$n clean=$b suite=$s mutated=$m"
cd /verif; rm -rf "$d"
if [ $b -eq 0 ] && [ $s -eq 0 ] && [ $m -ne 0 ]; then
  out=/verif/seeded/${prop}${RND:-c}-$n; mkdir -p "$out"; cp "$src/patch.diff" "$src/notes.md" "$src/$demo" "$out/"
  python3 - "$out" "${prop}${RND:-c}-$n" "$prop" "$pkg/$demo" "$re" <<'PY'
import json,sys
out,id_,prop,dest,re_=sys.argv[1:6]
meta={"id":id_,"property":prop,"demo_dest":dest,"demo_run":"go test -race -vet=off -count=1 -run '%s' ./%s"%(re_,dest.rsplit('/',1)[0]),
 "verified":{"demo_on_unchanged_tree":"pass","go_build_with_change":"ok","existing_suite_with_change":"pass","demo_with_change":"fail (needs -race)"},
 "verified_by":"scratch rsync copy of /repo (removed afterwards), demo run with -race","needs_to_manifest":"see notes.md","detected_by":[]}
json.dump(meta,open(out+'/meta.json','w'),indent=1)
PY
  echo KEPT
fi
