#!/bin/bash
# usage: verify_seed.sh <seed-src-dir> <seed-id> <property>
# Confirms a seeded change independently in a scratch copy of /repo: demo passes on the
# unchanged tree, the change compiles, the existing suite still passes with it, and the
# demo fails with it. On success stores patch/demo/meta under /verif/seeded/<seed-id>/.
set -u
src="$1"; id="$2"; prop="$3"
export GOFLAGS=-mod=mod GOPROXY=off GOSUMDB=off GOTOOLCHAIN=local; unset GOWORK
demo=$(ls "$src"/*_test.go 2>/dev/null | head -1)
[ -n "$demo" ] || { echo "$id: no demo test"; exit 1; }
dest=$(grep -oE "[A-Za-z0-9_/.-]*$(basename "$demo")" "$src/DEST.txt" | grep / | grep -v "_seed/" | grep -v "^/" | head -1)
[ -n "$dest" ] || dest=$(basename "$demo")   # repo root
pkgdir=$(dirname "$dest"); [ "$pkgdir" = "." ] && pkgdir="."
d=$(mktemp -d /tmp/mbseed.XXXXXX); trap 'rm -rf "$d"' EXIT
rsync -a --exclude .git /repo/ "$d/repo/"; cd "$d/repo"
cp "$demo" "$dest"
runre=$(grep -ohE "^func (Test[A-Za-z0-9_]*)" "$demo" | sed 's/func //' | paste -sd'|')
base_out=$(go test -vet=off -count=1 -run "^($runre)\$" "./$pkgdir" 2>&1); base_rc=$?
git init -q . && git apply "$src/patch.diff" || { echo "$id: patch does not apply"; exit 1; }
build_out=$(go build ./... 2>&1); build_rc=$?
rm -f "$dest"
suite_out=$(go test -vet=off -count=1 ./... 2>&1); suite_rc=$?
cp "$demo" "$dest"
mut_out=$(go test -vet=off -count=1 -run "^($runre)\$" "./$pkgdir" 2>&1); mut_rc=$?
echo "$id: demo-on-clean rc=$base_rc build rc=$build_rc suite-with-change rc=$suite_rc demo-with-change rc=$mut_rc"
if [ $base_rc -eq 0 ] && [ $build_rc -eq 0 ] && [ $suite_rc -eq 0 ] && [ $mut_rc -ne 0 ]; then
  out=/verif/seeded/$id; mkdir -p "$out"
  cp "$src/patch.diff" "$out/patch.diff"; cp "$demo" "$out/"; cp "$src/notes.md" "$out/notes.md" 2>/dev/null
  python3 - "$out" "$id" "$prop" "$dest" "$runre" <<'PY'
import json,sys,re
out,id_,prop,dest,runre=sys.argv[1:6]
notes=open(out+'/notes.md').read() if True else ''
meta={"id":id_,"property":prop,"demo_dest":dest,"demo_run":"go test -vet=off -count=1 -run '^(%s)$' ./%s"%(runre,dest.rsplit('/',1)[0] if '/' in dest else '.'),
 "verified":{"demo_on_unchanged_tree":"pass","go_build_with_change":"ok","existing_suite_with_change":"pass","demo_with_change":"fail"},
 "verified_by":"tools/verify_seed.sh in a scratch rsync copy of /repo (removed afterwards)",
 "needs_to_manifest":"see notes.md","detected_by":[]}
json.dump(meta,open(out+'/meta.json','w'),indent=1)
PY
  echo "$id: KEPT"
else
  echo "$id: REJECTED"; echo "$base_out" | tail -3; echo "$build_out" | tail -3; echo "$suite_out" | grep -v "^ok" | tail -5
fi
