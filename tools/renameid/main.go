// renameid renames identifier tokens (never strings or comments) in Go files:
// renameid old=new[,old=new...] file.go...   Used to produce behaviour-preserving variants.
package main

import (
	"fmt"
	"go/scanner"
	"go/token"
	"os"
	"strings"
)

func main() {
	m := map[string]string{}
	for _, kv := range strings.Split(os.Args[1], ",") {
		p := strings.SplitN(kv, "=", 2)
		m[p[0]] = p[1]
	}
	for _, fn := range os.Args[2:] {
		src, err := os.ReadFile(fn)
		if err != nil {
			fmt.Fprintln(os.Stderr, err)
			os.Exit(1)
		}
		fset := token.NewFileSet()
		f := fset.AddFile(fn, -1, len(src))
		var s scanner.Scanner
		s.Init(f, src, nil, scanner.ScanComments)
		var out []byte
		last := 0
		for {
			pos, tok, lit := s.Scan()
			if tok == token.EOF {
				break
			}
			if tok == token.IDENT {
				if nn, ok := m[lit]; ok {
					off := f.Offset(pos)
					out = append(out, src[last:off]...)
					out = append(out, nn...)
					last = off + len(lit)
				}
			}
		}
		out = append(out, src[last:]...)
		_ = os.WriteFile(fn, out, 0o644)
	}
}
