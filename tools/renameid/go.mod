module renameid

go 1.22
