#!/bin/bash
# Thorough tier add-ons for one property (run by run.sh after the analysis itself):
# calibration against known-breaking variants and cross-reference tools. They decide
# nothing and never change the exit status; results are merged into the evidence file.
set -u
prop="$1"
cd /verif
export GOFLAGS=-mod=mod GOPROXY=off GOSUMDB=off GOTOOLCHAIN=local; unset GOWORK
tmp=$(mktemp -d /tmp/mbthorough.XXXXXX); trap 'rm -rf "$tmp"' EXIT
python3 tools/calibrate.py "$prop" --json "$tmp/cal.json" || true
python3 tools/calibrate.py equiv '*' --prop "$prop" --json "$tmp/equiv.json" > "$tmp/equiv.txt" 2>&1 || true
( cd /repo && go vet ./... > "$tmp/vet.txt" 2>&1; echo "exit=$?" >> "$tmp/vet.txt" )
( cd /repo && staticcheck ./... > "$tmp/sc.txt" 2>&1; echo "exit=$?" >> "$tmp/sc.txt" )
( cd /repo && errcheck ./... > "$tmp/ec.txt" 2>&1; echo "exit=$?" >> "$tmp/ec.txt" )
python3 - "$prop" "$tmp" <<'PY'
import json,sys
prop,tmp=sys.argv[1],sys.argv[2]
ev=json.load(open('/verif/evidence/%s.json'%prop))
try:
    cal=json.load(open(tmp+'/cal.json')).get(prop,{})
    for v in cal.get('variants',[]): v.pop('exit',None)
except Exception as e:
    cal={"error":str(e)}
def summ(f):
    try: lines=[l.rstrip() for l in open(f) if l.strip()]
    except Exception: return {"error":"not run"}
    return {"lines":len(lines)-1,"first":lines[:5]}
ev['coverage']['calibration']=cal
try:
    eq=json.load(open(tmp+'/equiv.json'))
    ev['coverage']['behaviour_preserving_variants']={"note":"every variant keeps behaviour; this property's check must stay silent on each (known limitations are listed in mutants/equiv/KNOWN_ALARMS.json)",
      "variants":len(eq),"silent":sum(1 for e in eq if e.get('status')=='silent'),
      "known_limitation":[e['id'] for e in eq if e.get('status')=='known-limitation'],
      "false_alarms":[e['id'] for e in eq if e.get('status')=='FALSE-ALARM'],
      "skipped":[e['id'] for e in eq if e.get('status')=='skipped']}
except Exception as e:
    ev['coverage']['behaviour_preserving_variants']={"error":str(e)}
ev['coverage']['crossref']={"note":"cross-reference only; these tools decide nothing","go_vet":summ(tmp+'/vet.txt'),"staticcheck":summ(tmp+'/sc.txt'),"errcheck":summ(tmp+'/ec.txt')}
json.dump(ev,open('/verif/evidence/%s.json'%prop,'w'),indent=1)
print("thorough add-ons merged into evidence/%s.json: calibration killed %s/%s, missed=%s"%(prop,cal.get('killed'),cal.get('applied'),cal.get('missed')))
PY
