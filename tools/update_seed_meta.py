#!/usr/bin/env python3
"""usage: update_seed_meta.py <glob of seed ids, e.g. 'C*f-*'> [--bin /path/to/mbcheck]
Runs the own property's check against each matching seeded change (scratch copy, via
tools/try_patch.sh), records detected_by / what_was_run in its meta.json and fills
needs_to_manifest from the 'needed to make it manifest' section of notes.md when it still
says 'see notes.md'."""
import sys, os, re, json, glob, subprocess, concurrent.futures
V = "/verif"
pat = sys.argv[1]
env = dict(os.environ)
if "--bin" in sys.argv:
    env["MBCHECK"] = sys.argv[sys.argv.index("--bin") + 1]

def needs(notes):
    m = re.search(r"^#+\s*[^\n]*(manifest|trigger|needs)[^\n]*\n(.*?)(?=^#+\s|\Z)", notes, re.I | re.S | re.M)
    txt = m.group(2) if m else notes
    txt = " ".join(txt.split())
    return txt[:600]

def one(d):
    meta_p = d + "/meta.json"
    m = json.load(open(meta_p))
    prop = m["property"]
    out = subprocess.run([V + "/tools/try_patch.sh", prop, d + "/patch.diff"], capture_output=True, text=True, env=env).stdout
    rules = sorted(set(re.findall(r"^  rule=(\S+) construct=", out, re.M)))
    m["detected_by"] = [{"property": prop, "rules": rules}] if rules else []
    m["what_was_run"] = "tools/verify_seed.sh (build, existing suite, demo before/after) and tools/try_patch.sh %s seeded/%s/patch.diff in a scratch copy of /repo" % (prop, m["id"])
    if m.get("needs_to_manifest", "").startswith("see notes") and os.path.exists(d + "/notes.md"):
        m["needs_to_manifest"] = needs(open(d + "/notes.md").read())
    json.dump(m, open(meta_p, "w"), indent=1)
    return "%s %s %s" % (m["id"], prop, ",".join(rules) or "MISSED")

dirs = sorted(glob.glob(V + "/seeded/" + pat))
with concurrent.futures.ThreadPoolExecutor(max_workers=6) as ex:
    for line in ex.map(one, dirs):
        print(line)
